#!/bin/sh
# MANIFEST.setup_cmd: build the framework from files on disk only (offline).
set -e
cd "$(dirname "$0")"
/venv/bin/python tools/translate.py --repo "${VERIF_REPO:-/repo}" > /dev/null
cd lean
lake build FeedVerif 2>&1 | tail -5
echo "setup ok"
