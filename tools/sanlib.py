"""Shared by C03 / C13: callback recording on the real HTMLSanitizer / RelativeURIResolver, tag-soup and
safe-tree generators, protocol lines for the M-san driver."""
import html
import json
import os

import vlib
from vlib import enc

REF = json.load(open(os.path.join(vlib.ROOT, "reference", "tables.json")))
_S = dict((n, v) for n, _t, v in REF["Sanitizer"])
REF_ELEMS = set(_S["acceptableElements"])
REF_ATTRS = set(_S["acceptableAttributes"])
REF_MATHML_E, REF_MATHML_A = set(_S["mathmlElements"]), set(_S["mathmlAttributes"])
REF_SVG_E, REF_SVG_A = set(_S["svgElements"]), set(_S["svgAttributes"])
REF_SVG_E_L = {e.lower() for e in REF_SVG_E}
REF_SVG_A_L = {a.lower() for a in REF_SVG_A}
REF_VOID = set(_S["elementsNoEndTag"])
REF_UNACC = set(_S["unacceptableElementsWithEndTag"])
NS = ["http://www.w3.org/2000/svg", "http://www.w3.org/1998/Math/MathML", "http://www.w3.org/1999/xlink"]


def record_sanitizer(markup, typ):
    """returns (events, output) ; events: dict(kind, args, pieces (joined str emitted by this callback), state)"""
    import feedparser.sanitizer as S
    events = []

    class Rec(S.HTMLSanitizer):
        def _wrap(self, kind, args, fn):
            n = len(self.pieces)
            try:
                fn()
            finally:
                events.append({"kind": kind, "args": args, "pieces": "".join(self.pieces[n:]), "npieces": len(self.pieces) - n,
                               "state": (self.unacceptablestack, self.mathmlOK, self.svgOK)})

        def unknown_starttag(self, tag, attrs):
            a = [tuple(x) for x in attrs]
            self._wrap("stag", (tag, a), lambda: S.HTMLSanitizer.unknown_starttag(self, tag, attrs))

        def unknown_endtag(self, tag):
            self._wrap("etag", (tag,), lambda: S.HTMLSanitizer.unknown_endtag(self, tag))

        def handle_data(self, text):
            self._wrap("text", (text,), lambda: S.HTMLSanitizer.handle_data(self, text))

        def handle_charref(self, ref):
            self._wrap("charref", (ref,), lambda: S.HTMLSanitizer.handle_charref(self, ref))

        def handle_entityref(self, ref):
            self._wrap("entref", (ref,), lambda: S.HTMLSanitizer.handle_entityref(self, ref))

        def handle_comment(self, text):
            self._wrap("comment", (text,), lambda: S.HTMLSanitizer.handle_comment(self, text))

        def handle_pi(self, text):
            self._wrap("pi", (text,), lambda: S.HTMLSanitizer.handle_pi(self, text))

        def handle_decl(self, text):
            self._wrap("decl", (text,), lambda: S.HTMLSanitizer.handle_decl(self, text))

        def unknown_decl(self, data):
            self._wrap("mdecl", (data,), lambda: S.HTMLSanitizer.unknown_decl(self, data))

    p = Rec("utf-8", typ)
    src = markup.replace("<![CDATA[", "&lt;![CDATA[")
    p.feed(src)
    # every piece of the output must have been emitted inside one of the recorded (= modelled) callbacks: a handler the model does not
    # know about (e.g. one for marked sections) shows up here as an event of its own, which the model cannot match
    extra = len(p.pieces) - sum(e["npieces"] for e in events)
    if extra > 0:
        events.append({"kind": "unrecorded-callback", "args": ("",), "pieces": "<%d pieces emitted outside the recorded callbacks>" % extra, "npieces": extra,
                       "state": (p.unacceptablestack, p.mathmlOK, p.svgOK)})
    return events, p.output()


def _style(v, svg):
    import feedparser.sanitizer as S
    q = S.HTMLSanitizer("utf-8", "text/html")
    q.svgOK = 1 if svg else 0
    return q.sanitize_style(v)


def _safe_href(v):
    from feedparser.urls import make_safe_absolute_uri
    return make_safe_absolute_uri(v) if make_safe_absolute_uri(html.unescape(v)) else ""


def ascii_ok(x):
    return all(ord(c) < 128 for c in x)


def lines_for(events, typ):
    """protocol lines + expected outputs; None entries mark unmodelled callbacks"""
    lines, exp = ["san reset %d" % typ.endswith("html")], ["ok"]
    modelled = True
    for ev in events:
        k, a = ev["kind"], ev["args"]
        st = "%d %d %d" % ev["state"]
        # (a callback that appends only EMPTY pieces -- handle_data("") after `<img//` -- emits nothing observable: the output is the join of the pieces)
        e = ("P " + enc(ev["pieces"]) if ev["pieces"] != "" else "-") + " " + st
        if k == "stag":
            tag, attrs = a
            if not ascii_ok(tag) or any(not ascii_ok(x) for x, _ in attrs) or any(x.lower() in ("rel", "type") and not ascii_ok(y) for x, y in attrs):
                modelled = False      # Python's lower() is Unicode-aware, the model's is ASCII: stop comparing this run
                break
            vals = [y for _x, y in attrs] + NS
            fields = []
            for x, y in list(attrs) + [("xmlns", n) for n in NS]:
                fields.append("|".join([enc(x), enc(y), enc(_style(y, False)), enc(_style(y, True)), enc(_safe_href(y))]))
            lines.append("san stag %s %s" % (enc(tag), " ".join(fields)))
            # the extra (xmlns, NS) oracle rows are attributes too: strip them from what the model sees
            lines[-1] = "san stag %s %s" % (enc(tag), " ".join(fields[:len(attrs)])) + "".join(" ORACLE:" + f for f in fields[len(attrs):])
        elif k == "etag":
            lines.append("san etag %s" % enc(a[0]))
        else:
            lines.append("san %s %s" % (k, enc(a[0])))
        exp.append(e)
    return lines, exp, modelled


def record_resolver(markup, base, typ):
    import feedparser.urls as U
    events = []

    class Rec(U.RelativeURIResolver):
        def _wrap(self, kind, args, fn):
            n = len(self.pieces)
            try:
                fn()
            finally:
                events.append({"kind": kind, "args": args, "pieces": "".join(self.pieces[n:]), "npieces": len(self.pieces) - n})

        def unknown_starttag(self, tag, attrs):
            a = [tuple(x) for x in attrs]
            self._wrap("stag", (tag, a), lambda: U.RelativeURIResolver.unknown_starttag(self, tag, attrs))

        def unknown_endtag(self, tag):
            self._wrap("etag", (tag,), lambda: U.RelativeURIResolver.unknown_endtag(self, tag))

        def handle_data(self, text):
            self._wrap("text", (text,), lambda: U.RelativeURIResolver.handle_data(self, text))

        def handle_charref(self, ref):
            self._wrap("charref", (ref,), lambda: U.RelativeURIResolver.handle_charref(self, ref))

        def handle_entityref(self, ref):
            self._wrap("entref", (ref,), lambda: U.RelativeURIResolver.handle_entityref(self, ref))

        def handle_comment(self, text):
            self._wrap("comment", (text,), lambda: U.RelativeURIResolver.handle_comment(self, text))

        def handle_pi(self, text):
            self._wrap("pi", (text,), lambda: U.RelativeURIResolver.handle_pi(self, text))

        def handle_decl(self, text):
            self._wrap("decl", (text,), lambda: U.RelativeURIResolver.handle_decl(self, text))

        def unknown_decl(self, data):
            self._wrap("mdecl", (data,), lambda: U.RelativeURIResolver.unknown_decl(self, data))

    p = Rec(base, "utf-8", typ)
    p.feed(markup)
    extra = len(p.pieces) - sum(e["npieces"] for e in events)
    if extra > 0:
        events.append({"kind": "unrecorded-callback", "args": ("",), "pieces": "<%d pieces emitted outside the recorded callbacks>" % extra, "npieces": extra})
    return events, p.output()


def res_lines_for(events, base):
    from feedparser.urls import make_safe_absolute_uri
    lines, exp = [], []
    for ev in events:
        k, a = ev["kind"], ev["args"]
        e = "P " + enc(ev["pieces"]) if ev["pieces"] else "-"
        if k == "stag":
            tag, attrs = a
            if not ascii_ok(tag) or any(not ascii_ok(x) for x, _ in attrs) or any(x.lower() in ("rel", "type") and not ascii_ok(y) for x, y in attrs):
                break
            fields = ["|".join([enc(x), enc(y), enc(make_safe_absolute_uri(base, y.strip()))]) for x, y in attrs]
            lines.append("res stag %s %s" % (enc(tag), " ".join(fields)))
        else:
            lines.append("res %s %s" % (k, enc(a[0])))
        exp.append(e)
    return lines, exp
