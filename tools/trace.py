"""Event recording on the real handler machine: subclasses of StrictFeedParser / LooseFeedParser
patched into feedparser.api for the duration of one parse() call (no change to /repo).
Each record: (kind, payload, state-after) where state = (baseuri, lang, len(basestack),
len(langstack), depth, len(elementstack), inentry, len(entries))."""
import unittest.mock as mock
import warnings


def _state(p):
    return {"baseuri": p.baseuri, "lang": p.lang, "nbase": len(p.basestack), "nlang": len(p.langstack),
            "depth": p.depth, "nelem": len(p.elementstack), "inentry": p.inentry, "nentries": len(p.entries),
            "incontent": p.incontent, "resolve": bool(p.resolve_relative_uris), "sanitize": bool(p.sanitize_html)}


def make_tracer(base_cls, log):
    class Tracer(base_cls):
        _in_start = False
        _in_tag = False

        def unknown_starttag(self, tag, attrs):
            attrs = list(attrs)
            self._in_start = True
            pre = _state(self)
            try:
                norm = dict(self._normalize_attributes(a) for a in attrs)
            except Exception:
                norm = {}
            rec = {"k": "start", "tag": tag, "attrs": attrs, "norm": norm, "pre": pre, "pid": id(self)}
            log.append(rec)
            self._in_tag = True
            try:
                return super().unknown_starttag(tag, attrs)
            finally:
                self._in_start = False
                self._in_tag = False
                rec["post"] = _state(self)

        def unknown_endtag(self, tag):
            rec = {"k": "end", "tag": tag, "pre": _state(self), "pid": id(self)}
            log.append(rec)
            self._in_tag = True
            try:
                return super().unknown_endtag(tag)
            finally:
                self._in_tag = False
                rec["post"] = _state(self)

        def handle_data(self, text, escape=1):
            # synth: markup re-serialised by unknown_starttag / unknown_endtag inside inline content, not character data from the tokenizer
            log.append({"k": "data", "text": text, "escape": escape, "nelem": len(self.elementstack), "synth": self._in_tag, "pid": id(self)})
            return super().handle_data(text, escape)

        _in_eref = 0

        def handle_charref(self, ref):
            log.append({"k": "charref", "ref": ref, "nelem": len(self.elementstack), "pid": id(self)})
            return super().handle_charref(ref)

        def handle_entityref(self, ref):
            # (handle_entityref re-enters itself for a DOCTYPE entity whose replacement is a character reference: only the outermost call is an event)
            if not self._in_eref:
                ents = getattr(self, "entities", None) or {}
                log.append({"k": "entityref", "ref": ref, "found": ref in ents, "text": ents.get(ref, ""), "nelem": len(self.elementstack), "pid": id(self)})
            self._in_eref += 1
            try:
                return super().handle_entityref(ref)
            finally:
                self._in_eref -= 1

        # stage 2 (text constructs): what the post-processing steps of pop() answer -- parameters of the model
        @staticmethod
        def looks_like_html(s):
            r = base_cls.looks_like_html(s)
            log.append({"k": "looks", "result": bool(r)})
            return r

        def decode_entities(self, element, data):
            r = super().decode_entities(element, data)
            log.append({"k": "decode", "element": element, "data": data, "result": r})
            return r

        def track_namespace(self, prefix, uri):
            log.append({"k": "ns", "prefix": prefix, "uri": uri, "in_start": self._in_start, "pid": id(self)})
            return super().track_namespace(prefix, uri)
    Tracer.__name__ = "Tracer" + base_cls.__name__
    return Tracer


def traced_parse(doc, headers=None, loose=False, **kw):
    """returns (result | exception, event log)"""
    import feedparser
    import feedparser.api as api
    import feedparser.mixin as mixin
    log = []
    S, L = make_tracer(api.StrictFeedParser, log), make_tracer(api.LooseFeedParser, log)
    saved = api._XML_AVAILABLE
    real_join = mixin._urljoin

    def join_spy(base, uri):
        r = real_join(base, uri)
        log.append({"k": "join", "base": base, "uri": uri, "result": r})
        return r
    import feedparser.namespaces._base as nsbase
    real_pd = nsbase._parse_date

    def date_spy(value):
        r = real_pd(value)
        log.append({"k": "date", "value": value, "result": tuple(r) if r else None})
        return r
    real_res, real_san, real_b64 = mixin.resolve_relative_uris, mixin.sanitize_html, mixin.base64
    real_email = mixin.email_pattern

    class EmailSpy:
        # stage 7: what email_pattern.search(author) answered (group(0)) -- a parameter of the model
        pattern = real_email.pattern

        @staticmethod
        def search(s, *a):
            m = real_email.search(s, *a)
            log.append({"k": "email", "arg": s, "result": m.group(0) if m else None})
            return m

        def __getattr__(self, name):
            return getattr(real_email, name)

    def res_spy(*a, **k):
        r = real_res(*a, **k)
        log.append({"k": "resolve", "result": r})
        return r

    def san_spy(*a, **k):
        r = real_san(*a, **k)
        log.append({"k": "sanitize", "result": r})
        return r

    class B64:
        @staticmethod
        def decodebytes(b):
            try:
                r = real_b64.decodebytes(b)
            except Exception:
                log.append({"k": "b64", "result": None})
                raise
            try:
                log.append({"k": "b64", "result": r.decode("utf8")})
            except UnicodeDecodeError:
                log.append({"k": "b64", "result": None})
            return r
    try:
        if loose:
            api._XML_AVAILABLE = False
        with mock.patch.object(api, "StrictFeedParser", S), mock.patch.object(api, "LooseFeedParser", L), \
                mock.patch.object(mixin, "_urljoin", join_spy), mock.patch.object(nsbase, "_parse_date", date_spy), \
                mock.patch.object(mixin, "resolve_relative_uris", res_spy), mock.patch.object(mixin, "sanitize_html", san_spy), \
                mock.patch.object(mixin, "base64", B64), mock.patch.object(mixin, "email_pattern", EmailSpy()), warnings.catch_warnings():
            warnings.simplefilter("ignore")
            try:
                r = feedparser.parse(doc, response_headers=headers, **kw)
            except Exception as e:       # totality is C01's subject; callers decide
                r = e
    finally:
        api._XML_AVAILABLE = saved
    return r, log
