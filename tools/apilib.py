"""Correspondence of M-api (lean/FeedVerif/Model/Api.lean) with feedparser.parse: the outcomes of the stages
of one real call are observed with spies (no change to /repo), fed to the model, and the model's prediction
(key set, bozo, kind of attached exception, parsers constructed, parser whose data is returned) is compared
with the real result."""
import io
import unittest.mock as mock
import warnings

import vlib

JSON_TYPES = {"application/json", "application/feed+json"}


def observe(source, headers=None, xml_available=True, **opts):
    """run parse(source, ...) with spies; returns (stages dict, observed dict) or (None, exception)"""
    import xml.sax
    import feedparser
    import feedparser.api as api
    import feedparser.http as http
    st = {"urlError": 0, "empty": 0, "encodingKnown": 0, "jsonType": 0, "convError": 0, "xmlAvailable": int(xml_available), "saxFails": 0, "looseEmpty": 0, "jsonFails": 0,
          "isUrl": 0, "transportFails": 0, "hasEtag": 0, "hasModified": 0}
    ran = []
    reached_conv = []

    real_conv = api.convert_file_to_utf8

    def conv_spy(http_headers, file, result, optimistic):
        reached_conv.append(1)
        f = real_conv(http_headers, file, result, optimistic)
        st["encodingKnown"] = int(bool(result.get("encoding")))
        st["jsonType"] = int(result.get("content-type") in JSON_TYPES)
        st["convError"] = int(bool(result.get("bozo")) and not st["transportFails"])
        return f

    real_make = xml.sax.make_parser

    class SaxProxy:
        def __init__(self, p):
            self._p = p

        def __getattr__(self, n):
            return getattr(self._p, n)

        def parse(self, source):
            try:
                return self._p.parse(source)
            except xml.sax.SAXException:
                st["saxFails"] = 1
                raise

    class Strict(api.StrictFeedParser):
        def __init__(self, *a, **k):
            ran.append("strict")
            super().__init__(*a, **k)

    class Loose(api.LooseFeedParser):
        def __init__(self, *a, **k):
            ran.append("loose")
            super().__init__(*a, **k)

        def feed(self, data):
            r = super().feed(data)
            st["looseEmpty"] = int(not (self.entries or self.feeddata or self.version))
            return r

    class Json(api.JSONParser):
        def __init__(self, *a, **k):
            ran.append("json")
            super().__init__(*a, **k)

        def feed(self, f):
            try:
                return super().feed(f)
            except Exception:
                st["jsonFails"] = 1
                raise

    real_get = http.get

    def get_spy(url, result):
        st["isUrl"] = 1
        data = real_get(url, result)
        st["transportFails"] = int(bool(result.get("bozo")))
        st["hasEtag"] = int("etag" in result.get("headers", {}))
        st["hasModified"] = int(bool(result.get("headers", {}).get("last-modified")))
        return data

    saved = api._XML_AVAILABLE
    try:
        api._XML_AVAILABLE = xml_available
        with mock.patch.object(api, "convert_file_to_utf8", conv_spy), mock.patch.object(api.xml.sax, "make_parser", lambda *a, **k: SaxProxy(real_make(*a, **k))), \
                mock.patch.object(api, "StrictFeedParser", Strict), mock.patch.object(api, "LooseFeedParser", Loose), mock.patch.object(api, "JSONParser", Json), \
                mock.patch.object(http, "get", get_spy), warnings.catch_warnings():
            warnings.simplefilter("ignore")
            try:
                r = feedparser.parse(source, response_headers=headers, **opts)
            except Exception as e:
                return None, e
    finally:
        api._XML_AVAILABLE = saved
    if not reached_conv and not st["transportFails"]:
        st["empty"] = 1
    import requests
    exc = r.get("bozo_exception")
    if exc is None:
        kind = "-"
    elif isinstance(exc, requests.RequestException):
        kind = "transport"
    elif isinstance(exc, xml.sax.SAXException) or type(exc).__name__ == "UndeclaredNamespace":
        kind = "sax"
    elif type(exc).__name__ in ("CharacterEncodingOverride", "CharacterEncodingUnknown", "NonXMLContentType"):
        kind = "conv"
    else:
        kind = "json"
    final = "-"
    if ran:
        final = ran[-1]
    obs = {"keys": ",".join(sorted(dict.keys(r))), "bozo": int(bool(r["bozo"])), "exc": kind, "ran": ",".join(ran), "final": final}
    return st, obs


ORDER = ["urlError", "empty", "encodingKnown", "jsonType", "convError", "xmlAvailable", "saxFails", "looseEmpty", "jsonFails", "isUrl", "transportFails", "hasEtag", "hasModified"]


def line_for(st):
    return "api parse " + " ".join(str(st[k]) for k in ORDER)


def expected(obs):
    return "|".join([obs["keys"], str(obs["bozo"]), obs["exc"], obs["ran"], obs["final"]])


def gen_inputs(rng):
    import feedgen
    good = feedgen.vocab_doc(rng).encode("utf-8")
    broken = good[:rng.randrange(20, len(good))]
    js = feedgen.serialize(feedgen.abstract_feed(rng), rng.choice(["json1", "json11"])).encode("utf-8")
    pool = [good, broken, js, js[:len(js) // 2], b"", b" ", b"plain text, no markup", b"\xff\xfe\x00", good.decode("utf-8").encode("utf-16"), b"<rss", b"<html><body>hi</body></html>", b"{}", b"[]", b"null",
            '<?xml version="1.0" encoding="x-nosuch"?><rss version="2.0"><channel><title>é</title></channel></rss>'.encode("latin-1"),
            '<?xml version="1.0" encoding="iso-8859-1"?><rss version="2.0"><channel><title>é</title></channel></rss>'.encode("utf-8")]
    data = rng.choice(pool)
    hdr = rng.choice([None, {}, {"content-type": "application/xml"}, {"content-type": "application/xml; charset=utf-8"}, {"content-type": "text/plain"}, {"content-type": "application/json"},
                      {"Content-Type": "application/feed+json; charset=utf-8"}, {"content-type": "text/xml; charset=x-nosuch"}, {"content-type": "application/atom+xml; charset=iso-8859-1"},
                      {"content-type": "text/html"}, {"content-location": "http://example.org/f"}])
    form = rng.choice(["bytes", "stream", "str", "textstream"])
    if form == "stream":
        src = io.BytesIO(data)
    elif form in ("str", "textstream"):
        try:
            t = data.decode("utf-8")
        except UnicodeDecodeError:
            t = data.decode("latin-1")
        src = io.StringIO(t) if form == "textstream" or len(t) < 8 else t
    else:
        src = data
    return src, hdr, rng.random() < 0.8, {"optimistic_encoding_detection": rng.random() < 0.5}


def corr(ctx, n=None, extra=()):
    rng = ctx.rng
    lines, exp, meta = [], [], []
    dist = {}
    dis = []
    cases = list(extra)
    for _ in range(n or ctx.n(250, 4000)):
        cases.append(gen_inputs(rng))
    for src, hdr, xa, opts in cases:
        desc = repr(src if not hasattr(src, "getvalue") else src.getvalue())[:200]
        st, obs = observe(src, hdr, xa, **opts)
        if st is None:
            dis.append({"input": desc, "headers": hdr, "what": "parse() raised %s: %s" % (type(obs).__name__, str(obs)[:200])})
            continue
        lines.append(line_for(st))
        exp.append(expected(obs))
        meta.append({"input": desc, "headers": hdr, "xml_available": xa})
        sig = "ran=%s exc=%s" % (obs["ran"] or "-", obs["exc"])
        dist[sig] = dist.get(sig, 0) + 1
    got = vlib.run_driver(lines) if lines else []
    for g, e, l, m in zip(got, exp, lines, meta):
        if g != e and len(dis) < 20:
            dis.append(dict(m, line=l, model=g, impl=e))
    return {"cases": len(lines), "distinct": len(set(lines)), "unmodelled": 0, "disagreements": dis, "distribution": dist, "samples": [{"line": lines[0], "expected": exp[0]}] if lines else []}
