#!/bin/sh
# tools/round2.sh Cxx : archive the second-round sub-agent mutations of /tmp/mut2/Cxx as Cxx-C / Cxx-D and run the matrix on them
cd /verif || exit 2
for pair in "A C" "B D"; do
  set -- $pair
  python3 tools/seedadd.py "$C" "$1" /tmp/mut2/$C "$2" 2>&1 | tail -n 2
done
python3 tools/seedmatrix.py $C-C $C-D 2>&1 | cut -c1-260
