"""Feed generators shared by C02 / C07 / C08 / C10 / C11 / C20 / C01: abstract feeds, their serialisation in the eight
formats, and well-formed documents over the handled vocabularies (core + extension namespaces)."""
import json

from oracles import civil

WORDS = ["alpha", "beta", "gamma", "delta", "news", "feed", "entry", "über", "naïve", "日本語", "emoji😀", "tab\tsep", "a b", "x-y", "1984", "Ωmega", "çedilla", "quo'te", 'dq"uote']
SPECIAL = ["&", "<", ">", "a & b", "1 < 2", "x > y", "<b>", "&amp;", "&lt;", "]]>", "<![CDATA[", "&#38;"]


def rand_text(rng, special=True, n=(1, 5)):
    ws = [rng.choice(WORDS) for _ in range(rng.randint(*n))]
    if special and rng.random() < 0.5:
        ws.insert(rng.randrange(len(ws) + 1), rng.choice(SPECIAL))
    return " ".join(ws)


def rand_url(rng, host=None, amp=True):
    h = host or rng.choice(["example.org", "feeds.example.com", "a.example.net:8080", "xn--bcher-kva.example"])
    p = rng.choice(["", "/", "/a/b", "/p/%d" % rng.randrange(1000), "/x.html", "/~u/i"])
    q = rng.choice(["", "", "?a=1", "?a=1&b=2", "?q=x%20y&r=%26", "?id=%d" % rng.randrange(99)] if amp else ["", "", "?a=1", "?q=x%20y", "?id=%d" % rng.randrange(99)])
    return "http%s://%s%s%s" % (rng.choice(["", "s"]), h, p or "/", q)


def rand_instant(rng):
    lo, hi = civil.days_from_civil(1995, 1, 1) * 86400, civil.days_from_civil(2035, 1, 1) * 86400
    return rng.randrange(lo, hi)


def rand_offset(rng):
    return rng.choice([0, 0, 60, -300, 330, -480, 540, 765, -210])


def abstract_feed(rng, special=True, nentries=None):
    n = rng.randint(0, 4) if nentries is None else nentries
    U = lambda: rand_url(rng, amp=special)
    af = {"title": rand_text(rng, special), "link": U(), "description": rand_text(rng, special), "updated": (rand_instant(rng), rand_offset(rng)), "entries": []}
    for i in range(n):
        e = {"title": rand_text(rng, special), "link": U(), "id": rng.choice([U(), "tag:example.org,2005:%d" % i, "urn:uuid:%08x-0000" % rng.randrange(2**32)]),
             "summary": rand_text(rng, special, (2, 8)), "author_name": rng.choice(["Jane Doe", "J. R. Hacker", "Ærøskøbing", "李雷", "O'Neil"]),
             "author_email": rng.choice(["jane@example.org", "jrh@mail.example.com", "x.y+z@sub.example.net"]),
             "published": (rand_instant(rng), rand_offset(rng)), "updated": (rand_instant(rng), rand_offset(rng)),
             "categories": [rng.choice(["tech", "news", "cat egory", "naïve", "c&d", "x<y"]) for _ in range(rng.choice([0, 0, 1, 2, 3]))],
             "enclosures": [{"url": U() + ".mp3", "type": rng.choice(["audio/mpeg", "video/mp4", "application/pdf"]), "length": str(rng.randrange(1, 10**7))}
                            for _ in range(rng.choice([0, 0, 1, 2]))]}
        if not special:
            e["categories"] = [c for c in e["categories"] if "&" not in c and "<" not in c]
        # duplicate categories are collapsed by the parser (documented set semantics of tags): keep them distinct
        e["categories"] = list(dict.fromkeys(e["categories"]))
        af["entries"].append(e)
    return af


def esc(s):
    return s.replace("&", "&amp;").replace("<", "&lt;").replace(">", "&gt;")


def aesc(s):
    return esc(s).replace('"', "&quot;")


def T(s, cdata=False):
    """text content, escaped or as CDATA (when possible)"""
    if cdata and "]]>" not in s:
        return "<![CDATA[%s]]>" % s
    return esc(s)


def d822(t):
    return civil.r822(t[0], t[1])


def d3339(t):
    return civil.rw3(t[0], t[1], zone="Z" if t[1] == 0 else "colon")


FORMATS = ["rss091", "rss092", "rss20", "rss10", "atom03", "atom10", "json1", "json11"]
VERSION_OF = {"rss091": "rss091u", "rss092": "rss092", "rss20": "rss20", "rss10": "rss10", "atom03": "atom03", "atom10": "atom10", "json1": "json1", "json11": "json11"}
# which abstract fields a format can express
CAPS = {
    "rss091": {"feed_updated", "title", "link", "summary"},
    "rss092": {"feed_updated", "title", "link", "summary", "categories", "enclosures"},
    "rss20": {"feed_updated", "title", "link", "summary", "id", "author", "published", "categories", "enclosures"},
    "rss10": {"feed_updated", "title", "link", "summary", "id", "author_name", "updated", "categories"},
    "atom03": {"feed_updated", "title", "link", "summary", "id", "author", "published", "updated"},
    "atom10": {"feed_updated", "title", "link", "summary", "id", "author", "published", "updated", "categories", "enclosures"},
    "json1": {"title", "link", "summary", "id", "author_name", "published", "updated", "categories", "enclosures"},
    "json11": {"title", "link", "summary", "id", "author_name", "published", "updated", "categories", "enclosures"},
}


def _arr(children, perm, salt):
    """the children of one container in the order the style chooses (None: the canonical order)"""
    if perm is None:
        return children
    import random
    c = list(children)
    random.Random(perm * 1000003 + salt).shuffle(c)
    return c


def serialize(af, fmt, cdata=False, decl=True, typed=False, style=None):
    """the textual serialisation of an abstract feed in one format (str).
    typed=True: plain text is escaped once more where the format's element is HTML-typed (RSS description), so that the
    document really SAYS the abstract text (C02); typed=False keeps the single escape (C11 / C20 / C10 only need well-formed feeds).
    style (all optional; the default is the canonical serialisation): {"perm": int} orders the metadata children of the feed
    and of every entry by a permutation drawn from that seed (no format fixes the order of these children); {"prefix": p}
    binds the format's own namespace (Atom 0.3 / 1.0, RSS 1.0) to the prefix p instead of using it as the default namespace,
    {"dcprefix": p} / {"rdfprefix": p} rename the Dublin Core / RDF prefix of the RSS 1.0 serialisation.  An abstract entry may carry "content"
    (full text, serialised HTML-typed: content:encoded / atom content / content_html) beside its summary."""
    style = style or {}
    perm, pfx, dcp = style.get("perm"), style.get("prefix"), style.get("dcprefix") or "dc"
    rdfp = style.get("rdfprefix") or "rdf"
    q = (lambda n: "%s:%s" % (pfx, n)) if pfx else (lambda n: n)
    caps = CAPS[fmt]
    H = (lambda s, c=False: T(esc(s), c)) if typed else T
    HH = lambda s, c=False: T(esc(s), c)          # always HTML-typed (content)
    head = '<?xml version="1.0" encoding="utf-8"?>\n' if decl else ""
    anycontent = any(e.get("content") is not None for e in af["entries"])
    if fmt in ("rss091", "rss092", "rss20"):
        ver = {"rss091": "0.91", "rss092": "0.92", "rss20": "2.0"}[fmt]
        meta = ["<title>%s</title>" % T(af["title"], cdata), "<link>%s</link>" % esc(af["link"]), "<description>%s</description>" % H(af["description"], cdata),
                "<lastBuildDate>%s</lastBuildDate>" % d822(af["updated"])]
        out = [head, '<rss version="%s"%s><channel>' % (ver, ' xmlns:content="http://purl.org/rss/1.0/modules/content/"' if anycontent else "")] + _arr(meta, perm, 0)
        for i, e in enumerate(af["entries"]):
            ch = ["<title>%s</title>" % T(e["title"], cdata), "<link>%s</link>" % esc(e["link"]), "<description>%s</description>" % H(e["summary"], cdata)]
            if "id" in caps:
                ch.append('<guid isPermaLink="false">%s</guid>' % esc(e["id"]))
            if "author" in caps:
                ch.append("<author>%s (%s)</author>" % (esc(e["author_email"]), esc(e["author_name"])))
            if "published" in caps:
                ch.append("<pubDate>%s</pubDate>" % d822(e["published"]))
            if "categories" in caps:
                ch.append("".join("<category>%s</category>" % T(c, cdata) for c in e["categories"]))
            if "enclosures" in caps:
                ch.append("".join('<enclosure url="%s" type="%s" length="%s"/>' % (aesc(x["url"]), aesc(x["type"]), x["length"]) for x in e["enclosures"]))
            if e.get("content") is not None:
                ch.append("<content:encoded>%s</content:encoded>" % HH(e["content"], cdata))
            out += ["<item>"] + _arr(ch, perm, i + 1) + ["</item>"]
        out.append("</channel></rss>")
        return "".join(out)
    if fmt == "rss10":
        rssns = ('xmlns:%s="http://purl.org/rss/1.0/"' % pfx) if pfx else 'xmlns="http://purl.org/rss/1.0/"'
        out = [head, '<%s:RDF xmlns:%s="http://www.w3.org/1999/02/22-rdf-syntax-ns#" %s xmlns:%s="http://purl.org/dc/elements/1.1/"%s>' % (
            rdfp, rdfp, rssns, dcp, ' xmlns:content="http://purl.org/rss/1.0/modules/content/"' if anycontent else "")]
        meta = ["<%s>%s</%s>" % (q("title"), T(af["title"], cdata), q("title")), "<%s>%s</%s>" % (q("link"), esc(af["link"]), q("link")),
                "<%s>%s</%s>" % (q("description"), H(af["description"], cdata), q("description")), "<%s:date>%s</%s:date>" % (dcp, d3339(af["updated"]), dcp)]
        out += ['<%s %s:about="%s">' % (q("channel"), rdfp, aesc(af["link"]))] + _arr(meta, perm, 0) + ["</%s>" % q("channel")]
        for i, e in enumerate(af["entries"]):
            ch = ["<%s>%s</%s>" % (q("title"), T(e["title"], cdata), q("title")), "<%s>%s</%s>" % (q("link"), esc(e["link"]), q("link")),
                  "<%s>%s</%s>" % (q("description"), H(e["summary"], cdata), q("description")), "<%s:creator>%s</%s:creator>" % (dcp, esc(e["author_name"]), dcp),
                  "<%s:date>%s</%s:date>" % (dcp, d3339(e["updated"]), dcp), "".join("<%s:subject>%s</%s:subject>" % (dcp, T(c, cdata), dcp) for c in e["categories"])]
            if e.get("content") is not None:
                ch.append("<content:encoded>%s</content:encoded>" % HH(e["content"], cdata))
            out += ['<%s %s:about="%s">' % (q("item"), rdfp, aesc(e["id"]))] + _arr(ch, perm, i + 1) + ["</%s>" % q("item")]
        out.append("</%s:RDF>" % rdfp)
        return "".join(out)
    E = lambda n, body, attrs="": "<%s%s>%s</%s>" % (q(n), attrs, body, q(n))
    V = lambda n, attrs: "<%s%s/>" % (q(n), attrs)
    if fmt == "atom03":
        ns = ('xmlns:%s="http://purl.org/atom/ns#"' % pfx) if pfx else 'xmlns="http://purl.org/atom/ns#"'
        meta = [E("title", T(af["title"], cdata)), V("link", ' rel="alternate" type="text/html" href="%s"' % aesc(af["link"])), E("tagline", T(af["description"], cdata)),
                E("modified", d3339(af["updated"]))]
        out = [head, '<%s version="0.3" %s>' % (q("feed"), ns)] + _arr(meta, perm, 0)
        for i, e in enumerate(af["entries"]):
            ch = [E("title", T(e["title"], cdata)), V("link", ' rel="alternate" type="text/html" href="%s"' % aesc(e["link"])), E("id", esc(e["id"])), E("summary", T(e["summary"], cdata)),
                  E("author", E("name", esc(e["author_name"])) + E("email", esc(e["author_email"]))), E("issued", d3339(e["published"])), E("modified", d3339(e["updated"]))]
            if e.get("content") is not None:
                ch.append(E("content", HH(e["content"], cdata), ' type="text/html" mode="escaped"'))
            out += ["<%s>" % q("entry")] + _arr(ch, perm, i + 1) + ["</%s>" % q("entry")]
        out.append("</%s>" % q("feed"))
        return "".join(out)
    if fmt == "atom10":
        ns = ('xmlns:%s="http://www.w3.org/2005/Atom"' % pfx) if pfx else 'xmlns="http://www.w3.org/2005/Atom"'
        meta = [E("title", T(af["title"], cdata)), V("link", ' href="%s"' % aesc(af["link"])), E("subtitle", T(af["description"], cdata)), E("updated", d3339(af["updated"]))]
        out = [head, "<%s %s>" % (q("feed"), ns)] + _arr(meta, perm, 0)
        for i, e in enumerate(af["entries"]):
            ch = [E("title", T(e["title"], cdata)), V("link", ' href="%s"' % aesc(e["link"])), E("id", esc(e["id"])), E("summary", T(e["summary"], cdata)),
                  E("author", E("name", esc(e["author_name"])) + E("email", esc(e["author_email"]))), E("published", d3339(e["published"])), E("updated", d3339(e["updated"])),
                  "".join(V("category", ' term="%s"' % aesc(c)) for c in e["categories"]),
                  "".join(V("link", ' rel="enclosure" href="%s" type="%s" length="%s"' % (aesc(x["url"]), aesc(x["type"]), x["length"])) for x in e["enclosures"])]
            if e.get("content") is not None:
                ch.append(E("content", HH(e["content"], cdata), ' type="html"'))
            out += ["<%s>" % q("entry")] + _arr(ch, perm, i + 1) + ["</%s>" % q("entry")]
        out.append("</%s>" % q("feed"))
        return "".join(out)
    # JSON Feed
    v = "https://jsonfeed.org/version/1" + (".1" if fmt == "json11" else "")
    items = []
    for i, e in enumerate(af["entries"]):
        it = {"id": e["id"], "title": e["title"], "url": e["link"], "summary": e["summary"], "author": {"name": e["author_name"]},
              "date_published": d3339(e["published"]), "date_modified": d3339(e["updated"])}
        if e["categories"]:
            it["tags"] = e["categories"]
        if e["enclosures"]:
            it["attachments"] = [{"url": x["url"], "mime_type": x["type"], "size_in_bytes": int(x["length"])} for x in e["enclosures"]]
        if e.get("content") is not None:
            it["content_html"] = esc(e["content"])
        if perm is not None:
            it = dict(_arr(list(it.items()), perm, i + 1))
        items.append(it)
    top = {"version": v, "title": af["title"], "home_page_url": af["link"], "description": af["description"], "items": items}
    if perm is not None:
        top = dict(_arr(list(top.items()), perm, 0))
    return json.dumps(top, ensure_ascii=False)


# ---------------------------------------------------------------- vocabulary-wide well-formed documents (reference-free)
PLAIN = ["alpha", "beta gamma", "some plain text", "2004", "x y z", "Title Case Words", "with, punctuation. and; more!", "trailing space ", "two\nlines", "Jane Q.\nPublic",
         "tab\tseparated", "double  space", "multi\n\nparagraph text", " lead and trail \n"]
EXT_NS = {
    "dc": "http://purl.org/dc/elements/1.1/", "dcterms": "http://purl.org/dc/terms/", "itunes": "http://www.itunes.com/dtds/podcast-1.0.dtd",
    "media": "http://search.yahoo.com/mrss/", "georss": "http://www.georss.org/georss", "content": "http://purl.org/rss/1.0/modules/content/",
    "slash": "http://purl.org/rss/1.0/modules/slash/", "wfw": "http://wellformedweb.org/CommentAPI/", "foo": "http://unknown.example/ns/foo", "cc": "http://web.resource.org/cc/",
}


def vocab_doc(rng, fmt=None, nentries=None, big=False, pad_unit="padding ", pad_reps=1200, texts=None, meta_between=False):
    """a well-formed, reference-free feed over core + extension vocabulary; returns str.
    big: every entry carries a comment of pad_reps x pad_unit; texts: the pool the text values are drawn from (default: ASCII);
    meta_between: feed-level metadata elements also BETWEEN and AFTER the entries (RSS 2.0 and Atom permit any order)"""
    fmt = fmt or rng.choice(["rss20", "atom10", "rss10"])
    n = rng.randint(1, 5) if nentries is None else nentries
    t = lambda: rng.choice(texts or PLAIN)
    date8, date3 = d822((rand_instant(rng), 0)), d3339((rand_instant(rng), 0))
    nsdecl = "".join(' xmlns:%s="%s"' % kv for kv in EXT_NS.items())
    def ext_feed():
        return rng.sample(["<dc:creator>%s</dc:creator>" % t(), "<dc:rights>%s</dc:rights>" % t(), "<itunes:author>%s</itunes:author>" % t(), "<itunes:explicit>no</itunes:explicit>",
                           "<foo:bar>%s</foo:bar>" % t(), '<foo:baz a="1" b="two"/>', "<dc:language>en</dc:language>", "<itunes:subtitle>%s</itunes:subtitle>" % t(),
                           '<itunes:category text="Tech"/>', "<dcterms:modified>%s</dcterms:modified>" % date3], rng.randint(0, 4))
    def ext_entry(i):
        return rng.sample(["<dc:creator>%s</dc:creator>" % t(), "<dc:subject>%s</dc:subject>" % t(), "<dc:date>%s</dc:date>" % date3, "<itunes:duration>1:0%d</itunes:duration>" % (i % 10),
                           "<slash:comments>%d</slash:comments>" % i, "<wfw:commentRss>http://example.org/c/%d</wfw:commentRss>" % i, "<foo:bar>%s</foo:bar>" % t(),
                           '<media:content url="http://example.org/m%d.mp3" type="audio/mpeg"/>' % i, '<media:thumbnail url="http://example.org/t%d.png"/>' % i,
                           "<georss:point>45.256 -71.92</georss:point>", "<media:title>%s</media:title>" % t(), "<itunes:keywords>a, b, c</itunes:keywords>",
                           '<media:credit role="author">%s</media:credit>' % t(), "<content:encoded>%s</content:encoded>" % t()], rng.randint(0, 4))
    pad = ("<!-- %s -->" % (pad_unit * pad_reps)) if big else ""

    def between(seq, fmtname):
        if not meta_between:
            return "\n".join(seq)
        pool = {"rss20": ["<copyright>(c) %s</copyright>" % t(), "<managingEditor>editor@example.org (%s)</managingEditor>" % t().strip(), "<pubDate>%s</pubDate>" % date8, "<dc:rights>%s</dc:rights>" % t(),
                          "<description>late %s</description>" % t(), "<generator>g %s</generator>" % t(), "<language>en</language>"],
                "atom10": ["<rights>(c) %s</rights>" % t(), "<subtitle>late %s</subtitle>" % t(), "<updated>%s</updated>" % date3, "<generator>g</generator>", "<id>tag:example.org,2005:late</id>",
                           "<author><name>%s</name></author>" % t().strip()]}[fmtname]
        out = []
        for x in seq:
            out.append(x)
            out += rng.sample(pool, rng.randint(0, 2))
        return "\n".join(out)
    if fmt == "rss20":
        items = []
        for i in range(n):
            xattr = rng.random() < 0.3
            items.append("<item><title>%s %d</title><link>http://example.org/i/%d</link><description>%s</description><guid>http://example.org/g/%d</guid><pubDate>%s</pubDate><category>%s</category><author>%s</author>%s%s%s</item>" % (
                t(), i, i, t(), i, date8, t(), t(), '<enclosure url="http://example.org/a%d.mp3" type="audio/mpeg" length="1" foo:url="http://mirror.example.net/a" foo:type="x/y"/>' % i if xattr else "",
                "".join(ext_entry(i)), pad))
        return '<?xml version="1.0" encoding="utf-8"?>\n<rss version="2.0"%s>\n<channel><title>%s</title><link>http://example.org/</link><description>%s</description>%s\n%s\n</channel>\n</rss>' % (
            nsdecl, t(), t(), "".join(ext_feed()), between(items, "rss20"))
    if fmt == "rss10":
        items = []
        for i in range(n):
            items.append('<item rdf:about="http://example.org/i/%d"><title>%s %d</title><link>http://example.org/i/%d</link><description>%s</description>%s%s</item>' % (i, t(), i, i, t(), "".join(ext_entry(i)), pad))
        return '<?xml version="1.0" encoding="utf-8"?>\n<rdf:RDF xmlns:rdf="http://www.w3.org/1999/02/22-rdf-syntax-ns#" xmlns="http://purl.org/rss/1.0/"%s>\n<channel rdf:about="http://example.org/"><title>%s</title><link>http://example.org/</link><description>%s</description>%s</channel>\n%s\n</rdf:RDF>' % (
            nsdecl, t(), t(), "".join(ext_feed()), "\n".join(items))
    entries = []
    for i in range(n):
        xattr = rng.random() < 0.3
        entries.append('<entry><title>%s %d</title><link href="http://example.org/e/%d"%s/><id>tag:example.org,2005:%d</id><updated>%s</updated><summary>%s</summary><author><name>%s</name></author><category term="%s"%s/>%s%s</entry>' % (
            t(), i, i, ' foo:href="http://mirror.example.net/e/%d"' % i if xattr else "", i, date3, t(), t(), t().replace('"', "").replace("\n", " ").replace("\t", " "),
            ' foo:term="n-%d"' % i if xattr else "", "".join(ext_entry(i)), pad))
    return '<?xml version="1.0" encoding="utf-8"?>\n<feed xmlns="http://www.w3.org/2005/Atom"%s>\n<title>%s</title><link href="http://example.org/"/><id>tag:example.org,2005:feed</id><updated>%s</updated><subtitle>%s</subtitle>%s\n%s\n</feed>' % (
        nsdecl, t(), date3, t(), "".join(ext_feed()), between(entries, "atom10"))
