#!/venv/bin/python
"""Translator: /repo working tree -> lean/FeedVerif/Gen/*.lean.

Imports the *working tree's* feedparser (PYTHONPATH=/repo first) in this process -- callers
run it as a fresh subprocess -- and writes the RUNTIME values of the tables the Lean models and
table theorems use as Lean literals.  Sets are emitted sorted (and de-duplicated), so that
re-ordering a literal in the source changes nothing; dict order is kept where the code depends
on it (keymap candidate lists), sorted otherwise.

A file is rewritten only when its content changes, so an unchanged tree costs a no-op
`lake build`.

usage: translate.py [--repo /repo] [--out lean/FeedVerif/Gen] [--snapshot reference/tables.json]
       --snapshot writes the frozen reference snapshot (done once, at the pinned commit).
"""
import argparse
import json
import re
import os
import sys


def lean_str(s):
    out = ['"']
    for ch in s:
        o = ord(ch)
        if ch == '"':
            out.append('\\"')
        elif ch == "\\":
            out.append("\\\\")
        elif ch == "\n":
            out.append("\\n")
        elif ch == "\t":
            out.append("\\t")
        elif ch == "\r":
            out.append("\\r")
        elif o < 32 or o == 127:
            out.append("\\x%02x" % o)
        elif 0x80 <= o <= 0xFFFF and not ch.isprintable():
            out.append("\\u%04x" % o)
        else:
            out.append(ch)
    out.append('"')
    return "".join(out)


class Chars(str):
    """a string to be emitted as a `List Char` literal (kernel-friendly: no String.toList to evaluate in proofs)"""


def lean_char(ch):
    o = ord(ch)
    if ch == "'":
        return "'\\''"
    if ch == "\\":
        return "'\\\\'"
    if o < 32 or o == 127:
        return "'\\x%02x'" % o
    if o > 126:
        return "(Char.ofNat %d)" % o
    return "'%s'" % ch


def lean_val(v):
    if isinstance(v, Chars):
        return "[" + ", ".join(lean_char(c) for c in v) + "]"
    if isinstance(v, bool):
        return "true" if v else "false"
    if isinstance(v, int):
        return str(v) if v >= 0 else "(%d)" % v
    if isinstance(v, str):
        return lean_str(v)
    if isinstance(v, (list, tuple)) and isinstance(v, tuple):
        return "(" + ", ".join(lean_val(x) for x in v) + ")"
    if isinstance(v, list):
        return "[" + ", ".join(lean_val(x) for x in v) + "]"
    raise TypeError(type(v))


def emit_def(name, ty, val):
    body = lean_val(val)
    # wrap long lists
    if len(body) > 100 and isinstance(val, list):
        items = [lean_val(x) for x in val]
        lines, cur = [], "  "
        for it in items:
            if len(cur) + len(it) + 2 > 100:
                lines.append(cur.rstrip())
                cur = "  "
            cur += it + ", "
        lines.append(cur.rstrip().rstrip(","))
        body = "[\n" + "\n".join(lines) + "]"
    return "def %s : %s :=\n  %s\n" % (name, ty, body)


def sset(x):
    return sorted(set(x))


def collect(repo):
    sys.path.insert(0, repo)
    import feedparser
    import feedparser.api as api
    import feedparser.datetimes as dt
    import feedparser.datetimes.asctime as asctime
    import feedparser.datetimes.greek as greek
    import feedparser.datetimes.hungarian as hungarian
    import feedparser.datetimes.iso8601 as iso8601
    import feedparser.datetimes.korean as korean
    import feedparser.datetimes.rfc822 as rfc822
    import feedparser.datetimes.w3dtf as w3dtf
    import feedparser.html as fhtml
    import feedparser.mixin as mixin
    import feedparser.parsers.json as pjson
    import feedparser.sanitizer as san
    import feedparser.urls as urls
    import feedparser.util as util

    assert os.path.realpath(feedparser.__file__).startswith(os.path.realpath(repo)), feedparser.__file__
    T = {}
    # ---- util
    km = []
    for k, v in util.FeedParserDict.keymap.items():
        if isinstance(v, list):
            km.append((k, True, list(v)))
        else:
            km.append((k, False, [v]))
    T["Dict"] = [("keymapRaw", "List (String × Bool × List String)", sorted(km)),
                 # names found by normal attribute lookup, for which __getattr__ is never consulted
                 ("classAttrs", "List String", sorted(n for n in dir(util.FeedParserDict) if not n.startswith("__")))]
    # ---- urls
    T["Urls"] = [
        ("uriSchemes", "List String", sset(urls.ACCEPTABLE_URI_SCHEMES)),
        ("relativeUris", "List (String × String)", sorted(set(tuple(x) for x in urls.RelativeURIResolver.relative_uris))),
    ]
    # ---- sanitizer
    H = san.HTMLSanitizer
    _p = H("utf-8", "text/html")
    _p.feed('<svg xmlns="http://www.w3.org/2000/svg"><g/></svg>')      # runs the real lazy initialisation
    T["Sanitizer"] = [
        ("svgElementsLower", "List String", sset(_p.svg_elements)),
        ("svgAttributesLower", "List String", sset(_p.svg_attributes)),
        ("svgElemMap", "List (String × String)", sorted((_p.svg_elem_map or {}).items())),
        ("svgAttrMap", "List (String × String)", sorted((_p.svg_attr_map or {}).items())),
        ("acceptableElements", "List String", sset(H.acceptable_elements)),
        ("acceptableAttributes", "List String", sset(H.acceptable_attributes)),
        ("unacceptableElementsWithEndTag", "List String", sset(H.unacceptable_elements_with_end_tag)),
        ("cssProperties", "List String", sset(H.acceptable_css_properties)),
        ("cssKeywords", "List String", sset(H.acceptable_css_keywords)),
        ("mathmlElements", "List String", sset(H.mathml_elements)),
        ("mathmlAttributes", "List String", sset(H.mathml_attributes)),
        ("svgElements", "List String", sset(H.svg_elements)),
        ("svgAttributes", "List String", sset(H.svg_attributes)),
        ("svgProperties", "List String", sset(H.acceptable_svg_properties)),
        ("elementsNoEndTag", "List String", sset(fhtml.BaseHTMLProcessor.elements_no_end_tag)),
        ("cp1252", "List (Nat × Nat)", sorted((k, ord(v)) for k, v in fhtml._cp1252.items())),
        ("validCssValuesPattern", "String", H.valid_css_values.pattern),
        ("entityNames", "List String", sorted(set(__import__("html.entities").entities.name2codepoint) | {"apos"})),
    ]
    # ---- mixin
    M = mixin.XMLParserMixin
    strict, loose = api.StrictFeedParser, api.LooseFeedParser
    def handlers(cls, pre):
        return sset(n[len(pre):] for n in dir(cls) if n.startswith(pre) and callable(getattr(cls, n)))
    # ---- handlers recognised BY THEIR SOURCE as "simple date element": start = `self.push(K, 1)`, end = `value = self.pop(K)` followed by
    # `self._save(K_parsed, _parse_date(value), overwrite=True)` (three spellings), reached directly, through an alias, or through a one-line delegation
    import ast, inspect, textwrap

    def body_of(fn):
        t = ast.parse(textwrap.dedent(inspect.getsource(fn))).body[0]
        body = [b for b in t.body if not (isinstance(b, ast.Expr) and isinstance(b.value, ast.Constant))]
        return ast.unparse(ast.Module(body=body, type_ignores=[]))

    def start_key(name, depth=0):
        fn = getattr(M, "_start_" + name, None)
        if fn is None or depth > 3:
            return None
        b = body_of(fn)
        m = re.fullmatch(r"self\.push\('([a-z_]+)', 1\)", b)
        if m:
            return m.group(1)
        m = re.fullmatch(r"self\._start_([A-Za-z_]+)\(attrs_d\)", b)
        return start_key(m.group(1), depth + 1) if m else None

    def end_keys(name, depth=0):
        fn = getattr(M, "_end_" + name, None)
        if fn is None or depth > 3:
            return None
        b = body_of(fn)
        m = re.fullmatch(r"value = self\.pop\('([a-z_]+)'\)\n(?:parsed_value = _parse_date\(value\)\n)?self\._save\('([a-z_]+)', (?:_parse_date\(value\)|parsed_value), overwrite=True\)", b)
        if m:
            return (m.group(1), m.group(2))
        m = re.fullmatch(r"self\._save\('([a-z_]+)', _parse_date\(self\.pop\('([a-z_]+)'\)\), overwrite=True\)", b)
        if m:
            return (m.group(2), m.group(1))
        m = re.fullmatch(r"self\._end_([A-Za-z_]+)\(\)", b)
        return end_keys(m.group(1), depth + 1) if m else None
    date_handlers = []
    for n in handlers(strict, "_start_"):
        sk, ek = start_key(n), end_keys(n)
        if sk is not None and ek is not None and ek[0] == sk:
            date_handlers.append((Chars(n), Chars(sk), Chars(ek[1])))
    # ---- stage 2: handlers recognised BY THEIR SOURCE as "plain text-construct element": start = `self.push_content(K, attrs_d, T, 1)`,
    # end = `self.pop_content(K)`, reached directly, through an alias, or through a one-line delegation
    def cstart(name, depth=0):
        fn = getattr(M, "_start_" + name, None)
        if fn is None or depth > 3:
            return None
        b = body_of(fn)
        m = re.fullmatch(r"self\.push_content\('([a-z_]+)', attrs_d, '([a-z/+]+)', 1\)", b)
        if m:
            return (m.group(1), m.group(2))
        m = re.fullmatch(r"self\._start_([A-Za-z_]+)\(attrs_d\)", b)
        return cstart(m.group(1), depth + 1) if m else None

    def cend(name, depth=0):
        fn = getattr(M, "_end_" + name, None)
        if fn is None or depth > 3:
            return None
        b = body_of(fn)
        m = re.fullmatch(r"self\.pop_content\('([a-z_]+)'\)", b)
        if m:
            return m.group(1)
        m = re.fullmatch(r"self\._end_([A-Za-z_]+)\(\)", b)
        return cend(m.group(1), depth + 1) if m else None
    content_handlers = []
    for n in handlers(strict, "_start_"):
        sk, ek = cstart(n), cend(n)
        if sk is not None and ek is not None and ek == sk[0]:
            content_handlers.append((Chars(n), Chars(sk[0]), Chars(sk[1])))
    # the title handlers are modelled by hand (Model/Mixin.lean: `isTitle` branches); the names that reach them are listed only while
    # the source of `_start_title` / `_end_title` still has the modelled shape
    TITLE_START = ("if self.svgOK:\n    return self.unknown_starttag('title', list(attrs_d.items()))\n"
                   "self.push_content('title', attrs_d, 'text/plain', self.infeed or self.inentry or self.insource)")
    TITLE_END = "if self.svgOK:\n    return\nvalue = self.pop_content('title')\nif not value:\n    return\nself.title_depth = self.depth"

    def reaches(name, pre, target, depth=0):
        if name == target:
            return True
        fn = getattr(M, pre + name, None)
        if fn is None or depth > 3:
            return False
        if fn is getattr(M, pre + target, None):          # an alias (`_end_abstract = _end_description`)
            return True
        m = re.fullmatch(r"self\.%s([A-Za-z_]+)\((?:attrs_d)?\)" % pre, body_of(fn))
        return reaches(m.group(1), pre, target, depth + 1) if m else False
    title_handlers = []
    if hasattr(M, "_start_title") and hasattr(M, "_end_title") and body_of(M._start_title) == TITLE_START and body_of(M._end_title) == TITLE_END:
        title_handlers = [Chars(n) for n in handlers(strict, "_start_") if reaches(n, "_start_", "title") and reaches(n, "_end_", "title")]
    # ---- stage 3: the summary / description / content handlers are modelled by hand (Model/Mixin.lean: startExt / endExt); per kind the names that
    # reach them are listed only while the source of the handlers of that kind (and of the helpers they share) still has the modelled shape
    FP = {
        "_start_description": "context = self._get_context()\nif 'summary' in context and (not self.hasContent):\n    self._summaryKey = 'content'\n    self._start_content(attrs_d)\nelse:\n    self.push_content('description', attrs_d, 'text/html', self.infeed or self.inentry or self.insource)",
        "_end_description": "if self._summaryKey == 'content':\n    self._end_content()\nelse:\n    self.pop_content('description')\nself._summaryKey = None",
        "_start_abstract": "self.push_content('description', attrs_d, 'text/plain', self.infeed or self.inentry or self.insource)",
        "_start_summary": "context = self._get_context()\nif 'summary' in context and (not self.hasContent):\n    self._summaryKey = 'content'\n    self._start_content(attrs_d)\nelse:\n    self._summaryKey = 'summary'\n    self.push_content(self._summaryKey, attrs_d, 'text/plain', 1)",
        "_end_summary": "if self._summaryKey == 'content':\n    self._end_content()\nelse:\n    self.pop_content(self._summaryKey or 'summary')\nself._summaryKey = None",
        "_start_content": "self.hasContent = 1\nself.push_content('content', attrs_d, 'text/plain', 1)\nsrc = attrs_d.get('src')\nif src:\n    self.contentparams['src'] = src\nself.push('content', 1)",
        "_end_content": "copyToSummary = self.map_content_type(self.contentparams.get('type')) in {'text/plain'} | self.html_types\nvalue = self.pop_content('content')\nif copyToSummary:\n    self._save('summary', value)",
        "_start_content_encoded": "self.hasContent = 1\nself.push_content('content', attrs_d, 'text/html', 1)",
        "_end_item": "self.pop('item')\nself.inentry = 0\nself.hasContent = 0",
        "push_content": "self.incontent += 1\nif self.lang:\n    self.lang = self.lang.replace('_', '-')\nself.contentparams = FeedParserDict({'type': self.map_content_type(attrs_d.get('type', default_content_type)), 'language': self.lang, 'base': self.baseuri})\nself.contentparams['base64'] = self._is_base64(attrs_d, self.contentparams)\nself.push(tag, expecting_text)",
        "pop_content": "value = self.pop(tag)\nself.incontent -= 1\nself.contentparams.clear()\nreturn value",
    }

    def fp_ok(*names):
        return all(hasattr(M, n) and body_of(getattr(M, n)) == FP[n] for n in names)
    shared = fp_ok("push_content", "pop_content", "_start_content", "_end_content", "_end_item")
    KINDS = {  # kind -> (start target, end target, handlers whose source must match)
        "description": ("description", "description", ("_start_description", "_end_description")),
        "abstract": ("abstract", "description", ("_start_abstract", "_end_description")),
        "summary": ("summary", "summary", ("_start_summary", "_end_summary")),
        "content": ("content", "content", ()),
        "content_encoded": ("content_encoded", "content", ("_start_content_encoded",)),
    }
    hand_modelled = []
    for n in handlers(strict, "_start_"):
        for kind, (st, en, need) in KINDS.items():
            if shared and fp_ok(*need) and reaches(n, "_start_", st) and reaches(n, "_end_", en):
                hand_modelled.append((Chars(n), Chars(kind)))
                break
    # ---- stage 4: the link and guid / id handlers are modelled by hand (Model/Mixin.lean: startLG / endLG, popLink); the names that reach them
    # are listed only while the source of the handlers and of the helpers they use still has the modelled shape
    FP4 = {
        "_start_link": "attrs_d.setdefault('rel', 'alternate')\nif attrs_d['rel'] == 'self':\n    attrs_d.setdefault('type', 'application/atom+xml')\nelse:\n    attrs_d.setdefault('type', 'text/html')\ncontext = self._get_context()\nattrs_d = self._enforce_href(attrs_d)\nif 'href' in attrs_d:\n    attrs_d['href'] = self.resolve_uri(attrs_d['href'])\nif attrs_d.get('rel') == 'alternate' and self.map_content_type(attrs_d.get('type')) in self.html_types:\n    self.isentrylink = 1\nexpecting_text = self.infeed or self.inentry or self.insource\ncontext.setdefault('links', [])\nif not (self.inentry and self.inimage):\n    context['links'].append(FeedParserDict(attrs_d))\nif 'href' in attrs_d:\n    if self.isentrylink:\n        context['link'] = attrs_d['href']\nelse:\n    self.push('link', expecting_text)",
        "_end_link": "self.pop('link')\nself.isentrylink = 0",
        "_start_guid": "self.guidislink = attrs_d.get('ispermalink', 'true') == 'true'\nself.push('id', 1)",
        "_end_guid": "value = self.pop('id')\nself._save('guidislink', self.guidislink and 'link' not in self._get_context())\nif self.guidislink:\n    self._save('link', value)",
        "_enforce_href": "href = attrs_d.get('url', attrs_d.get('uri', attrs_d.get('href', None)))\nif href:\n    try:\n        del attrs_d['url']\n    except KeyError:\n        pass\n    try:\n        del attrs_d['uri']\n    except KeyError:\n        pass\n    attrs_d['href'] = href\nreturn attrs_d",
        "resolve_uri": "return _urljoin(self.baseuri or '', uri)",
        "_last_item": "items = context.get(key)\nif isinstance(items, list) and items and isinstance(items[-1], dict):\n    return items[-1]\nreturn None",
        "_save": 'context = self._get_context()\nif overwrite:\n    context[key] = value\nelse:\n    context.setdefault(key, value)',
        "_start_item": "self.entries.append(FeedParserDict())\nself.push('item', 0)\nself.inentry = 1\nself.guidislink = 0\nself.title_depth = -1\nid = self._get_attribute(attrs_d, 'rdf:about')\nif id:\n    context = self._get_context()\n    context['id'] = id\nself._cdf_common(attrs_d)",
    }

    def fp4_ok(*names):
        return all(hasattr(M, n) and body_of(getattr(M, n)) == FP4[n] for n in names)
    FP4.update({
        "_start_category": "term = attrs_d.get('term')\nscheme = attrs_d.get('scheme', attrs_d.get('domain'))\nlabel = attrs_d.get('label')\nself._add_tag(term, scheme, label)\nself.push('category', 1)",
        "_end_category": "value = self.pop('category')\nif not value:\n    return\ncontext = self._get_context()\ntags = context.setdefault('tags', [])\nif value and len(tags) and (not tags[-1]['term']):\n    tags[-1]['term'] = value\nelse:\n    self._add_tag(value, None, None)",
        "_add_tag": "context = self._get_context()\ntags = context.setdefault('tags', [])\nif not term and (not scheme) and (not label):\n    return\nvalue = FeedParserDict(term=term, scheme=scheme, label=label)\nif value not in tags:\n    tags.append(value)",
        "_start_enclosure": "attrs_d = self._enforce_href(attrs_d)\ncontext = self._get_context()\nattrs_d['rel'] = 'enclosure'\ncontext.setdefault('links', []).append(FeedParserDict(attrs_d))",
    })
    KINDS4 = {
        # stage 5: categories (start / end handlers reached directly, by alias or one-line delegation) and enclosures (NO end handler: unknown_endtag falls back to pop)
        "category": ("category", "category", ("_start_category", "_end_category", "_add_tag")),
        "enclosure": ("enclosure", None, ("_start_enclosure", "_enforce_href")),
        "link": ("link", "link", ("_start_link", "_end_link", "_enforce_href", "resolve_uri", "_last_item")),
        "guid": ("guid", "guid", ("_start_guid", "_end_guid", "_save", "_start_item")),
    }
    # stage 7: authors and contributors (hash fingerprints of the AST-normalised bodies)
    FP7 = {"_start_author": "d7971c9b450178da457cde13d83ca9e1", "_end_author": "cf91a5df6e563d95d78b44a529849a8f", "_start_contributor": "352f1e6f4cf07ac45cd686b4ceef220b",
           "_end_contributor": "959e2228a12a49bbb675bcc5eb0b6244", "_start_name": "b2121e396293a7175607c85d83e2ff69", "_end_name": "2a5ab63a733b70a22688a473603a6936",
           "_start_email": "d7a6367f568ba72cffb4a47a48d26f77", "_end_email": "74a24fcbcb189fc2a091aa1c6c464a5b", "_start_url": "05f404940045c82ada4d491cfba60b0c",
           "_end_url": "1308fac3c9bb49df0afd8d7fa9ef6b3b", "_save_author": "1370561474080c8303a3603ce271895c", "_save_contributor": "7da203277387369bb6af97a2c3f27050",
           "_sync_author_detail": "4b63f4fcec55b42eff2288be22324798", "_last_item": "6307f66a70d64b98f4cf10be747cf9dd"}
    import hashlib as _hl7
    stage7_ok = all(hasattr(M, n) and _hl7.sha256(body_of(getattr(M, n)).encode()).hexdigest()[:32] == h for n, h in FP7.items())
    if stage7_ok:
        if hasattr(M, "_start_webmaster") and hasattr(M, "_end_webmaster") and body_of(M._start_webmaster) == "self.push('publisher', 1)" and \
                body_of(M._end_webmaster) == "self.pop('publisher')\nself._sync_author_detail('publisher')":
            KINDS4.update({"publisher": ("webmaster", "webmaster", ())})
        if hasattr(M, "_start_itunes_owner") and hasattr(M, "_end_itunes_owner") and body_of(M._start_itunes_owner) == "self.inpublisher = 1\nself.push('publisher', 0)" and \
                body_of(M._end_itunes_owner) == "self.pop('publisher')\nself.inpublisher = 0\nself._sync_author_detail('publisher')":
            KINDS4.update({"owner": ("itunes_owner", "itunes_owner", ())})
        KINDS4.update({"author": ("author", "author", ()), "contributor": ("contributor", "contributor", ()), "name": ("name", "name", ()),
                       "email": ("email", "email", ()), "url": ("url", "url", ())})
    # cloud (no end handler) and generator
    if hasattr(M, "_start_cloud") and body_of(M._start_cloud) == "self._get_context()['cloud'] = FeedParserDict(attrs_d)":
        KINDS4.update({"cloud": ("cloud", None, ())})
    if hasattr(M, "_start_generator") and hasattr(M, "_end_generator") and fp4_ok("_enforce_href", "resolve_uri") and \
            body_of(M._start_generator) == "if attrs_d:\n    attrs_d = self._enforce_href(attrs_d)\n    if 'href' in attrs_d:\n        attrs_d['href'] = self.resolve_uri(attrs_d['href'])\nself._get_context()['generator_detail'] = FeedParserDict(attrs_d)\nself.push('generator', 1)" and \
            body_of(M._end_generator) == "value = self.pop('generator')\ncontext = self._get_context()\nif isinstance(context.get('generator_detail'), dict):\n    context['generator_detail']['name'] = value":
        KINDS4.update({"generator": ("generator", "generator", ())})
    stage4 = []
    for n in handlers(strict, "_start_"):
        for kind, (st, en, need) in KINDS4.items():
            ends_ok = reaches(n, "_end_", en) if en is not None else (n == st and not hasattr(M, "_end_" + n))
            if fp4_ok(*need) and reaches(n, "_start_", st) and ends_ok:
                stage4.append((Chars(n), Chars(kind)))
                break
    import html.entities as _he
    import hashlib as _hl
    # ---- stage 6: the reference callbacks of the loose back end and its decode_entities are modelled by hand (crefText, erefText, looseDecode): source fingerprints
    FP6 = {"handle_charref": "6aff45054ac539d38c506a96975c3cae", "handle_entityref": "140f5cbfc08259ff00177d41636209c2", "handle_data": "ced837949e4dca376d57cceb219cc20b"}
    def _h(fn):
        return _hl.sha256(body_of(fn).encode()).hexdigest()[:32]
    stage6_changed = [n for n, h in FP6.items() if not hasattr(M, n) or _h(getattr(M, n)) != h]
    if not hasattr(loose, "decode_entities") or _h(loose.decode_entities) != "1fb35454f2304cab8d526cc7b22a0318":
        stage6_changed.append("LooseFeedParser.decode_entities")
    if not hasattr(strict, "decode_entities") or _h(strict.decode_entities) != "b62e446b968274ada6f6d8dbfed8a82d":
        stage6_changed.append("StrictFeedParser.decode_entities")
    T["Mixin"] = [
        ("stage6ChangedL", "List String", sorted(stage6_changed)),
        ("name2codepointL", "List (List Char × Nat)", [(Chars(k), v) for k, v in sorted(_he.name2codepoint.items())]),
        ("stage4L", "List (List Char × List Char)", stage4),
        ("handModelledL", "List (List Char × List Char)", hand_modelled),
        ("dateElementsL", "List (List Char × List Char × List Char)", date_handlers),
        ("contentElementsL", "List (List Char × List Char × List Char)", content_handlers),
        ("titleHandlersL", "List (List Char)", title_handlers),
        ("canContainRelativeUrisL", "List (List Char)", [Chars(x) for x in sset(M.can_contain_relative_uris)]),
        ("canContainDangerousMarkupL", "List (List Char)", [Chars(x) for x in sset(M.can_contain_dangerous_markup)]),
        ("htmlTypesL", "List (List Char)", [Chars(x) for x in sset(M.html_types)]),
        ("namespaces", "List (String × String)", sorted(M.namespaces.items())),
        ("matchNamespaces", "List (String × String)", sorted(M._matchnamespaces.items())),
        ("canBeRelativeUri", "List String", sset(M.can_be_relative_uri)),
        ("canContainRelativeUris", "List String", sset(M.can_contain_relative_uris)),
        ("canContainDangerousMarkup", "List String", sset(M.can_contain_dangerous_markup)),
        ("htmlTypes", "List String", sset(M.html_types)),
        ("matchNamespacesL", "List (List Char × List Char)", [(Chars(k), Chars(v)) for k, v in sorted(M._matchnamespaces.items())]),
        ("startHandlersL", "List (List Char)", [Chars(x) for x in handlers(strict, "_start_")]),
        ("endHandlersL", "List (List Char)", [Chars(x) for x in handlers(strict, "_end_")]),
        ("canBeRelativeUriL", "List (List Char)", [Chars(x) for x in sset(M.can_be_relative_uri)]),
        ("startHandlers", "List String", handlers(strict, "_start_")),
        ("endHandlers", "List String", handlers(strict, "_end_")),
        ("startHandlersLoose", "List String", handlers(loose, "_start_")),
        ("endHandlersLoose", "List String", handlers(loose, "_end_")),
        ("supportedVersions", "List (String × String)", sorted(api.SUPPORTED_VERSIONS.items())),
        ("jsonVersions", "List (String × String)", sorted(pjson.JSONParser.VERSIONS.items())),
        ("jsonFeedFields", "List (String × String)", [tuple(x) for x in pjson.JSONParser.FEED_FIELDS]),
        ("jsonItemFields", "List (String × String)", [tuple(x) for x in pjson.JSONParser.ITEM_FIELDS]),
    ]
    # ---- dates
    T["Dates"] = [
        ("rfc822Zones", "List (String × Int)", sorted(rfc822.timezone_names.items())),
        ("rfc822Months", "List (String × Nat)", sorted(rfc822.months.items())),
        ("rfc822DayNames", "List String", sset(rfc822.day_names)),
        ("w3dtfZones", "List (String × Int)", sorted(w3dtf.timezonenames.items())),
        ("asctimeMonths", "List String", list(asctime._months)),
        ("greekMonths", "List (String × String)", sorted(greek._greek_months.items())),
        ("greekWdays", "List (String × String)", sorted(greek._greek_wdays.items())),
        ("hungarianMonths", "List (String × String)", sorted(hungarian._hungarian_months.items())),
        ("iso8601Templates", "List String", list(iso8601._iso8601_tmpl)),
        ("dateHandlerNames", "List String", [h.__name__ for h in dt._date_handlers]),
    ]
    return T


HEADER = "-- GENERATED by tools/translate.py from /repo's working tree. Do not edit.\n"


def render(T, ns):
    files = {}
    for mod, defs in T.items():
        src = HEADER + "namespace %s.%s\n\n" % (ns, mod)
        for name, ty, val in defs:
            src += emit_def(name, ty, val) + "\n"
        src += "end %s.%s\n" % (ns, mod)
        files[mod] = src
    return files


def to_jsonable(T):
    return {mod: [[n, ty, v] for n, ty, v in defs] for mod, defs in T.items()}


def from_jsonable(J):
    def fix(ty, v):
        # tuples were flattened to lists by JSON; restore from the Lean type
        if "×" in ty and isinstance(v, list):
            return [tuple(fix_inner(x) for x in item) for item in v]
        return v
    def fix_inner(x):
        return x
    return {mod: [(n, ty, fix(ty, v)) for n, ty, v in defs] for mod, defs in J.items()}


def write_if_changed(path, content):
    try:
        if open(path, encoding="utf-8").read() == content:
            return False
    except FileNotFoundError:
        pass
    os.makedirs(os.path.dirname(path), exist_ok=True)
    tmp = path + ".tmp%d" % os.getpid()
    with open(tmp, "w", encoding="utf-8") as f:
        f.write(content)
    os.replace(tmp, path)
    return True


def main():
    here = os.path.dirname(os.path.dirname(os.path.abspath(__file__)))
    ap = argparse.ArgumentParser()
    ap.add_argument("--repo", default=os.environ.get("VERIF_REPO", "/repo"))
    ap.add_argument("--out", default=os.path.join(here, "lean", "FeedVerif", "Gen"))
    ap.add_argument("--snapshot")
    ap.add_argument("--reference", default=os.path.join(here, "reference", "tables.json"))
    a = ap.parse_args()
    T = collect(a.repo)
    if a.snapshot:
        os.makedirs(os.path.dirname(a.snapshot), exist_ok=True)
        with open(a.snapshot, "w", encoding="utf-8") as f:
            json.dump(to_jsonable(T), f, indent=1, ensure_ascii=False, sort_keys=True)
        print("snapshot written", a.snapshot)
        return
    changed = []
    for mod, src in render(T, "Gen").items():
        if write_if_changed(os.path.join(a.out, mod + ".lean"), src):
            changed.append("Gen." + mod)
    # frozen reference (committed under /verif/reference, never regenerated by a check)
    if os.path.exists(a.reference):
        R = from_jsonable(json.load(open(a.reference, encoding="utf-8")))
        for mod, src in render(R, "Ref").items():
            if write_if_changed(os.path.join(a.out, "Ref" + mod + ".lean"), src):
                changed.append("Ref." + mod)
    # dump the runtime tables as JSON too (used by harnesses to report table diffs)
    print(json.dumps({"changed": changed, "tables": to_jsonable(T)}, ensure_ascii=False))


if __name__ == "__main__":
    main()
