#!/bin/sh
# usage: tools/trymut.sh <patch.diff> <Cxx> [tier]   -- apply a seeded change to /repo, run the check, undo it
set -u
P="$1"; C="$2"; T="${3:-quick}"
cd /repo || exit 2
git diff --quiet || { echo "/repo not clean"; exit 2; }
git apply "$P" || { echo "patch does not apply"; exit 2; }
cd /verif && ./check "$C" "$T" 2>&1 | grep -v "^KNOWN-FINDING" | tail -${TAILN:-6}
rc=$?
cd /repo && git checkout -- . 
