#!/bin/sh
# usage: tools/trymut.sh <patch.diff> <Cxx> [tier]   -- apply a seeded change to /repo, run the check, undo it
# (the evidence file of the clean tree is preserved: evidence written under a seeded change is not kept)
set -u
P="$1"; C="$2"; T="${3:-quick}"
cd /repo || exit 2
git diff --quiet || { echo "/repo not clean"; exit 2; }
git apply "$P" || { echo "patch does not apply"; exit 2; }
cp /verif/evidence/$C.json /tmp/evidence_$C.bak 2>/dev/null
cd /verif && ./check "$C" "$T" 2>&1 | grep -v "^KNOWN-FINDING" | tail -${TAILN:-6}
cp /tmp/evidence_$C.bak /verif/evidence/$C.json 2>/dev/null
cd /repo && git checkout -- . 
