"""Shared by C19 / C20 / C01 / C10 / C11: protocol lines for the M-mixin (stage 1) driver from a recorded event
stream of the real handler machine, canonical dump of a real parse result, and document generators restricted to
the modelled vocabulary (structural elements + elements without a dedicated handler)."""
import vlib
from vlib import enc
import trace as tr


def canon_value(v):
    if isinstance(v, str):
        return "s:" + enc(v)
    if v is None:
        return "t:-"
    if isinstance(v, bool) or (type(v) is int and v in (0, 1)):
        # stage 4: guidislink (a bool; `0` when no start handler ran -- equal to False for every Python comparison)
        return "b:%d" % int(v)
    if hasattr(v, "tm_year"):
        return "t:" + ",".join(str(x) for x in tuple(v))
    if isinstance(v, list) and all(isinstance(x, dict) and all(isinstance(y, str) or y is None for y in dict.values(x)) for x in v):
        # stage 3: the content list of an entry
        return "l:[" + "|".join("(" + ",".join(sorted("%s=%s" % (enc(k), "~" if dict.__getitem__(x, k) is None else enc(dict.__getitem__(x, k))) for k in dict.keys(x))) + ")" for x in v) + "]"
    if isinstance(v, dict) and all(isinstance(x, str) or x is None for x in dict.values(v)):
        # attribute dicts and *_detail dicts (whose language may be None: "~")
        return "d:(" + ",".join(sorted("%s=%s" % (enc(k), "~" if dict.__getitem__(v, k) is None else enc(dict.__getitem__(v, k))) for k in dict.keys(v))) + ")"
    return "?" + type(v).__name__


def canon_dict(d):
    return "{" + ";".join(sorted("%s=%s" % (enc(k), canon_value(dict.__getitem__(d, k))) for k in dict.keys(d))) + "}"


def canon_result(r):
    return "feed=%s entries=[%s] version=%s ns={%s}" % (
        canon_dict(r.feed), "|".join(canon_dict(e) for e in r.entries), enc(r.get("version") or ""),
        ";".join(sorted("%s=%s" % (enc(k), enc(v)) for k, v in r.get("namespaces", {}).items())))


def state_str(st):
    return "%d %d %d %d %s %s %d" % (st["depth"], st["nelem"], st["inentry"], st["nentries"], enc(st["baseuri"]), enc(st["lang"]), 1 if st["incontent"] else 0)


def lines_for(log, loose, result):
    """protocol lines + expected outputs for ONE parser run (the last run in the log: after a strict failure the loose
    parser starts afresh)"""
    import feedparser.urls as U
    # the last run = the records of the last parser object (after a strict failure the loose parser starts afresh)
    pids = [rec["pid"] for rec in log if "pid" in rec]
    if not pids:
        return [], []
    last = pids[-1]
    b = next(i for i, rec in enumerate(log) if rec.get("pid") == last)
    run = log[b:]
    begin = next((i for i in range(b, len(log)) if log[i]["k"] == "start"), None)
    if begin is None:
        return [], []
    first = log[begin] if log and begin < len(log) else None
    if first is None or first["k"] != "start":
        return [], []
    pre = first["pre"]
    lines = ["mix reset %d %s %s %d %d" % (loose, enc(pre["baseuri"]), enc(pre["lang"]), pre.get("resolve", True), pre.get("sanitize", True))]
    exp = ["0 0 0 0 %s %s 0" % (enc(pre["baseuri"]), enc(pre["lang"]))]
    i = 0
    while i < len(run):
        rec = run[i]
        k = rec["k"]
        if k == "ns":
            if not rec.get("in_start"):
                lines.append("mix ns %s %s" % (enc(rec["prefix"]), enc(rec["uri"])))
                exp.append(None)
        elif k == "start":
            if "post" not in rec:
                break
            cur = rec["pre"]["baseuri"]
            norm = rec["norm"]
            xb = norm.get("xml:base", norm.get("base"))
            bb = (xb or "") or cur
            try:
                s2 = U.make_safe_absolute_uri(cur, bb)
                s1 = U.make_safe_absolute_uri(U._urljoin(cur, bb))
            except Exception:
                break
            # stage 4: what resolve_uri answered inside this start handler (`_start_link`): an oracle line before the start line
            sj, j = [], i + 1
            while j < len(run) and (run[j]["k"] == "join" or (run[j]["k"] == "ns" and run[j].get("in_start"))):
                if run[j]["k"] == "join":
                    sj.append("J:%s|%s" % (enc(run[j]["uri"]), enc(run[j]["result"])))
                j += 1
            if sj:
                lines.append("mix oracle " + " ".join(sj))
                exp.append(None)
            lines.append("mix start %s %s %s %s" % (enc(rec["tag"]), enc(s2), enc(s1), " ".join("%s|%s" % (enc(a), enc(b_)) for a, b_ in rec["attrs"])))
            exp.append(state_str(rec["post"]))
        elif k == "end":
            if "post" not in rec:
                break
            # joins performed while this end tag was processed
            joins, j = [], i + 1
            while j < len(run) and run[j]["k"] in ("join", "date", "looks", "decode", "resolve", "sanitize", "b64", "email"):
                kk = run[j]["k"]
                if kk == "join":
                    joins.append("J:%s|%s" % (enc(run[j]["uri"]), enc(run[j]["result"])))
                elif kk == "looks":
                    joins.append("L:%d" % run[j]["result"])
                elif kk in ("decode", "resolve", "sanitize"):
                    joins.append("%s:%s" % ({"decode": "E", "resolve": "R", "sanitize": "Z"}[kk], enc(run[j]["result"])))
                elif kk == "b64":
                    joins.append("B:" + ("-" if run[j]["result"] is None else enc(run[j]["result"])))
                elif kk == "email":
                    joins.append("M:" + ("-" if run[j]["result"] is None else enc(run[j]["result"])))
                else:
                    # what the real _parse_date answered for this element's text (M-date's subject; a parameter here)
                    joins.append("D:" + (",".join(str(x) for x in run[j]["result"]) if run[j]["result"] else "-"))
                j += 1
            lines.append(("mix stop %s %s" % (enc(rec["tag"]), " ".join(joins))).rstrip())
            exp.append(state_str(rec["post"]))
        elif k == "data":
            lines.append("mix data %s" % enc(rec["text"]))
            exp.append(None)
        elif k == "charref":
            # stage 6: references as the loose back end delivers them
            lines.append("mix cref %s" % enc(rec["ref"]))
            exp.append(None)
        elif k == "entityref":
            lines.append("mix eref %s %d %s" % (enc(rec["ref"]), 1 if rec.get("found") else 0, enc(rec.get("text") or "")))
            exp.append(None)
        i += 1
    lines.append("mix dump")
    if not isinstance(result, Exception) and loose and not (result.get("feed") or result.get("entries") or result.get("version")):
        exp.append(None)      # a loose pass without any information hands over to the JSON parser (api.py): the returned data is not this run's
    else:
        exp.append(canon_result(result) if not isinstance(result, Exception) else "raises " + type(result).__name__)
    return lines, exp


def compare(got, exp):
    """first disagreement (index, model, impl) or None; `unmodelled` answers stop the comparison"""
    for i, (g, e) in enumerate(zip(got, exp)):
        if g.startswith("unmodelled") or g == "bad-op":
            return ("unmodelled", i, g)
        if e is None:
            continue
        if g != e:
            return ("differ", i, g, e)
    return None


TEXTS2 = ["plain title", " padded  text \n", "Tom & Jerry", "1 < 2", "a <b>bold</b> move", "see <a href=\"rel/x\">this</a> & that", "<script>alert(1)</script>visible", "x > y", "", "   ",
          "UPPER lower", "<p style=\"color: red\" onclick=\"x()\">styled</p>", "a &amp; b", "5 &lt; 6", "caf&eacute; &copy;", "SGVsbG8gd29ybGQ=", "not base64 !!", "<i>unclosed", "line1\nline2"]


def content_doc(rng):
    """a feed over the stage-2 vocabulary: title (hand-modelled) and the text-construct elements the translator recognises from their
    source (subtitle, tagline, rights, copyright, info, dc:rights, itunes:subtitle, dc:title, feedburner:browserFriendly), in feed and
    entry context, with and without a type / mode attribute, with text that does or does not look like HTML.  Returns (bytes, parse kwargs)."""
    esc = lambda t: t.replace("&", "&amp;").replace("<", "&lt;").replace(">", "&gt;")
    def lg(atom):
        """stage 4: a link (with href / url / uri, rel, type; or with text) or a guid / id (with and without isPermaLink)"""
        r = rng.random()
        ref = rng.choice(["http://example.org/a", "rel/b?x=1&amp;y=2", "../c", "", "mailto:x@y.example", "d e", "?q=&amp;amp;z", "f&amp;copy;g"])
        if r < 0.45:
            attrs = ""
            for an in rng.sample(["href", "url", "uri"], rng.choice([1, 1, 1, 2, 0])):
                attrs += ' %s="%s"' % (an, ref if an == "href" else rng.choice([ref, "other/u"]))
            if rng.random() < 0.5:
                attrs += ' rel="%s"' % rng.choice(["alternate", "self", "enclosure", "ALTERNATE", "via", ""])
            if rng.random() < 0.5:
                attrs += ' type="%s"' % rng.choice(["text/html", "application/atom+xml", "html", "TEXT/HTML", "image/png", "application/xhtml+xml", ""])
            if rng.random() < 0.15:
                attrs += ' xml:base="http://other.example/sub/"'
            if rng.random() < 0.15:
                attrs += ' title="t" hreflang="en" length="12"'
            return "<link%s/>" % attrs if rng.random() < 0.8 else "<link%s>%s</link>" % (attrs, rng.choice(["", "text", ref]))
        if r < 0.7:
            return "<link%s>%s</link>" % (rng.choice(["", "", ' rel="self"', ' type="text/plain"']), rng.choice([ref, " " + ref + " ", "http://example.org/?a=1&amp;amp;b=2&amp;c;=3", "x&amp;copy;y", ""]))
        name = "id" if atom else rng.choice(["guid", "guid", "id"])
        pl = rng.choice(["", "", ' isPermaLink="true"', ' isPermaLink="false"', ' isPermaLink="TRUE"', ' ispermalink="false"'])
        return "<%s%s>%s</%s>" % (name, pl, rng.choice([ref, " urn:uuid:1234 ", "tag:example.org,2004:1", ""]), name)

    def ce(atom):
        """stage 5: categories (text and / or term, scheme | domain, label attributes; duplicates; empty), dc:subject, keywords, enclosures"""
        r = rng.random()
        if r < 0.25:
            attrs = "".join(' %s="%s"' % (an, rng.choice(["u.mp3", "http://example.org/e.ogg", "rel/x", "", "12", "audio/mpeg"])) for an in rng.sample(["url", "href", "uri", "length", "type", "rel"], rng.randint(1, 4)))
            return "<enclosure%s/>" % attrs if rng.random() < 0.8 else "<enclosure%s>text</enclosure>" % attrs
        name = rng.choice(["category", "category", "dc:subject", "keywords"])
        attrs = ""
        for an in rng.sample(["term", "scheme", "domain", "label"], rng.choice([0, 0, 1, 2, 3])):
            attrs += ' %s="%s"' % (an, rng.choice(["News", "", "http://example.org/cats", "Tech &amp; Co", "d"]))
        return "<%s%s>%s</%s>" % (name, attrs, rng.choice(["News", "News", " Tech ", "", "  ", "a, b", "Tom &amp; Jerry", "x<!-- c -->y"]), name)

    def au(atom):
        """stage 7: authors and contributors -- RSS-style text (with and without an e-mail address, in every bracket arrangement), Atom-style children
        (name / email / uri in any order, some missing), several per context, managingEditor / dc:creator, stray name / email outside an author"""
        texts = ["Jane Doe", "jane@example.org (Jane Doe)", "Jane Doe <jane@example.org>", "jane@example.org", "(Jane) jane@example.org", "", "  ", "Doe, J. &lt;j@x.example&gt;",
                 "no address here", "a@b.example?subject=hello Jane", "Jane (jane at example.org)"]
        r = rng.random()
        if r < 0.4:
            return (lambda n, t: "<%s>%s</%s>" % (n, t, n))(rng.choice(["author", "author", "dc:creator", "managingEditor"] if not atom else ["dc:creator", "author"]), rng.choice(texts))
        if r < 0.5:
            return (lambda n, t: "<%s>%s</%s>" % (n, t, n))(rng.choice(["webMaster", "dc:publisher"]), rng.choice(texts))
        outer = rng.choice(["author", "author", "contributor", "itunes:owner"])
        kids = []
        for k in rng.sample(["name", "email", "uri", "url", "homepage"], rng.randint(0, 3)):
            if outer == "itunes:owner" and rng.random() < 0.6:
                k = "itunes:" + k if k in ("name", "email") else k
            kids.append("<%s>%s</%s>" % (k, rng.choice(["Jane", "jane@example.org", "http://example.org/jane", "rel/jane", "", " J "]), k))
        return "<%s>%s%s</%s>" % (outer, rng.choice(["", "", "text "]), "".join(kids), outer)

    def gc(atom):
        """cloud and generator"""
        if rng.random() < 0.4:
            return '<cloud domain="rpc.example" port="80" path="/RPC2" registerProcedure="p" protocol="xml-rpc"%s/>' % rng.choice(["", ' url="u"', ">text</cloud><x"]).replace('><x/>', '>') if False else \
                rng.choice(['<cloud domain="rpc.example" port="80" path="/RPC2"/>', '<cloud/>', '<cloud domain="d">text</cloud>'])
        attrs = "".join(' %s="%s"' % (an, rng.choice(["http://example.org/gen", "rel/gen", "", "1.0"])) for an in rng.sample(["uri", "url", "href", "version"], rng.randint(0, 3)))
        return "<generator%s>%s</generator>" % (attrs, rng.choice(["Example Generator", "", " G 1.0 ", "Tom &amp; Jerry"]))

    def el(name, atom):
        if name == "@gc":
            return gc(atom)
        if name == "@au":
            return au(atom) if rng.random() < 0.85 else rng.choice(["<name>stray</name>", "<email>s@x.example</email>", "<uri>stray/u</uri>"])
        if name == "@lg":
            return lg(atom)
        if name == "@ce":
            return ce(atom)
        t = rng.choice(TEXTS2)
        attrs = ""
        r = rng.random()
        if r < 0.45:
            ty = rng.choice(["text", "html", "text/plain", "text/html", "TEXT", "application/octet-stream", "image/png", "text/x-foo", "application/xml"]) if atom else rng.choice(["text/html", "text/plain", "html"])
            attrs = ' type="%s"' % ty
        if rng.random() < 0.08:
            attrs += ' mode="%s"' % rng.choice(["base64", "escaped"])
        if rng.random() < 0.1:
            attrs += ' xml:lang="%s"' % rng.choice(["en", "en_US", "fr-CA", ""])
        if rng.random() < 0.08:
            attrs += ' xml:base="http://other.example/sub/"'
        if name == "content" and rng.random() < 0.15:
            attrs += ' src="%s"' % rng.choice(["http://example.org/full", "rel/full", ""])
        body = ("<![CDATA[%s]]>" % t) if (rng.random() < 0.2 and "]]>" not in t) else esc(t)
        return "<%s%s>%s</%s>" % (name, attrs, body, name)
    atom = rng.random() < 0.5
    ns = ' xmlns:dc="http://purl.org/dc/elements/1.1/" xmlns:itunes="http://www.itunes.com/dtds/podcast-1.0.dtd" xmlns:fb="http://rssnamespace.org/feedburner/ext/1.0" xmlns:x="http://unknown.example/" xmlns:cenc="http://purl.org/rss/1.0/modules/content/" xmlns:media="http://search.yahoo.com/mrss/"'
    feed_names = (["title", "subtitle", "rights", "tagline", "info", "dc:rights", "dc:title", "itunes:subtitle", "summary", "dc:description"] if atom else
                  ["title", "copyright", "dc:rights", "itunes:subtitle", "fb:browserFriendly", "dc:title", "tagline", "description", "itunes:summary", "dc:description"])
    # stage 3: summary / description / content in every order (a second description becomes content; content before description; content:encoded)
    entry_names = (["title", "rights", "dc:rights", "dc:title", "itunes:subtitle", "x:other", "summary", "content", "summary", "itunes:summary", "content", "media:description", "abstract"] if atom else
                   ["title", "dc:rights", "dc:title", "itunes:subtitle", "copyright", "x:other", "description", "cenc:encoded", "description", "itunes:summary", "fullitem", "dc:description", "content", "abstract"])
    feed_names = feed_names + ["@lg", "@lg", "@ce", "@au", "@au", "@gc", "@gc"]
    entry_names = entry_names + ["@lg", "@lg", "@lg", "@lg", "@ce", "@ce", "@ce", "@ce", "@au", "@au", "@au", "@au"]
    fmeta = "".join(el(n, atom) for n in rng.sample(feed_names, rng.randint(1, 4)))
    entries = ""
    for i in range(rng.randint(0, 3)):
        inner = "".join(el(n, atom) for n in rng.sample(entry_names, rng.randint(1, 4)))
        if rng.random() < 0.3:
            inner += el("title", atom)            # a second title in the same entry (title_depth)
        entries += ("<entry>%s</entry>" if atom else "<item>%s</item>") % inner
    late = el(rng.choice(feed_names), atom) if rng.random() < 0.3 else ""
    lang = rng.choice(["", ' xml:lang="en_GB"', ' xml:lang="de"'])
    if atom:
        doc = '<feed xmlns="http://www.w3.org/2005/Atom"%s%s>%s%s%s</feed>' % (ns, lang, fmeta, entries, late)
    else:
        doc = '<rss version="2.0"%s%s><channel>%s%s%s</channel></rss>' % (ns, lang, fmeta, entries, late)
    kw = rng.choice([{}, {}, {"sanitize_html": False}, {"resolve_relative_uris": False}, {"sanitize_html": False, "resolve_relative_uris": False}])
    return doc.encode("utf-8"), kw


def corr(ctx, docs, headers, loose_p=0.4):
    """correspondence of M-mixin with the real handler machine on a list of documents (a document may be a (bytes, parse kwargs) pair)"""
    rng = ctx.rng
    lines, exp, meta = [], [], []
    dist = {"docs": 0, "strict": 0, "loose": 0, "unmodelled_docs": 0, "events": 0}
    for d in docs:
        kw = {}
        if isinstance(d, tuple):
            d, kw = d
        loose = rng.random() < loose_p
        r, log = tr.traced_parse(d, headers, loose=loose, **kw)
        last_loose = loose or (not isinstance(r, Exception) and bool(r.get("bozo")))
        ls, ex = lines_for(log, last_loose, r)
        if not ls:
            continue
        dist["docs"] += 1
        dist["loose" if last_loose else "strict"] += 1
        for l, e in zip(ls, ex):
            lines.append(l)
            exp.append(e)
            meta.append((d, last_loose))
        dist["events"] += len(ls)
    got = vlib.run_driver(lines)
    dis, seen = [], set()
    i = 0
    while i < len(lines):
        j = i + 1
        while j < len(lines) and not lines[j].startswith("mix reset"):
            j += 1
        c = compare(got[i:j], exp[i:j])
        if c and c[0] == "unmodelled":
            dist["unmodelled_docs"] += 1
        elif c and meta[i] not in seen:
            seen.add(meta[i])
            if len(dis) < 20:
                dis.append({"doc": meta[i][0], "loose": meta[i][1], "line": lines[i + c[1]][:200], "model": c[2][:400], "impl": c[3][:400]})
        i = j
    return {"cases": len(lines), "distinct": len(set(lines)), "unmodelled": dist["unmodelled_docs"], "disagreements": dis, "distribution": dist,
            "samples": [{"doc": (docs[0][0] if isinstance(docs[0], tuple) else docs[0]).decode("utf-8", "replace")[:300]}] if docs else []}


def content_corr(ctx, n, into=None):
    """the stage-2 tie (text constructs: push_content / pop_content / pop() with content parameters, post-processing steps as recorded
    oracles) on n generated documents; merged into the correspondence result `into` of a property whose theorems speak about `contentOutput`"""
    docs = [content_doc(ctx.rng) for _ in range(n)]
    r = corr(ctx, docs, {"content-type": "application/xml; charset=utf-8", "content-location": "http://base.example/dir/"}, loose_p=0.3)
    if into is None:
        return r
    into["cases"] += r["cases"]
    into["distinct"] += r["distinct"]
    into["unmodelled"] = into.get("unmodelled", 0) + r["unmodelled"]
    for d in r["disagreements"]:
        if len(into["disagreements"]) < 20:
            into["disagreements"].append(dict(d, which="M-mixin stage 2 (text constructs)"))
    into.setdefault("distribution", {})["mixin_stage2"] = r["distribution"]
    return into
