"""C16 — parse() is re-entrant: no dependence on earlier calls or concurrent threads."""
import concurrent.futures
import json
import os
import subprocess
import sys
import threading

import vlib
from vlib import Finding, enc
import feedgen

LEAN_MODULES = ["FeedVerif.Props.C16", "FeedVerif.Model.InitDriver"]
CORR_OBLIGATIONS = ["global-state inventory: from a cold start, no module-level or class-level object under feedparser (nor the sgmllib patterns it patches) changes across parse() calls -- the "
                    "hypothesis 'no shared write' of the isolation theorem (positive control: an explicit registerDateHandler registration IS detected)",
                    "M-init ~ the real lazy SVG block (sanitizer.py:781-791) stepped statement by statement in two threads under model-chosen interleavings: each thread's tables and the class "
                    "attributes agree with the model's instance-placement semantics"]
TRUSTED = ["Lean model FeedVerif/Model/Init.lean (generic threads-over-shared-store semantics; the lazy SVG table block in both placements)",
           "the CPython scheduler / GIL are runtime: preemption is explored at line granularity with a sys.settrace baton scheduler, not inside a line",
           "tools/c16_worker.py runs every cold-start experiment in a fresh interpreter"]
ASSUMPTIONS = ["explicit registerDateHandler registrations are the one sanctioned global write (C09)"]

WORKER = os.path.join(vlib.ROOT, "tools", "c16_worker.py")
SVG = ('<feed xmlns="http://www.w3.org/2005/Atom"><title>svg</title><updated>2004-01-01T00:00:00Z</updated><entry><title>e</title><id>i</id>'
       '<content type="xhtml"><div xmlns="http://www.w3.org/1999/xhtml"><svg xmlns="http://www.w3.org/2000/svg" viewBox="0 0 10 10" preserveAspectRatio="none">'
       '<linearGradient id="g" gradientUnits="userSpaceOnUse"><stop offset="0"/></linearGradient><clipPath id="c"/><rect width="1" height="1" fill="url(#g)"/></svg><p style="color: red">x</p></div></content></entry></feed>')
DATES = ["2004-07-08 23:56:58", "2003", "20031231", "2003-335", "Thu, 01 Jan 2004 19:48:21 GMT", "2004-02-28T18:14:55-08:00", "Sun Jan  4 16:29:06 PST 2004", "2003-12-31T10:14:55Z", "031231", "2004-07-08T23:56:58",
         "Κυρ, 11 Ιούλ 2004 12:00:00 EST", "2004-07-13 14:15 +0200", "July 08, 2004"]


# the same style string (with SVG-only properties) on an HTML element INSIDE inline SVG and on one in plain XHTML: two documents, both orders -- the verdict on a style
# belongs to the context it occurs in, not to the process
STYLE_IN = ('<feed xmlns="http://www.w3.org/2005/Atom"><title>style in svg</title><entry><title>e</title><id>i</id><content type="xhtml"><div xmlns="http://www.w3.org/1999/xhtml">'
            '<svg xmlns="http://www.w3.org/2000/svg"><foreignObject><p style="fill: red; stroke: blue; color: green">in</p></foreignObject></svg></div></content></entry></feed>')
STYLE_OUT = ('<feed xmlns="http://www.w3.org/2005/Atom"><title>style outside</title><entry><title>e</title><id>i</id><content type="xhtml"><div xmlns="http://www.w3.org/1999/xhtml">'
             '<p style="fill: red; stroke: blue; color: green">out</p></div></content></entry></feed>')
# GML geometries whose srsName names an EPSG code (the axis-order decision consults a table of codes): first use of that path, alone and concurrently
GEO_A = ('<feed xmlns="http://www.w3.org/2005/Atom" xmlns:georss="http://www.georss.org/georss" xmlns:gml="http://www.opengis.net/gml"><title>geo a</title><entry><title>e</title><id>i</id>'
         '<georss:where><gml:Point srsName="EPSG:4326"><gml:pos>45.256 -71.92</gml:pos></gml:Point></georss:where></entry></feed>')
GEO_B = ('<feed xmlns="http://www.w3.org/2005/Atom" xmlns:georss="http://www.georss.org/georss" xmlns:gml="http://www.opengis.net/gml"><title>geo b</title><entry><title>e</title><id>i</id>'
         '<georss:where><gml:LineString srsName="urn:ogc:def:crs:EPSG::4269"><gml:posList>45.256 -71.92 46.46 -109.48</gml:posList></gml:LineString></georss:where></entry>'
         '<entry><title>f</title><id>j</id><georss:where><gml:Point srsName="EPSG:4326"><gml:pos>1.5 2.5</gml:pos></gml:Point></georss:where></entry></feed>')


def date_doc(rng, dates=None):
    ds = dates or [rng.choice(DATES) for _ in range(rng.randint(1, 4))]
    items = "".join("<item><title>i%d</title><pubDate>%s</pubDate><dc:date>%s</dc:date></item>" % (i, feedgen.esc(d), feedgen.esc(rng.choice(ds))) for i, d in enumerate(ds))
    return '<rss version="2.0" xmlns:dc="http://purl.org/dc/elements/1.1/"><channel><title>dates</title><lastBuildDate>%s</lastBuildDate>%s</channel></rss>' % (feedgen.esc(ds[0]), items)


def gen_doc(rng):
    r = rng.random()
    if r < 0.25:
        return SVG
    if r < 0.55:
        return date_doc(rng)
    if r < 0.8:
        return feedgen.vocab_doc(rng)
    af = feedgen.abstract_feed(rng)
    return feedgen.serialize(af, rng.choice(feedgen.FORMATS[:6]), typed=True)


def job(j, timeout=120):
    env = dict(os.environ, PYTHONPATH=vlib.REPO)
    p = subprocess.run([sys.executable, WORKER], input=json.dumps(j).encode(), capture_output=True, env=env, timeout=timeout)
    if p.returncode != 0:
        raise RuntimeError("c16 worker failed: " + p.stderr.decode("utf-8", "replace")[-400:])
    return json.loads(p.stdout)


def job_or_crash(j, timeout=120):
    """like job(), but a worker that dies while two parse() calls run concurrently is an OBSERVATION about the code under test (e.g. a shared expat
    reader re-entered from a second thread), not an infrastructure error: returns {"crash": ...} instead of raising"""
    try:
        return job(j, timeout=timeout)
    except RuntimeError as e:
        return {"crash": str(e)[-300:]}
    except subprocess.TimeoutExpired:
        return {"crash": "worker did not finish within %ds" % timeout}


def H(doc):
    return doc.encode("utf-8").hex()


def diff_path(a, b, path=""):
    if isinstance(a, dict) and isinstance(b, dict):
        for k in sorted(set(a) | set(b)):
            if a.get(k) != b.get(k):
                return diff_path(a.get(k), b.get(k), path + "/" + k)
    if isinstance(a, list) and isinstance(b, list) and len(a) == len(b):
        for i, (x, y) in enumerate(zip(a, b)):
            if x != y:
                return diff_path(x, y, path + "/%d" % i)
    return path, a, b


def key_of(path):
    parts = [p for p in path.split("/") if p and not p.isdigit()]
    return "/".join(parts[:3])


def search(ctx, focus=None):
    rng = ctx.rng
    failures, n, distinct = [], 0, set()
    dist = {"history": 0, "cold-schedules": 0, "warm-schedules": 0, "stalled": 0}
    pool = concurrent.futures.ThreadPoolExecutor(max_workers=12)
    docs = [SVG, date_doc(rng, ["2004-07-08 23:56:58", "2003"]), date_doc(rng, ["20031231", "2003-335"])] + [gen_doc(rng) for _ in range(ctx.n(6, 40))]
    docs = list(dict.fromkeys(docs))
    # stand-alone answers: one fresh interpreter per document
    base = dict(zip(docs, pool.map(lambda d: job({"mode": "sequence", "docs": [H(d)]})[0], docs)))
    # (a) histories: the same call after different call prefixes (fresh interpreter per history)
    hist = []
    for _ in range(ctx.n(10, 120)):
        seq = [rng.choice(docs) for _ in range(rng.randint(2, 6))]
        hist.append(seq)
    # documents that drive a handler into its error path (an attribute on an element whose end handler expects pushed text; a stray end tag), then
    # ordinary documents that use the same elements: nothing may be remembered
    ns = 'xmlns:itunes="http://www.itunes.com/dtds/podcast-1.0.dtd" xmlns:dcterms="http://purl.org/dc/terms/" xmlns:media="http://search.yahoo.com/mrss/"'
    victim = ('<rss version="2.0" %s><channel><title>v</title><itunes:keywords>a, b, c</itunes:keywords><item><title>i</title><itunes:keywords>x, y</itunes:keywords>'
              '<dcterms:valid>start=2004-01-01;end=2005-01-01</dcterms:valid><media:keywords>k1, k2</media:keywords></item></channel></rss>' % ns)
    triggers = ['<rss version="2.0" %s><channel><title>t</title><itunes:keywords xml:lang="en">a, b</itunes:keywords><item><dcterms:valid scheme="W3C-DTF">start=2004</dcterms:valid>'
                '<media:keywords lang="en">q</media:keywords></item></channel></rss>' % ns,
                '<rss version="2.0" %s><channel><title>t</title></content><item></newlocation><tags x="1">a b</tags></item></channel></rss>' % ns]
    extra = [STYLE_IN, STYLE_OUT, GEO_A, GEO_B]
    docs += [victim] + triggers + extra
    base.update(zip([victim] + triggers + extra, pool.map(lambda d: job({"mode": "sequence", "docs": [H(d)]})[0], [victim] + triggers + extra)))
    hist += [[STYLE_IN, STYLE_OUT], [STYLE_OUT, STYLE_IN], [STYLE_IN, STYLE_OUT, STYLE_IN], [GEO_A, GEO_B], [GEO_B, GEO_A]]
    for t in triggers:
        hist.append([victim, t, victim])
        hist.append([t, victim])
    hist.append([docs[2], docs[1]])      # a date only a low-priority handler accepts, then ambiguous dates
    hist.append([docs[0], docs[0], docs[1], docs[0]])
    for seq, res in zip(hist, pool.map(lambda s: job({"mode": "sequence", "docs": [H(d) for d in s]}), hist)):
        n += 1
        dist["history"] += 1
        distinct.add(("h",) + tuple(seq))
        for i, (d, r) in enumerate(zip(seq, res)):
            if r != base[d]:
                p, a, b = diff_path(base[d], r)
                failures.append(Finding(("history", key_of(p)), {"kind": "history", "docs": seq, "index": i},
                                        "call %d of a sequence of %d parse() calls answers differently from the same call run alone, at %s: alone %r, in sequence %r" % (i + 1, len(seq), p, a, b),
                                        observed=b, expected=a))
                break
    # (b) two threads, cold start: every first-use-only line of A as the preemption point + sampled others
    cold_jobs = []
    for a in [SVG, docs[1], docs[2], GEO_A] + ([rng.choice(docs)] if ctx.thorough else []):
        info = job({"mode": "coldlines", "doc": H(a)})
        points = list(info["cold"][: ctx.n(40, 400)])
        nlines = info["n"]
        points += sorted(rng.sample(range(1, max(2, nlines)), min(ctx.n(8, 80), max(1, nlines - 1))))
        for idx, k in enumerate(points):
            # the other thread: the same document, the document whose dates only the LATER alternatives of a handler accept (a partially
            # initialised table answers those wrongly), or any document -- in turn, so that every first-use-only line meets each kind
            b = (a, docs[2], rng.choice(docs))[idx % 3] if a is not GEO_A else (GEO_B, GEO_A, GEO_B)[idx % 3]
            cold_jobs.append({"a": a, "b": b, "segments": [k]})
        for _ in range(ctx.n(3, 40)):          # multi-preemption samples
            segs = [rng.randint(1, max(2, nlines // 3)) for _ in range(rng.randint(2, 6))]
            cold_jobs.append({"a": a, "b": rng.choice([a, rng.choice(docs)]), "segments": segs})

    def run_cold(j):
        return job_or_crash({"mode": "schedule", "a": H(j["a"]), "b": H(j["b"]), "segments": j["segments"]})
    for j, r in zip(cold_jobs, pool.map(run_cold, cold_jobs)):
        n += 1
        dist["cold-schedules"] += 1
        if "crash" in r:
            failures.append(Finding(("threads", "cold", "worker-died"), {"kind": "schedule", "warm": [], "a": j["a"], "b": j["b"], "segments": j["segments"], "thread": "?"},
                                    "two concurrent parse() calls from a cold start (baton passed after %s traced lines): the interpreter running them died / raised outside parse(): %s" % (j["segments"], r["crash"])))
            continue
        dist["stalled"] += 1 if r.get("stalls") else 0
        distinct.add(("c", j["a"], j["b"], tuple(j["segments"])))
        for t, d in (("A", j["a"]), ("B", j["b"])):
            if r[t] != base[d]:
                p, x, y = diff_path(base[d], r[t])
                failures.append(Finding(("threads", "cold", key_of(p)), {"kind": "schedule", "warm": [], "a": j["a"], "b": j["b"], "segments": j["segments"], "thread": t},
                                        "two concurrent parse() calls from a cold start (baton passed after %s traced lines): thread %s answers differently from the same call run alone, at %s: "
                                        "alone %r, concurrent %r" % (j["segments"], t, p, x, y), observed=y, expected=x))
                break
    # (c) two threads, warmed-up library: many schedules per interpreter
    warm_batches = []
    for _ in range(ctx.n(3, 24)):
        a, b = rng.choice(docs), rng.choice(docs)
        jobs = [{"a": H(a), "b": H(b), "segments": [rng.randint(1, 3000) for _ in range(rng.choice([1, 1, 2, 4]))]} for _ in range(ctx.n(10, 60))]
        warm_batches.append((a, b, jobs))
    for (a, b, jobs), res in zip(warm_batches, pool.map(lambda x: job_or_crash({"mode": "schedules", "warm": [H(SVG), H(docs[1])], "jobs": x[2]}, timeout=600), warm_batches)):
        if isinstance(res, dict) and "crash" in res:
            # find one schedule of the batch that kills the worker on its own
            res = []
            for j in jobs:
                one = job_or_crash({"mode": "schedules", "warm": [H(SVG), H(docs[1])], "jobs": [j]}, timeout=120)
                if isinstance(one, dict) and "crash" in one:
                    failures.append(Finding(("threads", "warm", "worker-died"), {"kind": "schedule", "warm": [SVG, docs[1]], "a": a, "b": b, "segments": j["segments"], "thread": "?"},
                                            "two concurrent parse() calls on a warmed-up library (segments %s): the interpreter running them died / raised outside parse(): %s" % (j["segments"], one["crash"])))
                    break
                res.append(one[0])
        for j, r in zip(jobs, res):
            n += 1
            dist["warm-schedules"] += 1
            distinct.add(("w", a, b, tuple(j["segments"])))
            for t, d in (("A", a), ("B", b)):
                if r[t] != base[d]:
                    p, x, y = diff_path(base[d], r[t])
                    failures.append(Finding(("threads", "warm", key_of(p)), {"kind": "schedule", "warm": [SVG, docs[1]], "a": a, "b": b, "segments": j["segments"], "thread": t},
                                            "two concurrent parse() calls on a warmed-up library (segments %s): thread %s differs from the stand-alone answer at %s: %r vs %r" % (j["segments"], t, p, y, x),
                                            observed=y, expected=x))
                    break
    pool.shutdown()
    seen, out = set(), []
    for f in failures:
        if tuple(f.key) not in seen:
            seen.add(tuple(f.key))
            out.append(f)
    return {"evaluations": n, "distinct_nontrivial": len(distinct), "failures": out, "distribution": dist,
            "rule": "documents {inline SVG with camelCase names, dates in every handler's format incl. strings two handlers read differently, vocabulary-wide feeds, abstract feeds}; (a) histories: "
                    "2-6 calls in a fresh interpreter, each answer vs the same call alone in a fresh interpreter; (b) cold start, two threads: the baton passes from A to B after k traced "
                    "feedparser lines for EVERY line A executes only on first use plus sampled k, and sampled multi-preemption segment lists; (c) warmed-up library: sampled single- and "
                    "multi-preemption schedules; oracle: each call returns exactly its stand-alone answer; schedules that stall on an interpreter lock are counted, not judged",
            "samples": [{"kind": "schedule", "segments": [1500]}]}


# ------------------------------------------------------------------------------------------------ correspondence
def lazy_block_lines():
    """(first, last) line numbers of the lazy block in the working tree's sanitizer.py"""
    import inspect
    import feedparser.sanitizer as S
    src, start = inspect.getsourcelines(S.HTMLSanitizer.unknown_starttag)
    first = last = None
    for i, l in enumerate(src):
        if "if not self.svg_attr_map" in l and first is None:
            first = start + i
        if "acceptable_attributes = self.svg_attributes" in l:
            last = start + i
    return first, last


def real_interleaving(sched):
    """run the lazy block of two real sanitizers under the statement-level schedule; returns per-thread tables + class tables"""
    import feedparser.sanitizer as S
    first, last = lazy_block_lines()
    if first is None or last is None:
        return None
    fname = S.__file__
    cond = threading.Condition()
    state = {"ptr": 0}
    res = {}

    def make_trace(me):
        prev = [None]

        def tr(frame, ev, arg):
            if frame.f_code.co_filename != fname or frame.f_code.co_name != "unknown_starttag":
                return None
            if ev == "line" and first <= frame.f_lineno <= last and frame.f_lineno != prev[0]:
                prev[0] = frame.f_lineno
                with cond:
                    while state["ptr"] < len(sched) and sched[state["ptr"]] != me:
                        if not cond.wait(timeout=2.0):
                            break
                    state["ptr"] += 1
                    cond.notify_all()
            elif ev == "line":
                prev[0] = frame.f_lineno if first <= frame.f_lineno <= last else None
            return tr
        return tr

    def worker(me):
        p = S.HTMLSanitizer("utf-8", "application/xhtml+xml")
        sys.settrace(make_trace(me))
        try:
            p.feed('<svg xmlns="http://www.w3.org/2000/svg" viewBox="0 0 1 1"></svg>')
        finally:
            sys.settrace(None)
        res[me] = (list(p.svg_attributes), dict(p.svg_attr_map or {}), list(p.svg_elements), dict(p.svg_elem_map or {}))
    ts = [threading.Thread(target=worker, args=(i,)) for i in (0, 1)]
    for t in ts:
        t.start()
    for t in ts:
        t.join(30)
    cls = (list(S.HTMLSanitizer.svg_attributes), dict(S.HTMLSanitizer.svg_attr_map or {}), list(S.HTMLSanitizer.svg_elements), dict(S.HTMLSanitizer.svg_elem_map or {}))
    return res.get(0), res.get(1), cls


def show_tables(t):
    if t is None:
        return "-"
    a, m, e, em = t
    L = lambda l: ",".join(enc(x) for x in l) if l else "_"
    M = lambda d: ",".join("%s>%s" % (enc(k), enc(v)) for k, v in d.items()) if d else "_"
    return "%s|%s|%s|%s" % (L(a), M(m), L(e), M(em))


def correspondence(ctx):
    rng = ctx.rng
    dis = []
    dist = {}
    # (1) inventory, cold start
    docs = [SVG, date_doc(rng), feedgen.vocab_doc(rng), date_doc(rng, ["20031231", "2004-07-08 23:56:58"])] + [gen_doc(rng) for _ in range(ctx.n(4, 30))]
    inv = job({"mode": "inventory", "docs": [H(d) for d in docs]})
    dist["inventory_objects"] = inv["objects"]
    dist["inventory_changed"] = len(inv["changed"])
    if inv["changed"]:
        dis.append({"what": "objects shared between calls changed across parse() calls (the isolation theorem's hypothesis fails for them)", "changed": inv["changed"][:20]})
    if not inv["control_detected"]:
        dis.append({"what": "positive control failed: the inventory did not notice an explicit registerDateHandler registration"})
    # (2) M-init vs the real lazy block under interleavings
    import feedparser.sanitizer as S
    raw_a, raw_e = list(S.HTMLSanitizer.svg_attributes), list(S.HTMLSanitizer.svg_elements)
    lines, exp = [], []
    scheds = [[0] * 10 + [1] * 10, [0, 0, 0, 0] + [1] * 10 + [0] * 6, [0, 1] * 10, [1] * 3 + [0] * 10 + [1] * 7]
    for _ in range(ctx.n(8, 80)):
        s = [0] * 10 + [1] * 10
        rng.shuffle(s)
        scheds.append(s)
    for s in scheds:
        r = real_interleaving(s)
        if r is None:
            dis.append({"what": "the lazy SVG block (if not self.svg_attr_map … acceptable_attributes = self.svg_attributes) was not found in sanitizer.py: the model no longer describes the code"})
            break
        lines.append("init run i %s %d %s" % (",".join(map(str, s)), len(raw_a), " ".join(enc(x) for x in raw_a + raw_e)))
        exp.append("T0:%s;T1:%s;C:%s" % (show_tables(r[0]), show_tables(r[1]), show_tables(r[2])))
    got = vlib.run_driver(lines) if lines else []
    for l, g, e in zip(lines, got, exp):
        if g != e and len(dis) < 20:
            k = next((i for i, (x, y) in enumerate(zip(g, e)) if x != y), 0)
            dis.append({"schedule": l.split(" ")[3], "what": "the real lazy block under this statement interleaving ends in other tables than the model's instance-placement semantics",
                        "model": g[max(0, k - 60):k + 120], "impl": e[max(0, k - 60):k + 120]})
    dist["interleavings"] = len(lines)
    return {"cases": len(lines) + len(docs), "distinct": len(set(lines)) + len(set(docs)), "unmodelled": 0, "disagreements": dis, "distribution": dist,
            "samples": [{"schedule": ",".join(map(str, scheds[1]))}]}


def replay(w):
    if w["kind"] == "history":
        base = [job({"mode": "sequence", "docs": [H(d)]})[0] for d in w["docs"]]
        res = job({"mode": "sequence", "docs": [H(d) for d in w["docs"]]})
        for i, (b, r) in enumerate(zip(base, res)):
            if b != r:
                return (True, "call %d answers differently in the sequence than alone" % (i + 1))
        return (False, "every call of the sequence answers as it does alone")
    base = {d: job({"mode": "sequence", "docs": [H(d)]})[0] for d in (w["a"], w["b"])}
    for _ in range(3):
        if w.get("warm"):
            r = job_or_crash({"mode": "schedules", "warm": [H(d) for d in w["warm"]], "jobs": [{"a": H(w["a"]), "b": H(w["b"]), "segments": w["segments"]}]})
            r = r if isinstance(r, dict) else r[0]
        else:
            r = job_or_crash({"mode": "schedule", "a": H(w["a"]), "b": H(w["b"]), "segments": w["segments"]})
        if "crash" in r:
            return (True, "the interpreter running the two concurrent calls died: " + r["crash"])
        if r["A"] != base[w["a"]] or r["B"] != base[w["b"]]:
            return (True, "a concurrent call answers differently from the same call alone")
    return (False, "both concurrent calls answer as they do alone")


TECHNIQUE = "Lean 4 proof: under EVERY interleaving, threads that never write the shared store compute what they compute alone (induction over schedules); the lazily derived SVG tables, modelled statement by statement, satisfy that hypothesis as placed (on the instance) and provably race when placed on the class + global-state inventory from a cold start + statement-level interleaving correspondence on the real block + history and line-granular thread-schedule exploration in fresh interpreters"
LEVEL_TEXT = ("Kernel-checked on M-init: isolated / run_shared_fixed (no shared write => for every schedule each thread's state is its stand-alone state and the shared store is unchanged), "
              "instance_placement_readonly + lazy_init_safe (the lazy SVG tables as the code places them: any interleaving of two cold sanitizers gives each the tables a lone one derives, class "
              "tables untouched), class_placement_race (the same block with class placement has a schedule that yields an empty case map: why the anchor matters), derived_is_real (the model's "
              "derived tables are the tables real instances end with). Tie: the inventory establishes 'no shared write' for the whole library on every run; the real block is stepped under "
              "model-chosen interleavings.")
LEVEL_NOTE = ("Trusted: Lean kernel + standard axioms. Partial by nature: the CPython scheduler is not modelled -- thread schedules are explored at line granularity (every first-use-only line as a "
              "preemption point, sampled others, sampled multi-preemption), not inside a line; schedules that stall on an interpreter lock are skipped.")
