"""C01 — parse() is total: never raises, always returns a well-shaped result."""
import glob
import io
import json
import os
import random
import traceback
import warnings

import vlib
from vlib import Finding
import feedgen
import mixlib
from props import C19

LEAN_MODULES = ["FeedVerif.Props.C01", "FeedVerif.Model.MixinDriver", "FeedVerif.Model.ApiDriver"]
CORR_OBLIGATIONS = ["M-mixin (stage 1) ~ the real handler machine on unbalanced / stray-end-tag / unclosed arrangements of structural and handler-less elements (state after every tag, whole result)",
                    "M-api ~ parse(): for the stage outcomes observed in a real call (source opened / empty / encoding verdict / strict failure / loose emptiness / JSON failure) the model "
                    "predicts the result's key set and the bozo / bozo_exception pairing"]
TRUSTED = C19.TRUSTED + ["library contracts: expat raises only SAXException subclasses through xml.sax, codecs raise UnicodeError / LookupError, json raises ValueError",
                         "Lean model FeedVerif/Model/Api.lean of api.py's result assembly (straight-line decision logic; stage outcomes are inputs)"]
ASSUMPTIONS = ["dedicated handlers beyond stage 1 (extension vocabularies) are covered by the grammar fuzzer, not by the theorems"]

SHAPE_ALWAYS = ("bozo", "entries", "feed", "headers")
SHAPE_NONEMPTY = ("encoding", "version", "namespaces")


# ------------------------------------------------------------------------------------------------ vocabulary (from /repo, so it follows the tree)
def vocabulary():
    import feedparser.mixin as mixin
    ns = mixin.XMLParserMixin.namespaces           # uri -> prefix
    pref_uri = {}
    for uri, p in ns.items():
        pref_uri.setdefault(p, uri)
    names = set()
    for n in dir(mixin.XMLParserMixin):
        if n.startswith("_start_"):
            names.add(n[7:])
        elif n.startswith("_end_"):
            names.add(n[5:])
    prefixes = sorted((p for p in pref_uri if p), key=len, reverse=True)
    # element names that coincide with keys the handlers keep their own data under (stored by the no-handler fallback)
    if os.environ.get('C01_NO_INTERNAL') != '1':
        names |= set(INTERNAL_KEYS)
    out = []
    for n in sorted(names):
        q = None
        for p in prefixes:
            if n.startswith(p + "_"):
                q = (p, n[len(p) + 1:])
                break
        out.append(q or ("", n))
    return out, pref_uri


INTERNAL_KEYS = ["authors", "contributors", "links", "tags", "enclosures", "content", "chapters", "generator_detail", "author_detail", "publisher_detail", "title_detail", "summary_detail",
                 "image", "textinput", "where", "media_content", "media_credit", "media_license", "media_player", "media_rating", "media_restriction", "media_thumbnail", "psc_chapters",
                 "newlocation", "license", "updated_parsed", "published_parsed", "source", "href", "language", "author", "publisher", "contributor", "category", "categories", "keywords"]
ATTR_NAMES = ["href", "rel", "type", "url", "length", "term", "scheme", "label", "domain", "version", "xml:base", "xml:lang", "rdf:about", "rdf:resource", "rdf:parseType",
              "start", "title", "image", "role", "medium", "text", "mode", "src", "isPermaLink", "name", "content", "width", "height", "lastmod", "value", "email", "uri",
              "hreflang", "xmlns", "xmlns:x", "base", "lang", "expression", "duration", "fileSize", "bitrate", "isDefault", "algo", "relationship", "featurename", "srsName"]
ATTR_VALUES = ["", "x", "1", "-1", "1e9", "abc def", "http://example.org/a?b=1&amp;c=2", "../rel", "text/html", "text/plain", "application/xhtml+xml", "xhtml", "html", "text", "base64",
               "escaped", "alternate", "self", "enclosure", "via", "true", "false", "yes", "no", "0:01:02.500", "00:00", "NaN", "&#xD800;", "&#0;", "&#1114112;", "&bogus;", "javascript:alert(1)",
               "  padded  ", "日本語", "45.256 -71.92", "urn:x", "Literal", "Resource", "http://purl.org/rss/1.0/", "2.0", "0.91", "0.3"]
TEXTS = ["", " ", "x", "plain text", "12", "-3", "4.5", "1e400", "45.256 -71.92", "45.256 -71.92 46 -72 45.256 -71.92", "45.256", "a b c d", "45.256,-71.92", "NaN NaN",
         "Thu, 01 Jan 2004 19:48:21 GMT", "2004-01-01T19:48:21Z", "2006/13/15", "Fri, 2006/13/15 08:19:53 EDT", "31 Feb 2004", "00000000000000000001-01-01", "2004-366", "24:00:00",
         "yes", "no", "clean", "explicit", "1:02:03", "99999999999999999999:00", "a,b,,c", "mailto:a@b.example", "Jane (jane@example.org)", "jane@example.org (Jane)", "(", ")", "<b>bold</b>",
         "&lt;b&gt;bold&lt;/b&gt;", "&amp;", "&#38;", "&#x26;", "&#0;", "&#xD800;", "&#xDFFF;", "&#1114111;", "&#1114112;", "&#99999999999;", "&#" + "9" * 5000 + ";", "&#x" + "f" * 5000 + ";", "&amp;#" + "1" * 4400 + ";", "&#x110000;", "&#-1;", "&#x;", "&#;", "&nosuch;", "&nbsp;",
         "&copy;", "&AMP;", "&#128512;", "<![CDATA[cd <x> &amp; ]]>", "<![CDATA[", "]]>", "<!-- c -->", "<?pi x?>", "aGVsbG8=", "!!!notbase64", "http://example.org/x", "../y", "//host/z",
         "javascript:alert(1)", "\x00", "\x0b", "￾", "퟿", "é", "日本語", "😀", "\r\n", "line1\nline2", "x" * 300]
ROOTS = ['<rss version="2.0"%s><channel>', '<rss version="0.91"%s><channel>', '<rss%s>', '<feed xmlns="http://www.w3.org/2005/Atom"%s>', '<feed version="0.3" xmlns="http://purl.org/atom/ns#"%s>',
         '<rdf:RDF xmlns="http://purl.org/rss/1.0/"%s>', '<channel%s>', '<CHANNEL HREF="http://example.org/"%s>', '<item%s>', '<entry xmlns="http://www.w3.org/2005/Atom"%s>', '<foo%s>', '%s']


def gen_grammar(rng, vocab, pref_uri, wellformed=None):
    """a document over the handler vocabulary; wellformed=True keeps it balanced"""
    wf = rng.random() < 0.5 if wellformed is None else wellformed
    used = set()

    def qn(v):
        p, l = v
        if p:
            used.add(p)
            if rng.random() < 0.15 and not wf:
                return l            # handler vocabulary without its namespace
            return p + ":" + l
        return l

    def attrs():
        out = []
        seen = set()
        for _ in range(rng.choice([0, 0, 0, 1, 1, 2, 3, 5])):
            a = rng.choice(ATTR_NAMES)
            if a in seen and wf:
                continue
            seen.add(a)
            if a.startswith("xmlns"):
                v = rng.choice(list(pref_uri.values()) + ["", "urn:x"])
                if wf and (v == "" and a != "xmlns"):
                    v = "urn:x"
                if a == "xmlns" and wf:
                    continue
            else:
                v = rng.choice(ATTR_VALUES)
            if a.split(":")[0] in ("rdf",):
                used.add("rdf")
            if wf:
                v = v.replace("&bogus;", "x").replace("&#xD800;", "x").replace("&#0;", "x").replace("&#1114112;", "x")
            out.append(' %s="%s"' % (a, v))
        return "".join(out)

    def text():
        t = rng.choice(TEXTS)
        if wf:
            if any(x in t for x in ("&#0;", "&#xD", "&#1114112", "&#9999", "&#x11", "&#-", "&#x;", "&#;", "&nosuch", "&nbsp", "&copy", "&AMP", "<![CDATA[", "]]>", "\x00", "\x0b", "￾", "<b>")) or t == "<![CDATA[":
                return "t"
        return t

    def elem(depth):
        v = rng.choice(vocab)
        name = qn(v)
        a = attrs()
        r = rng.random()
        if depth <= 0 or r < 0.35:
            body = text()
        else:
            body = "".join(rng.choice([text(), elem(depth - 1), elem(depth - 1)]) for _ in range(rng.randint(1, 3)))
        if wf:
            return "<%s%s>%s</%s>" % (name, a, body, name) if rng.random() < 0.85 else "<%s%s/>" % (name, a)
        k = rng.random()
        if k < 0.6:
            return "<%s%s>%s</%s>" % (name, a, body, name)
        if k < 0.7:
            return "<%s%s>%s" % (name, a, body)                     # unclosed
        if k < 0.8:
            return "%s</%s>" % (body, name)                          # stray end tag
        if k < 0.88:
            other = qn(rng.choice(vocab))
            return "<%s%s>%s</%s>" % (name, a, body, other)          # mismatched
        if k < 0.94:
            return "<%s%s/>" % (name, a)
        return "<%s%s><%s>%s</%s></%s>" % (name, a, name, body, name, name)   # self-nesting
    body = "".join(elem(rng.randint(0, 3)) for _ in range(rng.randint(1, 5)))
    decl = "".join(' xmlns:%s="%s"' % (p, pref_uri[p]) for p in sorted(used | ({"rdf"} if "rdf:" in body else set())) if p in pref_uri and p != "xml")
    if not wf and rng.random() < 0.2:
        decl = ""
    root = rng.choice(ROOTS if not wf else ROOTS[:-1])
    open_ = root % decl
    closes = []
    import re
    for m in re.finditer(r"<([A-Za-z:]+)", open_):
        closes.append("</%s>" % m.group(1))
    close = "".join(reversed(closes)) if (wf or rng.random() < 0.7) else ""
    head = rng.choice(['<?xml version="1.0" encoding="utf-8"?>', "", '<?xml version="1.0"?>']) if not wf else rng.choice(['<?xml version="1.0" encoding="utf-8"?>', ""])
    return (head + open_ + body + close)


def gen_geo(rng):
    """GeoRSS / GML geometries: every element x srsDimension / srsName attribute on it or on its ancestors x coordinate lists of 0..9 numbers
    (complete and incomplete tuples, non-numeric, separators), inside and outside <georss:where>, well-formed or cut short"""
    nums = lambda n: rng.choice([" ", ",", "\n", ", "]).join(rng.choice(["45.256", "-71.92", "0", "1e3", "NaN", "x", "180", "-90.5", ""]) if rng.random() < 0.15 else str(round(rng.uniform(-90, 90), 3)) for _ in range(n))
    def srs():
        return rng.choice(["", "", ' srsDimension="3"', ' srsDimension="2"', ' srsDimension="x"', ' srsDimension=""', ' srsName="EPSG:4326"', ' srsName="urn:ogc:def:crs:EPSG:6.6:4326" srsDimension="3"',
                           ' srsName="EPSG:4979" srsDimension="3"', ' srsdimension="3"'])
    def geom():
        k = rng.random()
        n = rng.randint(0, 9)
        if k < 0.25:
            return "<gml:Point%s><gml:pos%s>%s</gml:pos></gml:Point>" % (srs(), srs(), nums(n))
        if k < 0.45:
            return "<gml:LineString%s><gml:posList%s>%s</gml:posList></gml:LineString>" % (srs(), srs(), nums(n))
        if k < 0.65:
            return "<gml:Polygon%s><gml:exterior><gml:LinearRing><gml:posList%s>%s</gml:posList></gml:LinearRing></gml:exterior></gml:Polygon>" % (srs(), srs(), nums(n))
        if k < 0.75:
            return "<gml:Envelope%s><gml:lowerCorner>%s</gml:lowerCorner><gml:upperCorner>%s</gml:upperCorner></gml:Envelope>" % (srs(), nums(rng.randint(0, 3)), nums(rng.randint(0, 3)))
        tag = rng.choice(["point", "line", "polygon", "box"])
        return "<georss:%s>%s</georss:%s>" % (tag, nums(n), tag)
    items = ""
    for _ in range(rng.randint(1, 3)):
        g = geom()
        if rng.random() < 0.7:
            g = "<georss:where%s>%s</georss:where>" % (srs(), g)
        items += "<item><title>t</title>%s</item>" % g
    doc = ('<rss version="2.0" xmlns:georss="http://www.georss.org/georss" xmlns:gml="http://www.opengis.net/gml"><channel>%s%s</channel></rss>'
           % (geom() if rng.random() < 0.3 else "", items))
    if rng.random() < 0.2:
        doc = doc[:rng.randrange(len(doc))]
    return doc.encode("utf-8")


def gen_entities(rng):
    """documents whose DOCTYPE has an internal subset declaring general entities of every value shape -- plain text, a well-formed or MALFORMED
    character reference (&#xyz; &#x; &#12ab; &#; &#99999999999; &#xD800;), nested, empty, quoted either way -- and whose content references them"""
    vals = ["text", "", "&#169;", "&#x41;", "&#xyz;", "&#x;", "&#12ab;", "&#deg;", "&#99999999999;", "&#xD800;", "&#1114112;", "&#0;", "&#-1;", "&amp;", "&e0;&e0;", "<b>x</b>", "a &#38; b", "%p;"]
    n = rng.randint(1, 5)
    decls = []
    for i in range(n):
        v = rng.choice(vals)
        q = "'" if rng.random() < 0.15 and "'" not in v else '"'
        decls.append("<!ENTITY e%d %s%s%s>" % (i, q, v, q))
    sep = rng.choice(["\n", "\n", "", " ", "\r\n"])
    root = rng.choice(["rss", "feed"])
    doctype = "<!DOCTYPE %s [%s%s%s]>" % (root, sep, sep.join(decls), sep)
    refs = lambda: "".join(rng.choice(["&e%d;" % rng.randrange(n), "x ", "&amp;", "&#169;", "&e%d; " % rng.randrange(n)]) for _ in range(rng.randint(1, 4)))
    if root == "rss":
        body = '<rss version="2.0"><channel><title>%s</title><item><title>%s</title><description>%s</description><link>http://example.org/?%s</link></item></channel></rss>' % (refs(), refs(), refs(), refs())
    else:
        body = '<feed xmlns="http://www.w3.org/2005/Atom"><title>%s</title><entry><title type="html">%s</title><summary>%s</summary><link href="http://example.org/?%s"/></entry></feed>' % (refs(), refs(), refs(), refs())
    return (rng.choice(['<?xml version="1.0"?>\n', "", '<?xml version="1.0" encoding="utf-8"?>']) + doctype + rng.choice(["\n", ""]) + body).encode("utf-8")


# ------------------------------------------------------------------------------------------------ other input streams
_CORPUS = None


def corpus():
    global _CORPUS
    if _CORPUS is None:
        _CORPUS = sorted(glob.glob(os.path.join(vlib.REPO, "tests", "**", "*.xml"), recursive=True))
    return _CORPUS


def gen_mutated_corpus(rng):
    p = rng.choice(corpus())
    b = bytearray(open(p, "rb").read())
    for _ in range(rng.choice([0, 1, 1, 2, 4, 8])):
        if not b:
            break
        k = rng.random()
        i = rng.randrange(len(b))
        if k < 0.3:
            b[i] = rng.randrange(256)
        elif k < 0.5:
            del b[i:i + rng.randint(1, 20)]
        elif k < 0.7:
            j = rng.randrange(len(b))
            b[i:i] = b[j:j + rng.randint(1, 30)]
        elif k < 0.85:
            b[i:i] = rng.choice([b"<", b">", b"&", b"&#xD800;", b"&#0;", b"</", b"<![CDATA[", b"]]>", b"\x00", b"\xff\xfe", b'"', b"<!--", b"&#99999999999;", b"<!DOCTYPE x [<!ENTITY a 'b'>]>"])
        else:
            b = b[:i]
    return bytes(b)


def rand_json(rng, depth=0):
    k = rng.random()
    if depth > 3 or k < 0.35:
        return rng.choice([None, True, False, 0, -1, 1.5, 1e308, "", "x", "http://example.org/", "2004-01-01T00:00:00Z", "not a date", "<b>h</b>", "日本語", [], {}])
    if k < 0.6:
        return [rand_json(rng, depth + 1) for _ in range(rng.randint(0, 3))]
    keys = ["version", "title", "home_page_url", "feed_url", "description", "items", "id", "url", "external_url", "content_html", "content_text", "summary", "image", "banner_image",
            "date_published", "date_modified", "author", "authors", "name", "avatar", "tags", "attachments", "mime_type", "size_in_bytes", "duration_in_seconds", "language", "icon", "favicon",
            "next_url", "expired", "hubs", "user_comment", "_ext", ""]
    return {rng.choice(keys): rand_json(rng, depth + 1) for _ in range(rng.randint(0, 6))}


def gen_json(rng):
    k = rng.random()
    if k < 0.6:
        top = {"version": rng.choice(["https://jsonfeed.org/version/1", "https://jsonfeed.org/version/1.1", "x", 1, None]), "title": rand_json(rng, 3),
               "items": [rand_json(rng, 1) for _ in range(rng.randint(0, 3))] if rng.random() < 0.8 else rand_json(rng, 2)}
        for _ in range(rng.randint(0, 4)):
            x = rand_json(rng, 2)
            if isinstance(x, dict):
                top.update(x)
        if rng.random() < 0.3:
            top.pop(rng.choice(list(top)), None)
    else:
        top = rand_json(rng)
    s = json.dumps(top, ensure_ascii=rng.random() < 0.5)
    if rng.random() < 0.15:
        i = rng.randrange(len(s) + 1)
        s = s[:i] + rng.choice(["", "}", "{", ",", "\x00", "NaN", "'"]) + s[i + rng.choice([0, 1, 5]):]
    return s.encode("utf-8")


BOMS = [b"", b"\xef\xbb\xbf", b"\xff\xfe", b"\xfe\xff", b"\xff\xfe\x00\x00", b"\x00\x00\xfe\xff", b"\x00\x00\xff\xfe", b"\xfe\xff\x00\x00", b"\x4c\x6f\xa7\x94", b"\x00<\x00?", b"<\x00?\x00", b"\x00\x00\x00<", b"<\x00\x00\x00"]
ENCODINGS = ["utf-8", "utf-16", "utf-16le", "utf-16be", "utf-32", "utf-32le", "utf-32be", "iso-8859-1", "windows-1252", "cp037", "cp1026", "big5", "gb2312", "euc-jp", "shift_jis", "koi8-r",
             "us-ascii", "utf-7", "x-nosuch", "", "\x00", "idna", "rot13", "base64", "hex", "zlib", "punycode", "unicode_escape", "raw_unicode_escape", "undefined", "mbcs", "oem", "utf_8_sig"]


def gen_binary(rng):
    k = rng.random()
    body = bytes(rng.randrange(256) for _ in range(rng.choice([1, 2, 3, 4, 5, 16, 100, 1000])))
    if k < 0.3:
        return rng.choice(BOMS) + body
    enc = rng.choice(ENCODINGS)
    doc = '<?xml version="1.0" encoding="%s"?><rss version="2.0"><channel><title>t é 日本</title><item><title>x</title></item></channel></rss>' % rng.choice(ENCODINGS)
    try:
        b = doc.encode(enc, "replace")
    except Exception:
        b = doc.encode("utf-8")
    if k < 0.6:
        return rng.choice(BOMS) + b
    i = rng.randrange(len(b) + 1)
    return rng.choice(BOMS) + b[:i] + body + b[i:]


HEADER_POOL = {
    "content-type": ["application/xml", "application/xml; charset=utf-8", "text/xml", "text/xml; charset=iso-8859-1", "application/atom+xml; charset=x-nosuch", "text/html", "text/plain; charset=utf-16",
                     "application/json", "application/feed+json", "application/octet-stream", "", ";", "charset=", "application/xml; charset=\x00", "application/rss+xml; charset=\"utf-8\"",
                     "APPLICATION/XML; CHARSET=UTF-8", "application/xml;charset='big5'", "a/b; charset=idna", "text/xml; charset=hex", "application/xml; charset=utf_8_sig"],
    "content-location": ["", "http://example.org/feed", "relative/path", "javascript:x", "http://[::1", "file:///etc/passwd", "//host", "http://example.org/\x00"],
    "content-language": ["en", "", "x" * 100, "en-US, fr"],
    "etag": ["\"abc\"", ""], "last-modified": ["Thu, 01 Jan 2004 19:48:21 GMT", "garbage", ""], "content-encoding": ["gzip", "deflate", "identity", "x"],
    "x-other": ["v"],
}


def gen_headers(rng):
    if rng.random() < 0.35:
        return None
    h = {}
    for k in rng.sample(sorted(HEADER_POOL), rng.randint(0, 4)):
        name = rng.choice([k, k.title(), k.upper()])
        h[name] = rng.choice(HEADER_POOL[k])
    return h


# ------------------------------------------------------------------------------------------------ the call and its oracle
class ShortReader:
    """non-seekable binary stream with short reads"""

    def __init__(self, data, rng):
        self._b, self._rng = io.BytesIO(data), rng

    def read(self, n=-1):
        if n is None or n < 0:
            return self._b.read()
        return self._b.read(max(1, self._rng.randint(1, n)) if n else 0)


def deliver(rng, data, form):
    if form in ("str", "str-surrogate", "str-pass") and (data[:7].lower() in (b"http://", b"https:/") or len(data) < 8):
        form = "stream"             # parse(str) would fetch a URL / open a file of that name: C17's and the filesystem's business, not this check's
    if isinstance(data, str):
        return io.StringIO(data) if form in ("stream", "short") else data
    if form == "bytes":
        return data
    if form == "stream":
        return io.BytesIO(data)
    if form == "short":
        return ShortReader(data, rng)
    if form == "str":
        return data.decode("utf-8", "surrogateescape") if False else data.decode("latin-1")
    if form in ("str-pass", "textstream-pass"):
        # the bytes are UTF-8 WITH surrogatepass: the str they denote holds the lone surrogates the case put there
        t = data.decode("utf-8", "surrogatepass")
        return io.StringIO(t) if form == "textstream-pass" else t
    if form == "str-surrogate":
        # a str (or text stream) may hold LONE SURROGATES (text decoded with surrogateescape / surrogatepass, JSON with unpaired \\uD800): no codec can encode them
        # (position, surrogate, padding and stream-or-str are functions of the data, so that a witness replays exactly)
        t = data.decode("utf-8", "surrogateescape")
        h = sum(data) + len(data)
        k = h % (len(t) + 1)
        t = t[:k] + ["\ud800", "\udfff", "\udc80x"][h % 3] + t[k:]
        if h % 10 < 3:
            t = t.replace(">", ">" + "pad " * 3000, 1)            # …beyond the 8192-character prefix too
        return io.StringIO(t) if h % 5 < 2 else t
    return data


def crash_site(exc):
    tb = traceback.extract_tb(exc.__traceback__)
    site = None
    for fr in tb:
        if os.sep + "feedparser" + os.sep in fr.filename:
            site = fr.name
    return site or "<outside feedparser>"


def find_bytes(x, path="", seen=None, depth=0):
    if depth > 12:
        return None
    if isinstance(x, (bytes, bytearray)):
        return path
    if isinstance(x, dict):
        for k in dict.keys(x):
            if isinstance(k, bytes):
                return path + "/<key>"
            r = find_bytes(dict.__getitem__(x, k), path + "/" + str(k), seen, depth + 1)
            if r:
                return r
    elif isinstance(x, (list, tuple)) and not hasattr(x, "tm_year"):
        for i, v in enumerate(x):
            r = find_bytes(v, path + "/%d" % i, seen, depth + 1)
            if r:
                return r
    return None


def call(data, headers, loose, opts, form, rng=None):
    """returns (result | None, exception | None)"""
    import feedparser
    import feedparser.api as api
    saved = api._XML_AVAILABLE
    try:
        api._XML_AVAILABLE = not loose
        with warnings.catch_warnings():
            warnings.simplefilter("ignore")
            try:
                return feedparser.parse(deliver(rng or random.Random(0), data, form), response_headers=headers, **opts), None
            except Exception as e:      # noqa: the property says NO exception escapes
                return None, e
    finally:
        api._XML_AVAILABLE = saved


def clobbering_element(data, headers, loose, opts, form):
    """names of the handler-less elements in `data` whose renaming (K -> K + 'x', start and end tags alike) makes the exception go away, else None"""
    import re
    import feedparser.mixin as mixin
    if not isinstance(data, bytes) or form in ("str-surrogate", "str-pass", "textstream-pass"):
        return None          # (the surrogate form derives its insertion point from the bytes: a renamed copy is another experiment)
    present, renamed = [], data
    for k in INTERNAL_KEYS:
        if hasattr(mixin.XMLParserMixin, "_start_" + k) or hasattr(mixin.XMLParserMixin, "_end_" + k):
            continue
        pat = re.compile(rb"(</?)" + k.encode() + rb"(?=[\s/>])", re.I)
        if pat.search(renamed):
            present.append(k)
            renamed = pat.sub(lambda m, k=k: m.group(1) + k.encode() + b"x", renamed)
    if not present:
        return None
    _r, e2 = call(renamed, headers, loose, opts, form)
    return ",".join(present) if e2 is None else None


def judge(data, headers, loose, opts, form, stream, rng=None):
    w = {"data": data, "headers": headers, "loose": loose, "opts": opts, "form": form, "stream": stream}
    r, e = call(data, headers, loose, opts, form, rng)
    if e is not None:
        site = crash_site(e)
        k = clobbering_element(data, headers, loose, opts, form)
        if k:
            # one family, identified causally: renaming the handler-less element K (start and end tags alike) makes the exception disappear
            return [Finding(("raises", "handlerless-element-clobbers-handler-key"), dict(w, element=k),
                            "parse() raises %s in %s because a handler-less element <%s> was stored under the key the handlers keep their own structure in: %s"
                            % (type(e).__name__, site, k, str(e)[:120]))]
        return [Finding(("raises", type(e).__name__, site), w, "parse() raises %s in %s: %s" % (type(e).__name__, site, str(e)[:160]))]
    fs = []
    for k in SHAPE_ALWAYS:
        if k not in r:
            fs.append(Finding(("shape", "missing", k), w, "result lacks %r" % k))
    nonempty = len(data) > 0
    if nonempty and "bozo_exception" not in r or (nonempty and r.get("bozo_exception").__class__.__name__ not in ("URLError",)):
        pass
    if nonempty and not (r.get("bozo") and isinstance(r.get("bozo_exception"), OSError)):
        for k in SHAPE_NONEMPTY:
            if k not in r:
                fs.append(Finding(("shape", "missing", k), w, "result for non-empty content lacks %r" % k))
    if not fs:
        if not isinstance(r["entries"], list) or not all(isinstance(x, dict) for x in r["entries"]):
            fs.append(Finding(("shape", "entries-type"), w, "entries is not a list of dict-like objects"))
        if not isinstance(r["feed"], dict) or not isinstance(r["headers"], dict):
            fs.append(Finding(("shape", "feed-type"), w, "feed / headers is not dict-like"))
        if bool(r["bozo"]) != ("bozo_exception" in r):
            fs.append(Finding(("shape", "bozo-pairing"), w, "bozo=%r but bozo_exception %s" % (r["bozo"], "present" if "bozo_exception" in r else "absent")))
    for part in ("feed", "entries", "encoding", "version", "namespaces"):
        if part in r:
            p = find_bytes(r[part], part)
            if p:
                fs.append(Finding(("bytes-value", "/".join(x for x in p.split("/") if not x.isdigit())), w, "a bytes value is reachable at %s" % p))
    return fs


OPTS = [{}] + [{"resolve_relative_uris": a, "sanitize_html": b, "optimistic_encoding_detection": c} for a in (True, False) for b in (True, False) for c in (True, False)]
FORMS = ["bytes", "bytes", "stream", "short", "str", "str-surrogate"]



# ---- key collisions: an element named like a key the handlers keep their own data under, in every shape, before a document that uses every handler
COLLIDE_KEYS = sorted(set(INTERNAL_KEYS + ["subtitle_detail", "rights_detail", "cloud", "summary", "title", "link", "id", "guidislink", "generator", "info", "rights", "subtitle", "docs", "comments",
    "publishers", "content_detail", "description_detail", "tagline_detail", "copyright_detail", "info_detail", "entries", "feed", "namespaces", "version", "itunes_explicit", "itunes_block",
    "media_keywords", "media_group", "media_title", "media_description", "errorreportsto", "logo", "icon", "ttl", "expired", "created", "created_parsed", "expired_parsed", "validity_start", "validity_end"]))
COLLIDE_NS = ('xmlns:dc="http://purl.org/dc/elements/1.1/" xmlns:itunes="http://www.itunes.com/dtds/podcast-1.0.dtd" xmlns:media="http://search.yahoo.com/mrss/" xmlns:georss="http://www.georss.org/georss" '
              'xmlns:gml="http://www.opengis.net/gml" xmlns:psc="http://podlove.org/simple-chapters" xmlns:cc="http://web.resource.org/cc/" xmlns:creativeCommons="http://backend.userland.com/creativeCommonsRssModule" '
              'xmlns:atom="http://www.w3.org/2005/Atom" xmlns:rdf="http://www.w3.org/1999/02/22-rdf-syntax-ns#" xmlns:dcterms="http://purl.org/dc/terms/" xmlns:admin="http://webns.net/mvcb/" xmlns:xhtml="http://www.w3.org/1999/xhtml"')
COLLIDE_RICH = ('<title>T</title><link>http://e/</link><atom:link rel="self" href="s"/><description>D</description><author>a@b (N)</author><managingEditor>m@e</managingEditor><webMaster>w@m</webMaster><dc:creator>C</dc:creator><dc:publisher>P</dc:publisher><dc:contributor>CC</dc:contributor>'
        '<atom:author><atom:name>n</atom:name><atom:email>e@x</atom:email><atom:uri>u</atom:uri></atom:author><atom:contributor><atom:name>cn</atom:name><atom:email>ce@x</atom:email><atom:url>cu</atom:url></atom:contributor>'
        '<category domain="d">cat</category><dc:subject>s</dc:subject><itunes:keywords>a, b</itunes:keywords><itunes:category text="x"><itunes:category text="y"/></itunes:category><media:keywords>k1, k2</media:keywords>'
        '<generator uri="g">gen</generator><atom:generator uri="g" version="1">G</atom:generator><admin:generatorAgent rdf:resource="r"/><admin:errorReportsTo rdf:resource="r"/>'
        '<image><url>u</url><title>t</title><link>l</link><width>1</width><height>2</height><description>d</description></image><itunes:image href="h"/><textInput><title>t</title><name>n</name><link>l</link><description>d</description></textInput>'
        '<cloud domain="d" port="80"/><copyright>c</copyright><atom:rights>r</atom:rights><atom:subtitle>st</atom:subtitle><atom:summary>sm</atom:summary><atom:content type="html">ct</atom:content><atom:id>i</atom:id><guid>g</guid><guid isPermaLink="false">g2</guid>'
        '<enclosure url="u" length="1" type="t"/><atom:link rel="enclosure" href="e"/><atom:link rel="license" href="lic"/><cc:license rdf:resource="lr"/><creativeCommons:license>cl</creativeCommons:license>'
        '<source url="su">S</source><atom:source><atom:title>st</atom:title><atom:link href="sl"/><atom:author><atom:name>sn</atom:name></atom:author></atom:source><comments>c</comments><docs>d</docs><ttl>5</ttl>'
        '<pubDate>Thu, 01 Jan 2004 19:48:21 GMT</pubDate><dc:date>2004-01-01</dc:date><atom:updated>2004-01-01T00:00:00Z</atom:updated><atom:published>2004</atom:published><dcterms:created>2004</dcterms:created><dcterms:valid>start=2004;end=2005</dcterms:valid><expirationDate>2005</expirationDate>'
        '<itunes:author>ia</itunes:author><itunes:owner><itunes:name>on</itunes:name><itunes:email>oe@x</itunes:email></itunes:owner><itunes:explicit>yes</itunes:explicit><itunes:block>yes</itunes:block><itunes:subtitle>is</itunes:subtitle><itunes:summary>isum</itunes:summary>'
        '<media:content url="mu"><media:title>mt</media:title><media:description>md</media:description><media:credit role="r">mc</media:credit><media:thumbnail url="tu"/><media:player url="pu"/><media:rating scheme="s">r</media:rating><media:restriction relationship="allow">us</media:restriction><media:license href="lh">ml</media:license></media:content><media:group><media:content url="g1"/></media:group><media:thumbnail url="t2"/>'
        '<georss:point>1 2</georss:point><georss:line>1 2 3 4</georss:line><georss:where><gml:Point><gml:pos>1 2</gml:pos></gml:Point></georss:where><georss:box>1 2 3 4</georss:box>'
        '<psc:chapters><psc:chapter start="0:01" title="c"/></psc:chapters><itunes:new-feed-url>nf</itunes:new-feed-url><newLocation>nl</newLocation><language>en</language><dc:language>fr</dc:language><dc:rights>dr</dc:rights><dc:title>dt</dc:title><dc:description>dd</dc:description>'
        '<xhtml:body>xb</xhtml:body><body>b</body><fullitem>f</fullitem><content:encoded xmlns:content="http://purl.org/rss/1.0/modules/content/">ce</content:encoded><abstract>ab</abstract><info>inf</info><tagline>tl</tagline><prodlink>p</prodlink><tags>t1 t2</tags>')


def collision_cases(full):
    """(label, document): element K in four shapes (attributes only, text only, both, empty) at feed level, entry level or both, INSIDE a link / author element or before a document
    that exercises every handler family, RSS and Atom.  `full`: every combination; otherwise the two shapes that replace the key's value, at both levels"""
    shapes = ['<%s a="b"/>', "<%s>zz</%s>", '<%s a="b">zz</%s>', "<%s/>"] if full else ['<%s a="b"/>', "<%s>zz</%s>"]
    wheres = ("feed", "item", "both") if full else ("both",)
    for k in COLLIDE_KEYS:
        for sh in shapes:
            shape = sh % ((k, k) if sh.count("%s") == 2 else (k,))
            for where in wheres:
                f = shape if where in ("feed", "both") else ""
                i = shape if where in ("item", "both") else ""
                yield "%s/%s/rss" % (k, where), '<rss version="2.0" %s><channel>%s%s<item>%s%s</item><item>%s</item></channel></rss>' % (COLLIDE_NS, f, COLLIDE_RICH, i, COLLIDE_RICH, COLLIDE_RICH)
                yield "%s/%s/atom" % (k, where), '<feed xmlns="http://www.w3.org/2005/Atom" %s>%s%s<entry>%s%s</entry></feed>' % (COLLIDE_NS, f, COLLIDE_RICH.replace("atom:", ""), i, COLLIDE_RICH.replace("atom:", ""))
            # the same element INSIDE an open link / author / contributor / generator / source element (between its start and its end handler)
            for outer in ("link", "author", "atom:author", "atom:contributor", "generator", "atom:source", "image", "category"):
                yield "%s/inside-%s" % (k, outer), '<rss version="2.0" %s><channel><%s>%sx<atom:name>n</atom:name></%s><item><%s>%sy</%s></item></channel></rss>' % (COLLIDE_NS, outer, shape, outer, outer, shape, outer)


SURR_DOCS = {
    "rss": '<rss version="2.0" %s><channel>%s<item>%s</item></channel></rss>' % (COLLIDE_NS, COLLIDE_RICH, COLLIDE_RICH),
    "atom": '<feed xmlns="http://www.w3.org/2005/Atom" %s>%s<entry>%s<title type="application/octet-stream">PHA+SGk8L3A+</title><content type="application/octet-stream" mode="base64">PHA+SGk8L3A+</content>'
            '<summary type="xhtml"><div xmlns="http://www.w3.org/1999/xhtml">x <a href="r" title="t">y</a></div></summary><content type="html">&lt;a href="r"&gt;z&lt;/a&gt;</content></entry></feed>'
            % (COLLIDE_NS, COLLIDE_RICH.replace("atom:", ""), COLLIDE_RICH.replace("atom:", "")),
    "json": '{"version": "https://jsonfeed.org/version/1", "title": "T", "home_page_url": "http://e/", "author": {"name": "n", "url": "u"}, "items": [{"id": "1", "title": "t", "url": "u", '
            '"content_html": "<p>h</p>", "summary": "s", "date_published": "2004-01-01T00:00:00Z", "tags": ["a"], "attachments": [{"url": "au", "mime_type": "m"}], "author": {"name": "an"}}]}',
}
SURR_CODECS = ["utf-7", "unicode_escape", "raw_unicode_escape", "unicode-escape", "UTF7"]


def surrogate_cases(full):
    """(label, bytes, headers, form): a LONE SURROGATE — which no codec can encode — at every text / attribute-value position of a document that uses every handler family
    (the str and text-stream delivery forms), as a JSON escape, and produced by the codecs that decode to lone surrogates (utf-7, unicode_escape) under a header / a declaration"""
    for name, doc in SURR_DOCS.items():
        if name == "json":
            pos = [i + 1 for i, ch in enumerate(doc) if ch == '"' and doc[i - 2:i] == ': ' or ch == '"' and doc[i - 1] == "["]
        else:
            pos = [i + 1 for i, ch in enumerate(doc[:-1]) if (ch == ">" and doc[i + 1] != "<") or (ch == '"' and doc[i - 1] == "=")]
        step = 1 if full else 2
        for n, i in enumerate(pos):
            if n % step and not doc[max(0, i - 40):i].count("octet-stream"):
                continue
            sur = ["\ud800", "\udfff", "\udc80"][n % 3]
            t = doc[:i] + sur + doc[i:]
            yield "%s/text/%d" % (name, n), t.encode("utf-8", "surrogatepass"), None, ("str-pass" if n % 4 < 3 else "textstream-pass")
            if full or n % 3 == 0 or doc[max(0, i - 40):i].count("octet-stream"):
                # …and BEYOND the 8192-character prefix (the prefix is re-encoded, the rest of a text stream reaches the parsers as it is)
                j = doc.index("{") + 1 if name == "json" else doc.index(">") + 1
                pad = " " * 9000 if name == "json" else "<!-- " + "pad " * 2200 + "-->"
                yield "%s/text-beyond-prefix/%d" % (name, n), (t[:j] + pad + t[j:]).encode("utf-8", "surrogatepass"), None, ("str-pass" if n % 4 < 2 else "textstream-pass")
        if name == "json":
            for esc in ('\\ud800', '\\udfff x', '\\ud800\\ud800'):
                for i in pos[:: (1 if full else 3)]:
                    yield "json/escape", (doc[:i] + esc + doc[i:]).encode("ascii"), {"content-type": "application/json"}, "bytes"
    for cs in SURR_CODECS:
        payloads = {"utf-7": "+2AA-", "UTF7": "+3/8-"}.get(cs, "\\ud800")
        for pad in (0, 70000):
            body = '<rss version="2.0"><channel><title>a%sb</title><item><title>%s%s</title><description>d%s</description></item></channel></rss>' % (payloads, "x" * pad, payloads, payloads)
            yield "codec/%s/header/%d" % (cs, pad), body.encode("ascii"), {"content-type": "text/xml; charset=%s" % cs}, "stream"
            yield "codec/%s/decl/%d" % (cs, pad), ('<?xml version="1.0" encoding="%s"?>' % cs + body).encode("ascii"), {"content-type": "application/xml"}, "bytes"
            yield "codec/%s/decl-nohdr/%d" % (cs, pad), ('<?xml version="1.0" encoding="%s"?>' % cs + body).encode("ascii"), None, "short"


def label_cases(full):
    """(label, bytes, headers, form): EVERY spelling Python's codec registry knows for the encodings whose decoding depends on a BOM or on state (UTF-16 / UTF-32 / UTF-7 / UTF-8-SIG / HZ /
    ISO-2022-*), and for the codecs that are not text encodings at all, named in the Content-Type header or in the XML declaration, for a document below and beyond the 64 KiB detection
    prefix, encoded with that codec (with and without a BOM) or left in ASCII.  `full`: every alias of every codec"""
    import encodings.aliases as ea
    fam = ("utf_16", "utf_32", "utf_7", "utf_8_sig", "hz", "iso2022", "base64", "hex", "rot", "zlib", "bz2", "uu", "quopri", "idna", "punycode", "unicode_escape", "raw_unicode_escape",
           "undefined", "mbcs", "oem", "charmap", "unicode_internal", "utf_8", "cp037", "cp1026")
    labels = set()
    for alias, target in ea.aliases.items():
        if full or target.startswith(fam):
            labels.update((alias, target, alias.replace("_", "-"), target.replace("_", "-")))
    labels.update(["utf-16", "utf-32", "UTF-16", "Utf16", "u16", "u32", "U8", "utf-7", "unicode-1-1-utf-7", "unicode_escape", "x-user-defined", "utf-16-le", "utf16le", "ucs-2", "ucs-4", "ISO-10646-UCS-2", "csUnicode"])
    item = "<item><title>x &#233; y</title><description>d</description></item>"
    for lab in sorted(labels):
        for pad in ((0, 1200) if True else (0,)):             # 1200 items of 58 characters: beyond 64 KiB in every encoding
            body = '<rss version="2.0"><channel><title>t</title>%s</channel></rss>' % (item * (pad + 1))
            decl = '<?xml version="1.0" encoding="%s"?>' % lab
            encs = []
            try:
                encs.append(("own", (decl + body).encode(lab)))
            except Exception:
                pass
            encs.append(("ascii", (decl + body).encode("ascii")))
            if lab.lower().replace("_", "").replace("-", "") in ("utf16", "u16", "utf32", "u32", "ucs2", "ucs4"):
                le = "utf-16-le" if "16" in lab or "2" in lab else "utf-32-le"
                encs.append(("le-no-bom", (decl + body).encode(le)))
                encs.append(("be-no-bom", (decl + body).encode(le.replace("le", "be"))))
            for how, b in encs:
                if pad and not full and how == "ascii" and not lab.lower().startswith(("u", "hz", "iso")):
                    continue
                yield "label/%s/header/%s/%d" % (lab, how, pad), b, {"content-type": "application/xml; charset=%s" % lab}, "stream"
                if not pad or full:
                    yield "label/%s/decl/%s/%d" % (lab, how, pad), b, None, "bytes"


def gen_case(rng, vocab, pref_uri):
    k = rng.random()
    if k < 0.08:
        data, stream = gen_geo(rng), "grammar"
    elif k < 0.16:
        data, stream = gen_entities(rng), "grammar"
    elif k < 0.55:
        data, stream = gen_grammar(rng, vocab, pref_uri).encode("utf-8", "surrogatepass" if False else "replace"), "grammar"
    elif k < 0.75:
        data, stream = gen_mutated_corpus(rng), "corpus-mutation"
    elif k < 0.87:
        data, stream = gen_json(rng), "json"
    else:
        data, stream = gen_binary(rng), "binary"
    headers = gen_headers(rng) if stream != "grammar" or rng.random() < 0.3 else rng.choice([None, {"content-type": "application/xml; charset=utf-8"}])
    if stream == "json" and rng.random() < 0.6:
        headers = dict(headers or {}, **{"content-type": rng.choice(["application/json", "application/feed+json"])})
    return data, headers, rng.random() < 0.5, rng.choice(OPTS), rng.choice(FORMS), stream


def search(ctx, focus=None):
    rng = ctx.rng
    vocab, pref_uri = vocabulary()
    failures, n, distinct = [], 0, set()
    dist = {}
    for _ in range(ctx.n(2500, 60000)):
        data, headers, loose, opts, form, stream = gen_case(rng, vocab, pref_uri)
        n += 1
        distinct.add((data, loose, form))
        dist[stream] = dist.get(stream, 0) + 1
        dist["loose" if loose else "strict-first"] = dist.get("loose" if loose else "strict-first", 0) + 1
        failures += judge(data, headers, loose, opts, form, stream, rng)
    # key collisions: deterministic, every run (both back ends)
    for label, doc in collision_cases(ctx.thorough):
        for loose in (False, True):
            n += 1
            data = doc.encode("utf-8")
            distinct.add((data, loose, "bytes"))
            dist["key-collision"] = dist.get("key-collision", 0) + 1
            failures += judge(data, None, loose, {}, "bytes", "key-collision", rng)
    # lone surrogates: deterministic, every run (both back ends; options alternate)
    for j, (label, data, headers, form) in enumerate(surrogate_cases(ctx.thorough)):
        for loose in (False, True):
            n += 1
            distinct.add((data, loose, form))
            dist["lone-surrogate"] = dist.get("lone-surrogate", 0) + 1
            failures += judge(data, headers, loose, OPTS[j % len(OPTS)], form, "lone-surrogate", rng)
    # encoding labels: deterministic, every run
    for j, (label, data, headers, form) in enumerate(label_cases(ctx.thorough)):
        n += 1
        distinct.add((data, j % 2 == 0, form, str(headers)))
        dist["encoding-label"] = dist.get("encoding-label", 0) + 1
        failures += judge(data, headers, j % 2 == 0, [{}, {"optimistic_encoding_detection": False}, {}][j % 3], form, "encoding-label", rng)
    dist["handler_vocabulary"] = len(vocab)
    return {"evaluations": n, "distinct_nontrivial": len(distinct), "failures": failures, "distribution": dist,
            "rule": "ENCODING LABELS (deterministic, every run): every spelling the codec registry knows for the BOM- or state-dependent encodings and for the non-text codecs (thorough: every alias of every codec), in the header or the XML declaration, document below and beyond the 64 KiB prefix, encoded with that codec / without BOM in either byte order / plain ASCII; LONE SURROGATES (deterministic, every run): a lone surrogate at the text / attribute-value positions of an RSS, an Atom (incl. base64 and inline-XHTML constructs) and a JSON document that use every handler family, handed over as str and as text stream; as a JSON escape; and produced by the codecs that decode to lone surrogates (utf-7, unicode_escape, raw_unicode_escape) named in a header or an XML declaration, below and beyond the detection prefix; KEY COLLISIONS (deterministic, every run): an element named like each of %d keys the handlers keep their own data under, as attributes-only / text-only (thorough: + both, empty; feed, entry or both levels), before a document that uses every handler family (RSS and Atom) and inside an open link / author / contributor / generator / source / image / category element, both back ends; " % len(COLLIDE_KEYS) +
                    "GeoRSS / GML geometries x srsDimension / srsName x 0-9 ordinates; DOCTYPE internal subsets declaring entities of every value shape (incl. malformed character references) referenced in the content; four input streams: (1) grammar fuzz over the handler vocabulary read from the tree (every _start_/_end_ name mapped back to prefix:local; random nesting, attributes, "
                    "text classes incl. numbers, dates, references of every class, CDATA, markup; balanced and unbalanced / unclosed / stray-end-tag / mismatched / self-nested), "
                    "(2) byte-level mutations of the repository's test corpus, (3) JSON of arbitrary shape incl. wrong types at every documented key, (4) arbitrary binary with every BOM "
                    "and declared / undeclared encodings; x response_headers alphabets x both back ends x the 8 option combinations (+ defaults) x delivery {bytes, BytesIO, short-read "
                    "non-seekable stream, str}; oracle: returns normally, shape keys present, bozo <-> bozo_exception, no bytes reachable; identity: (exception type, innermost feedparser function)",
            "samples": [{"stream": "grammar"}]}


def correspondence(ctx):
    rng = ctx.rng
    docs = []
    structural = ["rss", "channel", "item", "feed", "entry", "x:a", "y:b", "foo", "bar"]
    for _ in range(ctx.n(200, 3000)):
        parts = []
        stack = []
        for _i in range(rng.randint(1, 14)):
            k = rng.random()
            if k < 0.45:
                t = rng.choice(structural)
                a = "".join(' %s="%s"' % (an, rng.choice(["1", "v w", "http://e.example/"])) for an in rng.sample(["a", "b", "version", "xml:lang"], rng.choice([0, 0, 1, 2])))
                parts.append("<%s%s>" % (t, a))
                stack.append(t)
            elif k < 0.75:
                parts.append("</%s>" % (stack.pop() if stack and rng.random() < 0.6 else rng.choice(structural)))
            else:
                parts.append(rng.choice(["text", " ", "more words", "12"]))
        docs.append(('<r xmlns:x="urn:x-ext:stuff" xmlns:y="http://unknown.example/ns#">' + "".join(parts)).encode("utf-8"))
    res = mixlib.corr(ctx, docs, {"content-type": "application/xml; charset=utf-8"}, loose_p=1.0)
    import apilib
    r2 = apilib.corr(ctx)
    res["cases"] += r2["cases"]
    res["distinct"] += r2["distinct"]
    res["disagreements"] += r2["disagreements"]
    res["distribution"]["api"] = r2["distribution"]
    return res


def replay(w):
    fs = judge(w["data"], w["headers"], w["loose"], w["opts"], w["form"], w.get("stream", "?"))
    return (bool(fs), fs[0].what if fs else "returns normally with a well-shaped result")


TECHNIQUE = "Lean 4 proof: invariants of the handler machine model that rule out its failure points (entries[-1], empty element stack) for EVERY event sequence + result-shape and bozo-pairing theorems on a model of parse()'s result assembly + correspondence of both models + grammar / mutation / JSON / binary fuzzing with crash-site identity"
LEVEL_TEXT = ("Kernel-checked: on M-mixin (stages 1-4: structural handlers, the no-handler fallback, date elements, text constructs, summary / description / content, link and guid / id) inentry_has_entry (every reachable state with inentry set has a last entry: the entries[-1] of _get_context cannot raise), "
              "step_total (a step never gets stuck on structural / handler-less vocabulary: every event, however unbalanced the arrangement, yields a state), content_has_params (an open text "
              "construct always has content parameters: the contentparams.get('type') of _end_content is never None); lg_start_total / lg_end_total (every start and end tag of the hand-modelled handlers of stages 4, 5, 7 -- link, guid / id, category, enclosure, author with its children, contributor, publisher, owner, cloud, generator -- "
              "yields a state in ANY state outside a text construct: the handlers are total in the model, table_kinds_ok) -- "
              "modelling pop('link') is what exposed the links[-1] crash repaired in 1ddbe04; on M-api shape_always / "
              "shape_nonempty / bozo_iff_exception (for every combination of stage outcomes the assembled result has the promised keys and bozo is set exactly when an exception is attached).")
LEVEL_NOTE = ("Trusted: Lean kernel + standard axioms; library exception contracts; the dedicated extension handlers are outside the theorems -- the fuzzer covers them and every crash "
              "site found is either fixed in /repo or listed as a known finding keyed by (exception type, innermost feedparser function).")
