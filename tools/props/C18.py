"""C18 — per-call options override module defaults; each option does only its job."""
import itertools
import unittest.mock as mock
import warnings

import vlib
from vlib import Finding

LEAN_MODULES = ["FeedVerif.Props.C18", "FeedVerif.Model.OptionsDriver", "FeedVerif.Model.MixinDriver"]
CORR_OBLIGATIONS = ["M-mixin (stage 2) ~ the real pop() on title and the text-construct elements: content type, value and *_detail after the guess / resolver / sanitizer steps, whose answers (and the per-call options) are passed to the model as parameters",
                    "M-api.resolveOpts ~ observed effective options of parse() over the whole 27 x 8 x 2 grid",
                    "M-api.postMarkup ~ which of resolve_relative_uris / sanitize_html pop() calls, in which order",
                    "call pairs: the second call's effective options do not depend on the first call"]
TRUSTED = ["Lean model FeedVerif/Model/Options.lean of api.py:251-259 and mixin.py:568-587 (the two markup transformers are parameters)"]
ASSUMPTIONS = ["effective options are observed through spies on convert_file_to_utf8 / resolve_relative_uris / sanitize_html installed by mock.patch from the harness"]

ARGS = [None, True, False]
FLAGVALS = [0, 1]
BASE = "http://base.example/dir/"
XBASE = "http://other.example/sub/"
PROBE_MARKUP = '<a href="rel/x" onclick="evil()">t</a><a href="javascript:x">j</a>'
EXPECT = {  # (sanitize, resolve, allowlist_default) -> value
    (False, False, True): PROBE_MARKUP,
    (False, False, False): PROBE_MARKUP,
    (False, True, True): '<a href="http://base.example/dir/rel/x" onclick="evil()">t</a><a href="">j</a>',
    (False, True, False): '<a href="http://base.example/dir/rel/x" onclick="evil()">t</a><a href="javascript:x">j</a>',
    (True, False, True): '<a href="rel/x">t</a><a href="">j</a>',
    (True, False, False): '<a href="rel/x">t</a><a href="javascript:x">j</a>',
    (True, True, True): '<a href="http://base.example/dir/rel/x">t</a><a href="">j</a>',
    (True, True, False): '<a href="http://base.example/dir/rel/x">t</a><a href="javascript:x">j</a>',
}


def esc(s):
    return s.replace("&", "&amp;").replace("<", "&lt;").replace(">", "&gt;")


def probe_docs():
    m = esc(PROBE_MARKUP)
    return {
        "rss": ('<rss version="2.0"><channel><title>t</title><link>feedlink</link><item><link>itemlink</link>'
                '<description>%s</description></item></channel></rss>' % m).encode(),
        "atom": ('<feed xmlns="http://www.w3.org/2005/Atom"><title>t</title><link href="feedlink"/><entry><link href="itemlink"/>'
                 '<content type="html">%s</content></entry></feed>' % m).encode(),
        "atom-cdata": ('<feed xmlns="http://www.w3.org/2005/Atom"><title>t</title><link href="feedlink"/><entry><link href="itemlink"/>'
                       '<summary type="html"><![CDATA[%s]]></summary></entry></feed>' % PROBE_MARKUP).encode(),
        # a subtree re-based with xml:base: element-level URIs inside it are resolved against the base in scope whatever resolve_relative_uris says
        "atom-xmlbase": ('<feed xmlns="http://www.w3.org/2005/Atom"><title>t</title><link href="feedlink"/><entry xml:base="%s"><link href="itemlink"/>'
                         '<content type="html">%s</content></entry></feed>' % (XBASE, m)).encode(),
        # ill-formed twins: the strict parser gives up (an unclosed element before the end) and the fallback parser produces the result -- the options are per call there too
        "rss-illformed": ('<rss version="2.0"><channel><title>t</title><link>feedlink</link><item><link>itemlink</link>'
                          '<description>%s</description></item><trailer></channel></rss>' % m).encode(),
        "atom-illformed": ('<feed xmlns="http://www.w3.org/2005/Atom"><title>t</title><link href="feedlink"/><entry><link href="itemlink"/>'
                           '<content type="html">%s</content></entry><trailer></feed>' % m).encode(),
        # fields whose DEFAULT type is text/plain: the non-Atom formats guess "this is HTML" from the text (looks_like_html) -- the guess, and with it the
        # type and the markup steps, must not depend on either option
        "rss-title": ('<rss version="2.0"><channel><title>t</title><link>feedlink</link><item><link>itemlink</link>'
                      '<title>%s</title></item></channel></rss>' % m).encode(),
        "rss-rights": ('<rss version="2.0"><channel><title>t</title><link>feedlink</link><copyright>%s</copyright><item><link>itemlink</link>'
                       '</item></channel></rss>' % m).encode(),
        "rss-xmlbase": ('<rss version="2.0"><channel><title>t</title><link>feedlink</link><item xml:base="%s"><link>itemlink</link>'
                        '<description>%s</description></item></channel></rss>' % (XBASE, m)).encode(),
    }


def run_config(doc, args, flags, allow_default):
    """parse once under a configuration; returns observations"""
    import feedparser
    import feedparser.api as api
    import feedparser.mixin as mixin
    import feedparser.urls as urls
    saved = (feedparser.SANITIZE_HTML, feedparser.RESOLVE_RELATIVE_URIS, feedparser.OPTIMISTIC_ENCODING_DETECTION, urls.ACCEPTABLE_URI_SCHEMES)
    seen = {"optimistic": None, "calls": []}
    real_conv = api.convert_file_to_utf8
    real_res, real_san = mixin.resolve_relative_uris, mixin.sanitize_html

    def conv(headers, file, result, optimistic=True):
        seen["optimistic"] = optimistic
        return real_conv(headers, file, result, optimistic)

    def res(*a, **k):
        seen["calls"].append("resolve")
        return real_res(*a, **k)

    def san(*a, **k):
        seen["calls"].append("sanitize")
        return real_san(*a, **k)
    try:
        feedparser.SANITIZE_HTML, feedparser.RESOLVE_RELATIVE_URIS, feedparser.OPTIMISTIC_ENCODING_DETECTION = flags
        if not allow_default:
            urls.ACCEPTABLE_URI_SCHEMES = ()
        kw = {}
        for name, a in zip(("sanitize_html", "resolve_relative_uris", "optimistic_encoding_detection"), args):
            kw[name] = a
        with mock.patch.object(api, "convert_file_to_utf8", conv), mock.patch.object(mixin, "resolve_relative_uris", res), \
                mock.patch.object(mixin, "sanitize_html", san), warnings.catch_warnings():
            warnings.simplefilter("ignore")
            r = feedparser.parse(doc, response_headers={"content-location": BASE}, **kw)
        flags_after = (feedparser.SANITIZE_HTML, feedparser.RESOLVE_RELATIVE_URIS, feedparser.OPTIMISTIC_ENCODING_DETECTION)
    finally:
        feedparser.SANITIZE_HTML, feedparser.RESOLVE_RELATIVE_URIS, feedparser.OPTIMISTIC_ENCODING_DETECTION, urls.ACCEPTABLE_URI_SCHEMES = saved
    e = r.entries[0] if r.entries else {}
    val = None
    if "content" in e:
        val = e["content"][0]["value"]
    elif "summary" in e:
        val = e["summary"]
    elif "title" in e:
        val = e["title"]
        if e.get("title_detail", {}).get("type") != "text/html":
            val = "<type %r> %s" % (e.get("title_detail", {}).get("type"), val)
    elif "rights" in r.feed:
        val = r.feed["rights"]
        if r.feed.get("rights_detail", {}).get("type") != "text/html":
            val = "<type %r> %s" % (r.feed.get("rights_detail", {}).get("type"), val)
    return {"value": val, "entry_link": e.get("link"), "feed_link": r.feed.get("link"), "optimistic": seen["optimistic"],
            "calls": seen["calls"], "flags_after": flags_after, "bozo": r.bozo}


def expected_eff(args, flags):
    return tuple(a if a is not None else bool(f) for a, f in zip(args, flags))


def enc_arg(a):
    return "N" if a is None else "T" if a else "F"


def grid():
    for args in itertools.product(ARGS, repeat=3):
        for flags in itertools.product(FLAGVALS, repeat=3):
            for allow_default in (True, False):
                yield args, flags, allow_default


def observed_eff(obs, allow_default):
    """derive (sanitize, resolve, optimistic) from what the implementation did"""
    v = obs["value"]
    for (s, r, ad), exp in EXPECT.items():
        if ad == allow_default and v == exp:
            return (s, r, obs["optimistic"])
    return None


def correspondence(ctx):
    docs = probe_docs()
    lines, exp, meta = [], [], []
    dist = {"grid": 0, "pairs": 0, "post": 0}
    for args, flags, ad in grid():
        obs = run_config(docs["rss"], args, flags, ad)
        oe = observed_eff(obs, ad)
        lines.append("opts eff %s %s %s %d %d %d" % (enc_arg(args[0]), enc_arg(args[1]), enc_arg(args[2]), flags[0], flags[1], flags[2]))
        exp.append("? value=%r" % obs["value"] if oe is None else "%d %d %d" % (oe[0], oe[1], oe[2]))
        meta.append({"args": args, "flags": flags, "allow_default": ad})
        dist["grid"] += 1
        # which transformers ran on the description (element 'description' is in both sets, html-ish)
        lines.append("opts post %d %d 1 1 1" % (oe[0], oe[1]) if oe else "opts post 0 0 1 1 1")
        calls = [c for c in obs["calls"]]
        # title 't' is text/plain: never post-processed, so all recorded calls belong to the description
        exp.append(" ".join(["start"] + calls))
        meta.append({"args": args, "flags": flags, "allow_default": ad, "what": "transformer calls"})
        dist["post"] += 1
    # call pairs: config A then config B in the same process; B must equal its stand-alone answer
    cfgs = list(grid())
    npairs = ctx.n(250, 4000)
    for _ in range(npairs):
        a, b = ctx.rng.choice(cfgs), ctx.rng.choice(cfgs)
        run_config(docs["atom"], *a)
        obs = run_config(docs["atom"], *b)
        oe = observed_eff(obs, b[2])
        lines.append("opts eff %s %s %s %d %d %d" % (enc_arg(b[0][0]), enc_arg(b[0][1]), enc_arg(b[0][2]), b[1][0], b[1][1], b[1][2]))
        exp.append("? value=%r" % obs["value"] if oe is None else "%d %d %d" % (oe[0], oe[1], oe[2]))
        meta.append({"first": a, "second": b})
        dist["pairs"] += 1
    got = vlib.run_driver(lines)
    dis = [{"input": m, "line": l, "model": g, "impl": e} for g, e, m, l in zip(got, exp, meta, lines) if g != e][:20]
    res = {"cases": len(lines), "distinct": len(set(zip(lines, map(str, meta)))), "unmodelled": 0, "disagreements": dis,
            "distribution": dist, "samples": [{"line": lines[0], "impl": exp[0]}, {"line": lines[1], "impl": exp[1]}]}
    import mixlib
    return mixlib.content_corr(ctx, ctx.n(120, 1500), into=res)


def check_config(docname, args, flags, ad, first=None):
    docs = probe_docs()
    if first is not None:
        run_config(docs[docname], *first)
    obs = run_config(docs[docname], args, flags, ad)
    s, r, o = expected_eff(args, flags)
    ebase = XBASE if docname.endswith("xmlbase") else BASE
    EXPECT = {k: v.replace(BASE, ebase) for k, v in globals()["EXPECT"].items()}
    w = {"doc": docname, "args": list(args), "flags": list(flags), "allow_default": ad, "first": first}
    pre = "after a call with %r: " % (first,) if first else ""
    if obs["value"] != EXPECT[(s, r, ad)]:
        which = "sanitize" if (obs["value"] in (EXPECT[(not s, r, ad)],)) else "resolve" if obs["value"] == EXPECT[(s, not r, ad)] else "markup"
        return Finding(("option", which, "leak" if first else "grid"), w,
                       "%sparse(sanitize_html=%r, resolve_relative_uris=%r) with flags %r, allow-list %s: HTML value is %r, expected %r" % (
                           pre, args[0], args[1], flags, "default" if ad else "()", obs["value"], EXPECT[(s, r, ad)]),
                       observed=obs["value"], expected=EXPECT[(s, r, ad)], oracle="constructed from the probe document and the property's resolution rule")
    if obs["optimistic"] != o:
        return Finding(("option", "optimistic", "leak" if first else "grid"), w,
                       "%soptimistic_encoding_detection=%r with flag %r: convert_file_to_utf8 received %r" % (pre, args[2], flags[2], obs["optimistic"]))
    if obs["entry_link"] != ebase + "itemlink" or obs["feed_link"] != BASE + "feedlink":
        return Finding(("option", "element-uri"), w, "element-level link not resolved: entry %r feed %r" % (obs["entry_link"], obs["feed_link"]))
    if tuple(obs["flags_after"]) != tuple(flags):
        return Finding(("option", "flags-written"), w, "parse() changed the module flags to %r" % (obs["flags_after"],))
    return None


def search(ctx, focus=None):
    failures, n, distinct = [], 0, set()
    for docname in ("rss", "atom", "atom-cdata", "atom-xmlbase", "rss-xmlbase", "rss-illformed", "atom-illformed", "rss-title", "rss-rights"):
        for args, flags, ad in grid():
            n += 1
            distinct.add((docname, args, flags, ad))
            f = check_config(docname, args, flags, ad)
            if f:
                failures.append(f)
    cfgs = list(grid())
    pairs = ctx.n(600, 0)
    if ctx.thorough:
        todo = [(a, b) for a in cfgs[::1] for b in cfgs[::7]]
    else:
        todo = [(ctx.rng.choice(cfgs), ctx.rng.choice(cfgs)) for _ in range(pairs)]
    # flag-change pairs with None arguments are the interesting ones: make sure they are all there
    for fa in itertools.product(FLAGVALS, repeat=3):
        for fb in itertools.product(FLAGVALS, repeat=3):
            todo.append((((None, None, None), fa, True), ((None, None, None), fb, True)))
    for a, b in todo:
        n += 1
        distinct.add((a, b))
        f = check_config("atom", b[0], b[1], b[2], first=a)
        if f:
            failures.append(f)
    # truthiness of exotic flag values
    for fv in ("", "x", [], [0], None, 2, 0.0):
        n += 1
        f = check_config("rss", (None, None, None), (fv, fv, fv), True)
        distinct.add(("truthy", repr(fv)))
        if f:
            failures.append(f)
    return {"evaluations": n, "distinct_nontrivial": len(distinct), "failures": failures, "exhaustive": True,
            "rule": "all 27 argument triples x 8 flag triples x scheme allow-list {default, ()} on nine probe documents (RSS escaped, Atom escaped, Atom CDATA, Atom / RSS with the entry re-based by xml:base, RSS / Atom made ill-formed so that the fallback parser answers, RSS item title and channel copyright -- fields whose default type is text/plain and whose HTML-ness is guessed from the text: the reported type must stay text/html), "
                    "each compared with the value constructed from the probe (event-handler attribute present iff sanitize off; embedded relative href resolved iff "
                    "resolve on; javascript: href blanked iff allow-list default; element links always resolved; flags unchanged afterwards); plus call pairs "
                    "(all 64 flag-change pairs with None arguments + %s random/strided pairs) and exotic truthy/falsy flag values; every configuration is distinct" % ("strided" if ctx.thorough else pairs),
            "samples": [{"args": [None, True, False], "flags": [0, 1, 1], "allow_default": True, "expected": EXPECT[(False, True, True)]}]}


def replay(w):
    first = w.get("first")
    if first is not None:
        first = (tuple(first[0]), tuple(first[1]), first[2])
    f = check_config(w["doc"], tuple(w["args"]), tuple(w["flags"]), w["allow_default"], first=first)
    return (f is not None, f.what if f else "configuration behaves as the property states")


TECHNIQUE = "Lean 4 proof of the option-resolution / conditional post-processing decision logic and of no-leak over all call histories; exhaustive correspondence over the finite configuration grid"
LEVEL_TEXT = ("Kernel-checked: option_resolution, grid_exhaustive (all 27 x 8 cases), call_sees_only_args_and_current_flags (every history of flag writes and "
              "calls, by induction), sanitize_off_as_authored, resolve_off_markup_uris_untouched, both_off_identity, plain_text_untouched, "
              "element_uri_independent_of_options, empty_allowlist (from M-uri); on the real pop() chain of M-mixin (contentOutput): sanitize_off_ignores_sanitizer, sanitize_option_only_sanitizes, "
              "resolve_off_ignores_resolver, resolve_option_only_resolves, element_uri_resolved_regardless, type_guess_ignores_options (the reported content type -- the plain-text-or-HTML "
              "guess included -- depends on neither option). Tie: the whole 432-configuration grid and call pairs are run on the real "
              "parse() with spies; observed effective options and transformer call order are compared with the model.")
LEVEL_NOTE = ("Trusted: Lean kernel + standard axioms; the spies (mock.patch of feedparser.api.convert_file_to_utf8, feedparser.mixin.resolve_relative_uris / "
              "sanitize_html); the markup transformers themselves are parameters here (C03/C04/C13 speak about them).")
