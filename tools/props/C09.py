"""C09 — dates in every supported format parse to the right UTC instant; dispatcher semantics."""
import datetime
import os
import time
import warnings

import vlib
from vlib import Finding, enc
from oracles import civil

LEAN_MODULES = ["FeedVerif.Props.C09", "FeedVerif.Model.DateDriver"]
CORR_OBLIGATIONS = ["M-date.parseRfc822 ~ _parse_date_rfc822", "M-date.parseW3dtf ~ _parse_date_w3dtf", "M-date.parseAsctime ~ _parse_date_asctime",
                    "M-date.ord2ymd / ymd2ord ~ datetime.date.fromordinal / toordinal", "M-date.dispatch ~ _parse_date over scripted handler lists"]
TRUSTED = ["Lean models FeedVerif/Model/Civil.lean (Python's _ymd2ord/_ord2ymd transcribed) and Model/Date.lean (handlers on ASCII input)",
           "Python int()/float()/str.split/str.lower on ASCII as transcribed; datetime/timedelta arithmetic as modelled by `shift`"]
ASSUMPTIONS = ["ISO 8601, Perforce (email.utils) and the Greek/Hungarian/Korean front-ends are not modelled in Lean yet: they are covered by the oracle search only",
               "float() inputs carry at most 15 significant digits (exact decimal arithmetic in the model)"]

ZONES = ["GMT", "UT", "Z", "EST", "EDT", "CST", "CDT", "MST", "MDT", "PST", "PDT", "A", "M", "N", "Y", "AT", "ET", "CT", "MT", "PT"]


def rand_instant(rng):
    r = rng.random()
    if r < 0.15:      # year / month / leap boundaries
        y = rng.choice([1, 2, 99, 100, 400, 999, 1000, 1582, 1600, 1899, 1900, 1969, 1970, 1990, 1999, 2000, 2004, 2038, 2089, 2090, 2100, 2400, 9998, 9999])
        m, d = rng.choice([(1, 1), (2, 28), (3, 1), (12, 31), (2, 28), (6, 30), (7, 1)])
        base = civil.days_from_civil(y, m, d) * 86400
        return max(0, min(civil.MAX_INSTANT, base + rng.choice([0, 1, 86399, 86400, -1, 43200, rng.randrange(86400)]) + rng.choice([0, 86400])))
    if r < 0.5:
        return rng.randrange(civil.days_from_civil(1990, 1, 1) * 86400, civil.days_from_civil(2090, 1, 1) * 86400)
    return rng.randrange(0, civil.MAX_INSTANT + 1)


def rand_offset(rng):
    r = rng.random()
    if r < 0.3:
        return 0
    if r < 0.5:
        return rng.choice([-840, 840, -1, 1, -59, 59, -30, 30, -45, 45, 60, -60, 330, 345, 765, -570, 540])
    return rng.randrange(-840, 841)


def renderings(rng, t, o):
    """list of (format-name, variant, string) renderings of instant t at offset o (those that exist)"""
    out = []
    def add(name, var, s):
        if s is not None:
            out.append((name, var, s))
    zn = rng.choice(ZONES)
    zoff = civil.NAMED_ZONES[zn] * 60
    add("rfc822", "4y-num", civil.r822(t, o))
    add("rfc822", "2y-num", civil.r822(t, o, year2=True))
    add("rfc822", "4y-colon", civil.r822(t, o, zone="colon"))
    add("rfc822", "gmt", civil.r822(t, o, zone="gmt"))
    add("rfc822", "nodayname", civil.r822(t, o, dayname=False))
    add("rfc822", "comma-nospace", civil.r822(t, o, comma_nospace=True))
    add("rfc822", "fullmonth", civil.r822(t, o, month_full=True))
    add("rfc822", "named", civil.r822(t, zoff, zone="name", zname=zn))
    add("rfc822", "named-2y", civil.r822(t, zoff, zone="name", zname=zn, year2=True))
    add("w3dtf", "T-colon", civil.rw3(t, o))
    add("w3dtf", "space-colon", civil.rw3(t, o, sep=" ") if o == 0 else None)
    add("w3dtf", "Z", civil.rw3(t, o, zone="Z"))
    add("w3dtf", "frac", civil.rw3(t, o, frac=rng.choice(["0", "5", "25", "999", "123456"])))
    add("w3dtf", "lowercase", civil.rw3(t, o, zone="Z", case=str.lower))
    add("w3dtf", "date", civil.rw3_dateonly(t, o))
    add("w3dtf", "yyyy-mm", civil.rw3_dateonly(t, o, "month"))
    add("w3dtf", "yyyy", civil.rw3_dateonly(t, o, "year"))
    add("mssql", "frac", civil.rmssql(t, o))
    add("mssql", "nofrac", civil.rmssql(t, o, frac=False))
    add("iso8601", "basic-date", civil.riso_basic(t, o, "date"))
    yd = civil.tuple9(t)[7]
    add("iso8601", "ordinal" if yd > 12 else "ordinal-below-13", civil.riso_basic(t, o, "ordinal"))
    add("iso8601", "ordinal-basic", civil.riso_basic(t, o, "ordinal-basic"))
    add("iso8601", "basic-datetime", civil.riso_basic(t, o, "datetime"))
    add("asctime", "utc", civil.rasctime(t, o))
    add("asctime", "num", civil.rasctime(t, o, zone="num"))
    add("asctime", "named", civil.rasctime(t, zoff, zone="name", zname=zn))
    add("korean", "onblog", civil.rkorean_onblog(t, 540))
    add("korean", "nate", civil.rkorean_nate(t, 540))
    add("greek", "num", civil.rgreek(t, o))
    add("greek", "named", civil.rgreek(t, zoff, zname=zn))
    add("hungarian", "padded", civil.rhungarian(t - t % 60, o))
    add("hungarian", "unpadded", civil.rhungarian(t - t % 60, o, pad=False))
    pz = rng.choice(["GMT", "EST", "EDT", "CST", "CDT", "MST", "MDT", "PST", "PDT"])
    add("perforce", "named", civil.rperforce(t, civil.NAMED_ZONES[pz] * 60, pz))
    return out


def instant_of(name, var, t):
    return t - t % 60 if name == "hungarian" else t


MALFORM = ["", " ", "x", "0", "Thu", "Thu,", "Thu, 01", "01 Jan", "Jan 01 2004", "32 Jan 2004", "01 Foo 2004", "01 Jan 2004 25:00:00", "01 Jan 2004 00:60:00",
           "01 Jan 2004 1:2:3:4", "01 Jan 2004 00:00:00 +05", "01 Jan 2004 00:00:00 +0560", "01 Jan 2004 00:00:00 -99:99", "01 Jan 2004 00:00:00 GMT+", "01 Jan 2004 00:00:00 gmt-05:00",
           "01 Jan 2004 00:00:00 Etc/GMT", "01 Jan 2004 00:00:00 etc/", "1_0 Jan 2004", "+1 Jan 2004", "-1 Jan 2004", "01 Jan -5", "01 Jan 0", "01 Jan 10000", "01 Jan 99999999999999999999",
           "Jan 01 04", "Mon,, 01 Jan 2004 00:00:00 GMT", "Mon,x 01 Jan 2004 00:00:00 GMT", "mon,01 jan 2004 00:00:00 gmt", "2004", "2004-", "2004-13", "2004-00-10", "2004-1-1", "2004-01-01T",
           "2004-01-01T00", "2004-01-01T00:00:00:00", "2004-01-01T1e1:00:00Z", "2004-01-01T0.5e1:00:00Z", "2004-01-01T00:00:00+5", "2004-01-01T00:00:00+05:", "2004-01-01T00:00:00+05:0x",
           "2004-01-01TT00:00:00", "2004-01-01t00:00:00est", "2004-01-01 00:00:00 pst", "2004-01-01 00:00:00 +01:00", "2004-01-01  ", " 2004-01-01", "2004 -01-01t00:00:00", "0000-01-01",
           "9999-12-31T23:59:59-00:01", "0001-01-01T00:00:00+00:01", "2004-01-01T00:00:60Z", "2004-02-30", "2003-02-29", "2004-02-29", "2004-01-01T-1:00:00", "2004-01-01Tnan:00:00", "2004-01-01Tinf:0:0",
           "2004-01-01T1_0:00:00", "2004-01-01T.5:00:00", "2004-01-01T5.:00:00", "2004-01-01T+5:00:00", "20040101", "2004-01-01T00:00:00z z", "Sun Jan  4 16:29:06 2004", "Sun Jan  4 16:29:06 PST 2004",
           "Sun Jan 4 16:29:06 +0100 2004", "Sun 4 Jan 16:29:06 2004", "a b c d e", "a b c d e f", "a b c d e f g", "\x1c2004-01-01", "2004-01-01\x1f", "01\x0bJan\x0c2004"]


def mutate(rng, s):
    if not s:
        return s
    k = rng.random()
    i = rng.randrange(len(s))
    if k < 0.25:
        return s[:i] + s[i + 1:]
    if k < 0.5:
        return s[:i] + rng.choice("0123456789:+-,. TtZz_eE/") + s[i:]
    if k < 0.7:
        return s[:i] + rng.choice("0123456789:+-,. ") + s[i + 1:]
    if k < 0.8:
        return s.upper() if rng.random() < 0.5 else s.lower()
    if k < 0.9:
        parts = s.split()
        rng.shuffle(parts)
        return " ".join(parts)
    return s + rng.choice([" ", " x", "Z", ":00", " GMT", "\n"])


def canon_res(f, s):
    try:
        r = f(s)
    except Exception:
        return "none"
    if not r:
        return "none"
    try:
        return " ".join(str(int(x)) for x in tuple(r))
    except Exception:
        return "?" + repr(r)


def correspondence(ctx):
    from feedparser.datetimes.rfc822 import _parse_date_rfc822
    from feedparser.datetimes.w3dtf import _parse_date_w3dtf
    from feedparser.datetimes.asctime import _parse_date_asctime
    import feedparser.datetimes as DT
    rng = ctx.rng
    H = {"rfc822": _parse_date_rfc822, "w3dtf": _parse_date_w3dtf, "asctime": _parse_date_asctime}
    lines, exp, meta = [], [], []
    dist = {"rfc822": 0, "w3dtf": 0, "asctime": 0, "valid": 0, "none": 0, "nonascii": 0, "ordinal": 0, "dispatch": 0}
    strings = list(MALFORM)
    for _ in range(ctx.n(1200, 20000)):
        t, o = rand_instant(rng), rand_offset(rng)
        for name, var, s in renderings(rng, t, o):
            if name in ("rfc822", "w3dtf", "mssql", "asctime", "iso8601"):
                strings.append(s)
                if rng.random() < 0.5:
                    strings.append(mutate(rng, s))
                if rng.random() < 0.1:
                    strings.append(mutate(rng, mutate(rng, s)))
    for s in strings:
        for name, f in H.items():
            if name == "asctime" and rng.random() < 0.5 and len(s.split()) not in (5, 6):
                continue
            lines.append("date %s %s" % (name, enc(s)))
            if all(ord(c) < 128 for c in s):
                e = canon_res(f, s)
            else:
                e = "unmodelled"
                dist["nonascii"] += 1
            exp.append(e)
            meta.append((name, s))
            dist[name] += 1
            dist["none" if e == "none" else "valid"] += 1
    # civil arithmetic vs datetime
    ords = [1, 2, 365, 366, 367, 730, 1096, 146097, 146098, 36524, 36525, 1461, 1462, 3652059, 3652058, 693596, 719163, 730120]
    ords += [rng.randrange(1, 3652060) for _ in range(ctx.n(3000, 200000))]
    for n in ords:
        d = datetime.date.fromordinal(n)
        lines.append("date ord2ymd %d" % n)
        exp.append("%d %d %d" % (d.year, d.month, d.day))
        meta.append(("ord2ymd", n))
        lines.append("date ymd2ord %d %d %d" % (d.year, d.month, d.day))
        exp.append(str(n))
        meta.append(("ymd2ord", n))
        dist["ordinal"] += 2
    # dispatcher over scripted handlers
    saved = list(DT._date_handlers)
    try:
        for _ in range(ctx.n(300, 5000)):
            k = rng.randrange(0, 6)
            script = [rng.choice(["R", "F", "U", "S:9", "S:8", "S:10", "S:0", "S:1"]) for _ in range(k)]
            hs, toks = [], []
            for i, c in enumerate(script):
                hs.append(make_handler(c, i))
                toks.append(c if ":" not in c else ("F" if c == "S:0" else "%s:%d" % (c, i)))
            DT._date_handlers[:] = []
            for h in reversed(hs):
                DT.registerDateHandler(h)           # registered last = tried first
            empty = rng.random() < 0.1
            try:
                r = DT._parse_date("" if empty else "some date")
                e = "none" if r is None else str(r[0]) if isinstance(r, tuple) and r and isinstance(r[0], int) and len(r) == 9 else "?" + repr(r)
            except Exception as ex:
                e = "raises " + type(ex).__name__
            lines.append("date dispatch %d %s" % (empty, " ".join(toks)))
            exp.append(e)
            meta.append(("dispatch", script, empty))
            dist["dispatch"] += 1
    finally:
        DT._date_handlers[:] = saved
    got = vlib.run_driver(lines)
    dis = []
    for g, e, m in zip(got, exp, meta):
        if g != e and len(dis) < 20:
            dis.append({"input": m, "model": g, "impl": e})
    return {"cases": len(lines), "distinct": len(set(lines)), "unmodelled": dist["nonascii"], "disagreements": dis, "distribution": dist,
            "samples": [{"line": "date rfc822 " + repr(strings[len(MALFORM)]), "impl": exp[0]}, {"handler": meta[5][0], "string": meta[5][1], "impl": exp[5]}]}


class Unsized:
    def __bool__(self):
        return True


def make_handler(code, i):
    def h(s):
        if code == "R":
            raise [ValueError, KeyError, IndexError, TypeError, ZeroDivisionError, RuntimeError, AssertionError][i % 7]("scripted")
        if code == "F":
            return [None, (), 0, "", []][i % 5]
        if code == "U":
            return Unsized()
        n = int(code.split(":")[1])
        return tuple([i] * n)
    return h


# ------------------------------------------------------------------ search
TZS = ["UTC", "America/New_York", "Europe/London", "Asia/Kolkata", "Pacific/Chatham", "Australia/Lord_Howe"]


def set_tz(tz):
    os.environ["TZ"] = tz
    time.tzset()


def check_render(name, var, s, t, tz):
    from feedparser.datetimes import _parse_date
    w = {"string": s, "instant": t, "format": name, "variant": var, "tz": tz}
    try:
        r = _parse_date(s)
    except Exception as e:
        return Finding(("raises", type(e).__name__, name), w, "_parse_date(%r) raises %s: %s" % (s, type(e).__name__, e))
    want = civil.tuple9(t)
    got = tuple(r) if r else None
    if got != want:
        tzc = "utc" if tz == "UTC" else "non-utc"
        return Finding((name, var, tzc if (tz != "UTC" and False) else "value"), w,
                       "_parse_date(%r) = %r, expected %r (the %s rendering of that instant; TZ=%s)" % (s, got, want, name, tz),
                       observed=got, expected=want, oracle="tools/oracles/civil.py (era algorithm), independent of datetime")
    return None


def check_total(s):
    from feedparser.datetimes import _parse_date
    w = {"string": s, "total": True}
    try:
        r = _parse_date(s)
    except Exception as e:
        return Finding(("raises", type(e).__name__, "arbitrary"), w, "_parse_date(%r) raises %s: %s" % (s, type(e).__name__, e))
    if r is not None and (not hasattr(r, "__len__") or len(r) != 9):
        return Finding(("shape", "not-9-tuple"), w, "_parse_date(%r) returned %r" % (s, r))
    return None


DATE_ELEMS_RSS = [("pubDate", "published"), ("lastBuildDate", None), ("dc:date", "updated"), ("dcterms:created", "created"), ("dcterms:modified", "updated"),
                  ("dcterms:issued", "published"), ("expirationDate", "expired")]
DATE_ELEMS_ATOM = [("updated", "updated"), ("published", "published"), ("created", "created"), ("issued", "published"), ("modified", "updated")]


def esc(s):
    return s.replace("&", "&amp;").replace("<", "&lt;").replace(">", "&gt;")


def check_sibling(doc):
    """every *_parsed field equals _parse_date(sibling string)"""
    import feedparser
    from feedparser.datetimes import _parse_date
    with warnings.catch_warnings():
        warnings.simplefilter("ignore")
        try:
            r = feedparser.parse(doc)
        except Exception:
            return []
        fs = []
        for where, d in [("feed", r.feed)] + [("entries[%d]" % i, e) for i, e in enumerate(r.entries)]:
            for k in list(dict.keys(d)):
                if k.endswith("_parsed"):
                    raw = dict.get(d, k[:-7])
                    got = dict.__getitem__(d, k)
                    want = _parse_date(raw) if isinstance(raw, str) else None
                    if (tuple(got) if got else None) != (tuple(want) if want else None):
                        fs.append(Finding(("sibling", k), {"doc": doc}, "%s.%s = %r but _parse_date(%r) = %r" % (where, k, got, raw, want)))
    return fs


def check_history(script, s="2004-01-01T00:00:00Z"):
    """registerDateHandler histories: newest-first, any exception / non-9-tuple skipped"""
    import feedparser
    import feedparser.datetimes as DT
    saved = list(DT._date_handlers)
    w = {"script": script, "string": s}
    try:
        made = []
        for i, c in enumerate(script):
            if c.startswith("again:"):
                # the SAME function object registered once more (a plug-in re-imported, a built-in given priority again): it is the newest registration now
                k = int(c.split(":")[1])
                h = made[k % len(made)] if made else make_handler("S:9", i)
            else:
                h = make_handler(c, i)
            made.append(h)
            feedparser.registerDateHandler(h)
        try:
            r = DT._parse_date(s)
        except Exception as e:
            return Finding(("dispatcher", "raises", type(e).__name__), w, "after registering handlers %r: _parse_date raises %s" % (script, type(e).__name__))
        # expected: newest registered handler that returns a truthy 9-sized value, else the built-in answer
        want = None
        origin = []          # registration i runs the function created at step origin[i]
        for i, c in enumerate(script):
            origin.append(origin[int(c.split(":")[1]) % len(origin)] if c.startswith("again:") and origin else i)
        for i in reversed(range(len(script))):
            c0 = script[origin[i]]
            if c0 == "S:9" or c0.startswith("again:"):          # (a creation step spelled "again:" is the very first one: it made an S:9 handler)
                want = tuple([origin[i]] * 9)
                break
        DT._date_handlers[:] = saved
        builtin = DT._parse_date(s)
        if want is None:
            want = tuple(builtin) if builtin else None
        got = tuple(r) if r else None
        if got != want:
            return Finding(("dispatcher", "order"), w, "after registering handlers %r: _parse_date(%r) = %r, expected %r" % (script, s, got, want))
    finally:
        DT._date_handlers[:] = saved
    return None


def search(ctx, focus=None):
    rng = ctx.rng
    failures, n, distinct = [], 0, set()
    oldtz = os.environ.get("TZ")
    dist = {}
    try:
        for i in range(ctx.n(700, 25000)):
            t, o = rand_instant(rng), rand_offset(rng)
            tz = TZS[i % len(TZS)]
            set_tz(tz)
            for name, var, s in renderings(rng, t, o):
                n += 1
                distinct.add(s)
                dist[name] = dist.get(name, 0) + 1
                f = check_render(name, var, s, instant_of(name, var, t), tz)
                if f:
                    failures.append(f)
        set_tz("America/New_York")
        pool = list(MALFORM)
        for _ in range(ctx.n(3000, 60000)):
            base = rng.choice(pool) if rng.random() < 0.3 else rng.choice(renderings(rng, rand_instant(rng), rand_offset(rng)))[2]
            s = mutate(rng, base)
            if rng.random() < 0.3:
                s = mutate(rng, s)
            if rng.random() < 0.05:
                s = "".join(chr(rng.choice([rng.randrange(32, 127), rng.randrange(0x80, 0x3000), rng.randrange(0x10000, 0x10ffff)])) for _ in range(rng.randint(1, 20)))
            n += 1
            distinct.add(s)
            f = check_total(s)
            if f:
                failures.append(f)
    finally:
        if oldtz is None:
            os.environ.pop("TZ", None)
        else:
            os.environ["TZ"] = oldtz
        time.tzset()
    # *_parsed == _parse_date(sibling)
    for _ in range(ctx.n(150, 3000)):
        t, o = rand_instant(rng), rand_offset(rng)
        rs = renderings(rng, t, o)
        if rng.random() < 0.5:
            el = rng.sample(DATE_ELEMS_RSS, 3)
            body = "".join("<%s>%s</%s>" % (e, esc(rng.choice(rs)[2] if rng.random() < 0.8 else mutate(rng, rng.choice(rs)[2])), e) for e, _k in el)
            doc = ('<rss version="2.0" xmlns:dc="http://purl.org/dc/elements/1.1/" xmlns:dcterms="http://purl.org/dc/terms/"><channel><title>t</title>%s<item><title>i</title>%s</item></channel></rss>' % (body, body))
        else:
            el = rng.sample(DATE_ELEMS_ATOM, 3)
            body = "".join("<%s>%s</%s>" % (e, esc(rng.choice(rs)[2] if rng.random() < 0.8 else mutate(rng, rng.choice(rs)[2])), e) for e, _k in el)
            doc = '<feed xmlns="http://www.w3.org/2005/Atom"><title>t</title>%s<entry><title>i</title>%s</entry></feed>' % (body, body)
        n += 1
        distinct.add(doc)
        failures += check_sibling(doc.encode("utf-8"))
    # registration histories
    for _ in range(ctx.n(200, 4000)):
        script = [rng.choice(["R", "F", "U", "S:9", "S:9", "S:8", "S:10", "S:1", "again:%d" % rng.randrange(4), "again:%d" % rng.randrange(4)]) for _ in range(rng.randint(1, 6))]
        n += 1
        distinct.add(tuple(script))
        f = check_history(script, rng.choice(["2004-01-01T00:00:00Z", "not a date", "Thu, 01 Jan 2004 19:48:21 GMT"]))
        if f:
            failures.append(f)
    if focus:
        for d in focus.get("disagreements", []):
            m = d.get("input")
            if m and m[0] in ("rfc822", "w3dtf", "asctime"):
                f = check_total(m[1])
                if f:
                    failures.append(f)
    return {"evaluations": n, "distinct_nontrivial": len(distinct), "failures": failures, "distribution": dist,
            "rule": "instants (uniform over years 1..9999, biased to 1990-2089 and to year/leap/day boundaries) x offsets -14:00..+14:00 to the minute x every "
                    "rendering variant of every supported format (RFC 822 2/4-digit year, numeric/colon/GMT+hh:mm/named zones, W3CDTF/RFC 3339 with T/space/"
                    "fraction/Z/lower case/date-only forms, MSSQL, basic ISO 8601 incl. ordinal, asctime, Korean x2, Greek, Hungarian, Perforce) parsed by "
                    "_parse_date under 6 TZ settings and compared with an independent era-algorithm oracle; totality on mutated and arbitrary Unicode strings; "
                    "*_parsed vs _parse_date(sibling) on generated feeds; registerDateHandler histories (incl. the SAME function object registered again after others); distinct = distinct strings / documents / scripts",
            "samples": [{"string": "Thu, 01 Jan 04 19:48:21 -0830", "instant": civil.days_from_civil(2004, 1, 2) * 86400 + 4 * 3600 + 18 * 60 + 21}]}


def replay(w):
    if "script" in w:
        f = check_history(w["script"], w["string"])
    elif "doc" in w:
        fs = check_sibling(w["doc"])
        f = fs[0] if fs else None
    elif w.get("total"):
        f = check_total(w["string"])
    else:
        old = os.environ.get("TZ")
        try:
            set_tz(w.get("tz", "UTC"))
            f = check_render(w["format"], w["variant"], w["string"], w["instant"], w.get("tz", "UTC"))
        finally:
            if old is None:
                os.environ.pop("TZ", None)
            else:
                os.environ["TZ"] = old
            time.tzset()
    return (f is not None, f.what if f else "parses to the expected UTC tuple / behaves as stated")


TECHNIQUE = "Lean 4 proof: Python's ordinal<->civil algorithms round-trip for every ordinal, dispatcher newest-first semantics; executable Lean models of the RFC 822 / W3CDTF / asctime handlers tied by differential correspondence; independent era-algorithm oracle search under 6 time zones"
LEVEL_TEXT = ("Kernel-checked: ymd2ord_ord2ymd (Python's _ord2ymd is a right inverse of _ymd2ord for EVERY ordinal >= 1, so 'the local civil time of every instant x "
              "offset' is well defined), monthDay_table, leap_digits; dispatcher theorems (newest-first, raising / falsy / unsized / wrong-length results skipped, "
              "register prepends, empty string short-circuit) for arbitrary handler lists; table theorems on the regenerated zone/month tables. The handlers "
              "themselves (RFC 822, W3CDTF/MSSQL, asctime) are executable Lean models tied to the code on renderings x mutations; the round-trip theorems over "
              "rendered strings are the next proof step (design A.12) and until then that clause rests on the correspondence + oracle search.")
LEVEL_NOTE = ("Trusted: Lean kernel + standard axioms; transcription of _ymd2ord/_ord2ymd and of int()/float()/split on ASCII (validated against datetime / the "
              "handlers); tools/oracles/civil.py; ISO 8601 / Perforce / Greek / Hungarian / Korean handlers are searched, not modelled. TZ independence is a "
              "runtime property checked by switching TZ with time.tzset().")
