"""C13 — HTML post-processing does not lose or alter safe markup."""
import warnings

import vlib
from vlib import Finding, enc, dec
import sanlib
from sanlib import REF_ELEMS, REF_ATTRS, REF_MATHML_E, REF_MATHML_A, REF_SVG_E, REF_SVG_A, REF_VOID
from props import C03

LEAN_MODULES = ["FeedVerif.Props.C13", "FeedVerif.Model.SanDriver", "FeedVerif.Model.MixinDriver"]
CORR_OBLIGATIONS = ["M-mixin (stage 2) ~ the real pop() on title and the text-construct elements: content type, value and *_detail after the guess / resolver / sanitizer steps, whose answers (and the per-call options) are passed to the model as parameters",
                    "M-san.step ~ HTMLSanitizer callbacks on safe-biased markup", "M-san.resolverStep ~ RelativeURIResolver callbacks (real make_safe_absolute_uri results as oracle values)"]
TRUSTED = C03.TRUSTED
ASSUMPTIONS = ["tools/oracles/html5tok.py is used on both the authored markup and the output; equality of token streams is judged modulo the documented normalisation"]

RELURIS = sorted(tuple(x) for x in dict((n, v) for n, _t, v in sanlib.REF["Urls"])["relativeUris"])
URI_ATTRS = {a for _t, a in RELURIS} | {"href", "xlink:href"}
PLAIN_ATTRS = sorted(a for a in REF_ATTRS if a not in URI_ATTRS and a != "style" and not a.startswith("xmlns"))
SAFE_ELEMS = sorted(e for e in REF_ELEMS if e not in ("noscript", "textarea", "title"))      # elements whose content a browser tokenizes as markup
TEXTS = ["text", "a &amp; b", "x &lt; y", "&copy; 2004", "&#169;", "&#x20AC;", "café", "中文", "1 &gt; 0", "tab\there", " spaced ", "&quot;q&quot;", "&apos;", "&nbsp;", "line\nbreak", "&#128;"]
VALS = ["x", "a b", "a&amp;b", "http://example.org/a?b=1&amp;c=2", "café", "it's", "100%", "#top", "a,b;c", "&lt;tag&gt;", "&amp;lt;b&amp;gt;", "&amp;copy; means copyright", "&amp;#38;", "x=y", "中", "", "1", "a/b", "&quot;quoted&quot;"]
BASE = "http://base.example/dir/page.html"
import html.entities as _ents
NAMED = sorted(_ents.name2codepoint)          # the 252 HTML 4 entity names, incl. those with digits (frac12, sup2, there4)
WORDS = ["x", "a b", "café", "中", "100%", "q=1", "it's", "T", "b=2", "1/2 cup", "#top", "a,b;c", " ", "-", "E=mc", "AT"]
REFLIKE = ["amp;", "lt;", "gt;", "copy;", "#38;", "#x26;", "frac12;", "quot;", "nbsp;", "#169;", "T", "b=2", " ", "there4;"]


def gen_ref(rng):
    """one well-formed reference: named (any HTML 4 name), decimal, hexadecimal, or an escaped ampersand followed by text that
    itself looks like a reference (the authored value then CONTAINS reference-like text, e.g. AT&amp;amp;T says "AT&amp;T")"""
    r = rng.random()
    if r < 0.4:
        return "&%s;" % rng.choice(NAMED)
    if r < 0.55:
        return "&#%d;" % rng.choice([38, 60, 62, 169, 8364, 233, 20013, 128512, 160, 189])
    if r < 0.7:
        return "&#x%s;" % rng.choice(["26", "3C", "e9", "20AC", "1F600", "bd", "A0"])
    return "&amp;" + rng.choice(REFLIKE)


def gen_value(rng):
    if rng.random() < 0.45:
        return rng.choice(VALS)
    return "".join(gen_ref(rng) if rng.random() < 0.45 else rng.choice(WORDS) for _ in range(rng.randint(1, 4)))


def gen_text(rng):
    if rng.random() < 0.5:
        return rng.choice(TEXTS)
    return "".join(gen_ref(rng) if rng.random() < 0.45 else rng.choice(WORDS) for _ in range(rng.randint(1, 4)))


def attr_str(rng, k, v):
    # double quotes only: BaseHTMLProcessor.feed() rewrites &#39; / &#34; to literal quotes BEFORE tokenizing, which
    # corrupts a value delimited by that quote (open finding, probed separately)
    if "'" not in v and rng.random() < 0.3:
        return "%s='%s'" % (k, v)
    return '%s="%s"' % (k, v)


def gen_safe_tree(rng, depth=0, family="html"):
    if family == "html":
        tag = rng.choice(SAFE_ELEMS)
        attrs_pool = PLAIN_ATTRS
    elif family == "svg":
        tag = rng.choice(sorted(REF_SVG_E - {"title", "foreignObject"}))
        attrs_pool = sorted(a for a in REF_SVG_A if a not in URI_ATTRS and a != "style" and not a.startswith("xmlns"))
    else:
        tag = rng.choice(sorted(REF_MATHML_E - {"annotation-xml"})) if False else rng.choice(sorted(REF_MATHML_E))
        attrs_pool = sorted(a for a in REF_MATHML_A if a not in URI_ATTRS and a != "style" and not a.startswith("xmlns"))
    attrs = []
    for k in rng.sample(attrs_pool, rng.choice([0, 1, 1, 2, 3])):
        v = gen_value(rng)
        if k in ("rel", "type"):
            # rel / type values are lower-cased as authored, i.e. including the NAME of an entity reference (&hArr; -> &harr;): open finding, probed separately
            v = rng.choice(["text/css", "Text/Plain", "a b", "x", "IMAGE/png", "caf&eacute;"])
        if rng.random() < 0.15:
            k = k.upper() if family == "html" else k
        attrs.append(attr_str(rng, k, v))
    if family == "html" and rng.random() < 0.2 and not any(a.lower().startswith("rel=") for a in attrs):
        attrs.append(attr_str(rng, "rel", rng.choice(["NoFollow", "alternate", "Tag"])))
    a = (" " + " ".join(attrs)) if attrs else ""
    if tag in REF_VOID:
        return "<%s%s>" % (tag, a) if rng.random() < 0.5 else "<%s%s />" % (tag, a)
    inner = ""
    if depth < 3:
        for _ in range(rng.choice([0, 1, 1, 2, 3])):
            r = rng.random()
            if r < 0.5:
                inner += gen_safe_tree(rng, depth + 1, family)
            else:
                inner += gen_text(rng)
    return "<%s%s>%s</%s>" % (tag, a, inner, tag)


def gen_safe_markup(rng, typ="text/html"):
    m = _gen_safe_markup(rng)
    if typ != "text/html":
        # XHTML-typed content: inline SVG / MathML need their namespace declared explicitly (documented)
        import re
        m = re.sub(r"<svg(?![^>]*xmlns)", '<svg xmlns="http://www.w3.org/2000/svg"', m)
        m = re.sub(r"<math(?![^>]*xmlns)", '<math xmlns="http://www.w3.org/1998/Math/MathML"', m)
    return m


def _gen_safe_markup(rng):
    r = rng.random()
    if r < 0.7:
        return "".join(gen_safe_tree(rng) for _ in range(rng.choice([1, 1, 2])))
    if r < 0.85:
        inner = "".join(gen_safe_tree(rng, 1, "svg") for _ in range(rng.choice([1, 2, 3])))
        if rng.random() < 0.3:
            inner = inner + "<svg>" + gen_safe_tree(rng, 2, "svg") + "</svg>" + gen_safe_tree(rng, 2, "svg")
        return "<p>a</p><svg xmlns=\"http://www.w3.org/2000/svg\" viewBox=\"0 0 10 10\">%s</svg><p>b</p>" % inner if rng.random() < 0.5 else "<svg>%s</svg>" % inner
    inner = "".join(gen_safe_tree(rng, 1, "math") for _ in range(rng.choice([1, 2])))
    if rng.random() < 0.3:
        inner = inner + "<math>" + gen_safe_tree(rng, 2, "math") + "</math>" + gen_safe_tree(rng, 2, "math")
    return "<math xmlns=\"http://www.w3.org/1998/Math/MathML\">%s</math>" % inner if rng.random() < 0.5 else "<math>%s</math>" % inner


def gen_uri_markup(rng):
    t, a = rng.choice([p for p in RELURIS if p[0] in REF_ELEMS and p[1] in REF_ATTRS])
    ref = rng.choice(["rel/x", "../up", "/abs", "?q=1", "#frag", "http://other.example/p", "x y", "a&amp;b=1", "mailto:a@b.example",
                      # scheme-less references with a colon further on (footnote anchors, wiki paths, ports, times)
                      "#fn:1", "/wiki/Talk:Main", "//host.example:8080/x", "a.html?t=10:30", "./a:b", "?k=v:w#x:y"])
    if rng.random() < 0.4:
        # query strings whose authored value contains reference-like text / references
        ref = rng.choice(["rel/x", "http://other.example/p", "/abs", ""]) + "?q=" + "".join(gen_ref(rng) if rng.random() < 0.6 else rng.choice(["AT", "x", "1", "=", "b"]) for _ in range(rng.randint(1, 3)))
    void = t in REF_VOID
    extra = gen_safe_tree(rng, 2)
    m = '<%s %s="%s"%s%s' % (t, a, ref, " title=\"t\"" if rng.random() < 0.5 else "", ">" if void else ">x</%s>" % t)
    return m + extra if rng.random() < 0.5 else extra + m


def correspondence(ctx):
    rng = ctx.rng
    lines, exp, meta = [], [], []
    dist = {"san_runs": 0, "res_runs": 0, "callbacks": 0}
    for _ in range(ctx.n(500, 8000)):
        m = gen_safe_markup(rng) if rng.random() < 0.7 else gen_uri_markup(rng)
        typ = rng.choice(["text/html", "application/xhtml+xml"])
        ev, _out = sanlib.record_sanitizer(m, typ)
        ls, ex, _ok = sanlib.lines_for(ev, typ)
        dist["san_runs"] += 1
        for l, e in zip(ls, ex):
            lines.append(l); exp.append(e); meta.append(("san", m, typ))
        ev, _out = sanlib.record_resolver(m, BASE, typ)
        ls, ex = sanlib.res_lines_for(ev, BASE)
        dist["res_runs"] += 1
        for l, e in zip(ls, ex):
            lines.append(l); exp.append(e); meta.append(("res", m, typ))
    dist["callbacks"] = len(lines)
    got = vlib.run_driver(lines)
    dis, seen = [], set()
    for g, e, m, l in zip(got, exp, meta, lines):
        if g != e and m not in seen:
            seen.add(m)
            if len(dis) < 20:
                dis.append({"which": m[0], "markup": m[1], "type": m[2], "line": l[:160], "model": dec(g.split()[1]) if g.startswith("P ") else g,
                            "impl": dec(e.split()[1]) if e.startswith("P ") else e})
    res = {"cases": len(lines), "distinct": len(set(zip(lines, exp))), "unmodelled": 0, "disagreements": dis, "distribution": dist,
            "samples": [{"markup": meta[1][1][:200]}]}
    import mixlib
    return mixlib.content_corr(ctx, ctx.n(60, 800), into=res)


# ------------------------------------------------------------------ search
def token_stream(markup, base=None, resolved=False):
    """canonical token stream: (kind, name, sorted attrs (rel/type lower-cased, URI attrs resolved), text)"""
    from oracles import html5tok
    from oracles.rfc3986 import resolve as rfc_resolve
    out = []
    for t in html5tok.tokenize(markup):
        if t.kind == "starttag":
            attrs = {}
            for k, v in t.attrs:
                kl = k.lower()
                if kl in ("xmlns", "xmlns:xlink"):
                    continue                 # implicit namespace declarations are added by the sanitizer (documented)
                if kl in ("rel", "type"):
                    v = v.lower()
                if base and (t.name, kl) in RELURIS and not resolved:
                    v = rfc_resolve(base, v.strip(" \t\n\r\f"))      # ASCII white space only: a no-break space is part of the URI
                attrs.setdefault(kl, v)
            out.append(("start", t.name, tuple(sorted(attrs.items()))))
            if t.self_closing and t.name not in REF_VOID and t.name not in ("svg", "math") and False:
                out.append(("end", t.name))
        elif t.kind == "endtag":
            if t.name not in REF_VOID:
                out.append(("end", t.name))
        elif t.kind == "text":
            if out and out[-1][0] == "text":
                out[-1] = ("text", out[-1][1] + t.data)
            else:
                out.append(("text", t.data))
        elif t.kind == "comment":
            out.append(("comment", t.data))
    return out


def first_diff(a, b):
    for i, (x, y) in enumerate(zip(a, b)):
        if x != y:
            return i, x, y
    if len(a) != len(b):
        i = min(len(a), len(b))
        return i, a[i] if i < len(a) else None, b[i] if i < len(b) else None
    return None


def classify(x, y):
    if x is None or y is None:
        return "token-lost" if y is None else "token-added"
    if x[0] != y[0]:
        return "kind-%s-to-%s" % (x[0], y[0])
    if x[0] == "start":
        if x[1] != y[1]:
            return "element-changed"
        ka, kb = dict(x[2]), dict(y[2])
        if set(ka) != set(kb):
            return "attribute-dropped" if set(kb) < set(ka) else "attribute-set-changed"
        return "attribute-value-changed"
    if x[0] == "text":
        return "text-changed"
    return x[0] + "-changed"


def normalise_svg_self_closing(markup):
    return markup


def check_direct(markup, typ, fn):
    """fn: 'sanitize' | 'resolve'"""
    from feedparser.sanitizer import sanitize_html
    from feedparser.urls import resolve_relative_uris
    w = {"markup": markup, "type": typ, "fn": fn}
    try:
        if fn == "sanitize":
            out = sanitize_html(markup, "utf-8", typ)
            want = token_stream(markup.strip())
        else:
            out = resolve_relative_uris(markup, BASE, "utf-8", typ)
            want = token_stream(markup, BASE)
    except Exception as e:
        return [Finding(("raises", fn, type(e).__name__), w, "%s raises %s" % (fn, type(e).__name__))]
    got = token_stream(out, BASE, resolved=True)
    if fn == "sanitize":
        want = strip_edge_ws(want)
        got = strip_edge_ws(got)
    d = first_diff(want, got)
    if d:
        i, x, y = d
        return [Finding((fn, classify(x, y)), w, "%s(%s) altered safe markup at token %d: %r became %r (input %r, output %r)" % (fn, typ, i, x, y, markup[:200], out[:200]),
                        observed=out, expected="same token stream", oracle="tools/oracles/html5tok.py on input and output")]
    if typ == "application/xhtml+xml":
        # XML names are case-sensitive (the HTML tokenizer above lower-cases tag names, as HTML does): in XHTML-typed content every end tag has to come
        # back in the spelling it went in with ("</linearGradient>", not "</lineargradient>"), or the fragment stops being well-formed. Only judged
        # when the token streams agree, i.e. when nothing else (a listed finding, say) has already changed the sequence of tags.
        import re as _re
        ein, eout = _re.findall(r"</([A-Za-z][^\s>]*)", markup), _re.findall(r"</([A-Za-z][^\s>]*)", out)
        if ein != eout and [e.lower() for e in ein] == [e.lower() for e in eout]:
            k = next(i for i in range(len(ein)) if ein[i] != eout[i])
            return [Finding((fn, "end-tag-spelling"), w, "%s(%s) changed the spelling of end tag %d: </%s> became </%s> (input %r, output %r)" % (fn, typ, k, ein[k], eout[k], markup[:200], out[:200]),
                            observed=out, expected="every end tag in the spelling of the input (XML names are case-sensitive)", oracle="end-tag names of input and output, compared as XML names")]
    return []


def strip_edge_ws(ts):
    ts = list(ts)
    if ts and ts[0][0] == "text":
        ts[0] = ("text", ts[0][1].lstrip())
        if not ts[0][1]:
            ts.pop(0)
    if ts and ts[-1][0] == "text":
        ts[-1] = ("text", ts[-1][1].rstrip())
        if not ts[-1][1]:
            ts.pop()
    return ts


def esc(s):
    return s.replace("&", "&amp;").replace("<", "&lt;").replace(">", "&gt;")


XHTML_NS = ' xmlns="http://www.w3.org/1999/xhtml"'


def gen_inline_xhtml(rng):
    """inline XHTML for an Atom 1.0 type="xhtml" construct, as a list of TOP-LEVEL items (markup without namespace declarations); shapes: the single wrapper div
    (which Atom prescribes and the parser removes), sibling divs with and without element children, a div among other elements, no div at all"""
    words = ["one", "two", "three", "some text", "x"]

    def inner(depth):
        r = rng.random()
        if depth > 2 or r < 0.35:
            return rng.choice(words)
        if r < 0.5:
            return "<br/>"
        t = rng.choice(["p", "em", "strong", "span", "div", "blockquote", "b"])
        return "<%s>%s</%s>" % (t, "".join(inner(depth + 1) for _ in range(rng.randint(1, 3))), t)

    def div(with_child):
        body = "".join(inner(1) for _ in range(rng.randint(1, 3)))
        if with_child and "<" not in body:
            body = "<p>%s</p>" % body
        if not with_child:
            body = rng.choice(words)
        return "<div>%s</div>" % body
    shape = rng.choice(["wrapper", "wrapper", "siblings", "siblings-child-first", "siblings-child-first", "div-then-other", "other-then-div", "no-div", "three-divs"])
    if shape == "wrapper":
        return [div(rng.random() < 0.7)], shape
    if shape == "siblings":
        return [div(False), div(False)], shape
    if shape == "siblings-child-first":
        return [div(True), div(rng.random() < 0.5)], shape
    if shape == "three-divs":
        return [div(rng.random() < 0.5), "<p>%s</p>" % rng.choice(words), div(rng.random() < 0.5)], shape
    if shape == "div-then-other":
        return [div(True), "<p>%s</p>" % rng.choice(words)], shape
    if shape == "other-then-div":
        return ["<p>%s</p>" % rng.choice(words), div(True)], shape
    return ["<p>%s</p>" % rng.choice(words), "<ul><li>a</li><li>b</li></ul>"], shape


def check_inline_xhtml(items, shape, where, loose):
    """Atom 1.0 inline XHTML through parse(): the value is the markup as written, without the single wrapper div when there is exactly one top-level element and it is a div"""
    import re
    import feedparser
    import feedparser.api as api
    decl = [re.sub(r"^<([a-z]+)", lambda m: "<" + m.group(1) + XHTML_NS, it, count=1) for it in items]
    sep = rng_sep = "\n" if shape.endswith("s") else ""
    body = sep.join(decl)
    doc = ('<feed xmlns="http://www.w3.org/2005/Atom"><title>t</title><id>urn:x</id><updated>2020-01-01T00:00:00Z</updated><entry><id>urn:x:1</id>%s'
           '<%s type="xhtml">%s</%s></entry></feed>' % ("" if where == "title" else "<title>e</title>", where, body, where))
    w = {"markup": doc, "mode": "atom-xhtml", "loose": loose, "fn": "parse-inline", "items": items, "shape": shape, "where": where}
    saved = api._XML_AVAILABLE
    try:
        if loose:
            api._XML_AVAILABLE = False
        with warnings.catch_warnings():
            warnings.simplefilter("ignore")
            try:
                r = feedparser.parse(doc.encode("utf-8"), response_headers={"content-location": BASE, "content-type": "application/xml; charset=utf-8"})
            except Exception:
                return []
    finally:
        api._XML_AVAILABLE = saved
    if not r.entries or r.bozo:
        return []
    e = r.entries[0]
    val = e["content"][0]["value"] if where == "content" else e.get(where, "")
    expected = items[0][len("<div>"):-len("</div>")] if (len(items) == 1 and items[0].startswith("<div>")) else sep.join(items)
    want = strip_edge_ws(token_stream(expected, BASE))
    got = strip_edge_ws(token_stream(val, BASE, resolved=True))
    d = first_diff(want, got)
    if d:
        i, x, y = d
        return [Finding(("parse", "inline-xhtml", classify(x, y)), w, "parse() (Atom 1.0 inline XHTML in <%s>, shape %s, %s) altered safe markup at token %d: %r became %r (expected %r, output %r)" % (
            where, shape, "loose" if loose else "strict", i, x, y, expected[:200], val[:200]), observed=val, expected=expected)]
    return []


def check_parse(markup, mode, loose):
    import feedparser
    import feedparser.api as api
    w = {"markup": markup, "mode": mode, "loose": loose, "fn": "parse"}
    if mode == "atom-html":
        doc = '<feed xmlns="http://www.w3.org/2005/Atom"><title>t</title><entry><content type="html">%s</content></entry></feed>' % esc(markup)
    elif mode == "rss-description":
        doc = '<rss version="2.0"><channel><title>t</title><item><description>%s</description></item></channel></rss>' % esc(markup)
    elif mode == "atom-plain":
        doc = '<feed xmlns="http://www.w3.org/2005/Atom"><title>t</title><entry><summary type="text">%s</summary></entry></feed>' % esc(markup)
    else:
        doc = '<feed xmlns="http://www.w3.org/2005/Atom"><title>t</title><entry><content type="html"><![CDATA[%s]]></content></entry></feed>' % markup
    saved = api._XML_AVAILABLE
    try:
        if loose:
            api._XML_AVAILABLE = False
        with warnings.catch_warnings():
            warnings.simplefilter("ignore")
            try:
                r = feedparser.parse(doc.encode("utf-8"), response_headers={"content-location": BASE, "content-type": "application/xml; charset=utf-8"})
            except Exception:
                return []
    finally:
        api._XML_AVAILABLE = saved
    if not r.entries:
        return []
    e = r.entries[0]
    if mode == "atom-plain":
        val, typ = e.get("summary"), e.get("summary_detail", {}).get("type")
        if typ == "text/plain" and val != markup.strip():
            return [Finding(("parse", "plain-text-altered"), w, "text/plain content %r came back as %r" % (markup, val))]
        return []
    val = e["content"][0]["value"] if "content" in e else e.get("summary", "")
    want = strip_edge_ws(token_stream(markup.strip(), BASE))
    got = strip_edge_ws(token_stream(val, BASE, resolved=True))
    d = first_diff(want, got)
    if d:
        i, x, y = d
        return [Finding(("parse", classify(x, y)), w, "parse() (%s, %s) altered safe markup at token %d: %r became %r (input %r, output %r)" % (
            mode, "loose" if loose else "strict", i, x, y, markup[:200], val[:200]), observed=val)]
    return []


def search(ctx, focus=None):
    rng = ctx.rng
    failures, n, distinct = [], 0, set()
    todo = []
    if focus:
        for d in focus.get("disagreements", []):
            if d.get("markup"):
                m, typ = d["markup"], d.get("type", "text/html")
                if typ != "text/html":
                    # the tie's generator does not declare the namespace on NESTED svg / math; in XHTML-typed content that shape is the listed finding
                    # `xhtml-nested-foreign-without-xmlns` and fails on the unchanged tree too: bring the input into the domain the search judges (as gen_safe_markup does)
                    import re
                    m = re.sub(r"<svg(?![^>]*xmlns)", '<svg xmlns="http://www.w3.org/2000/svg"', m)
                    m = re.sub(r"<math(?![^>]*xmlns)", '<math xmlns="http://www.w3.org/1998/Math/MathML"', m)
                todo.append((m, typ))
    for _ in range(ctx.n(1500, 50000)):
        typ = rng.choice(["text/html", "application/xhtml+xml"])
        todo.append((gen_safe_markup(rng, typ) if rng.random() < 0.75 else gen_uri_markup(rng), typ))
    for m, typ in todo:
        for fn in ("sanitize", "resolve"):
            n += 1
            distinct.add((m, typ, fn))
            failures += check_direct(m, typ, fn)
    for _ in range(ctx.n(300, 8000)):
        m = gen_safe_markup(rng) if rng.random() < 0.7 else gen_uri_markup(rng)
        mode = rng.choice(["atom-html", "rss-description", "atom-cdata", "atom-plain"])
        if mode == "atom-plain":
            m = rng.choice(["plain & simple", "a < b > c", "<b>not markup</b> really", "x &amp; y", " spaced  out ", "tab\tand\nnewline", "&lt;escaped&gt;"])
        loose = False          # the property speaks about post-processing, not about the loose back end's entity decoding (C11)
        n += 1
        distinct.add((m, mode, loose))
        failures += check_parse(m, mode, loose)
    for _ in range(ctx.n(250, 5000)):
        items, shape = gen_inline_xhtml(rng)
        where = rng.choice(["content", "content", "summary", "title"])
        n += 1
        distinct.add((tuple(items), where))
        failures += check_inline_xhtml(items, shape, where, False)
    return {"evaluations": n, "distinct_nontrivial": len(distinct), "failures": failures,
            "rule": "Atom 1.0 INLINE XHTML constructs (content / summary / title) through parse(): the single wrapper div, sibling divs with and without element children, a div among other elements, no div -- the value is the markup as written minus the one wrapper div; "
                    "trees over the allow-listed HTML / SVG / MathML elements x allow-listed non-URI attributes (random subsets, upper-case names, rel values) x value "
                    "strings (&amp;, escaped references, quotes, non-ASCII) x text with references; void and non-void elements; nested same-kind svg/math; "
                    "URI-table (element, attribute) pairs x reference forms; both content types; sanitize_html, resolve_relative_uris and parse() (escaped, "
                    "CDATA, RSS description, text/plain) x both back ends; oracle: html5tok token stream of input vs output equal modulo attribute order, "
                    "rel/type case, implicit xmlns, URI resolution (RFC 3986 oracle); distinct = distinct (markup, type, function)",
            "samples": [{"markup": gen_safe_markup(vlib.random.Random(5))[:300]}]}


def replay(w):
    if w["fn"] == "parse-inline":
        fs = check_inline_xhtml(w["items"], w["shape"], w["where"], w["loose"])
    elif w["fn"] == "parse":
        fs = check_parse(w["markup"], w["mode"], w["loose"])
    else:
        fs = check_direct(w["markup"], w["type"], w["fn"])
    return (bool(fs), fs[0].what if fs else "token stream preserved")


TECHNIQUE = "Lean 4 proof: safe token streams pass the sanitizer filter unchanged (induction over the callback sequence), escaping is the identity on harmless values, resolver touches only table attributes; 'nothing dropped' table theorems; per-callback correspondence; input-vs-output html5tok token-stream search"
LEVEL_TEXT = ("Kernel-checked on M-san: safe_stream_passes (every sequence of allow-listed start/end tags with allow-listed plain attributes, text, known entity references "
              "and comments comes out as the normalised same sequence), safe_start_passes, safe_end_passes, text_kept, known_entity_kept, charref_kept, "
              "cleanAttrs_keeps_allowed, escapeAttr_id, escAmp_keeps_reference, resolver_off_table_identity, resolver_keeps_everything; allowlists_superset_reference "
              "(no documented element/attribute/void element/URI pair was dropped) re-proved on the regenerated tables. Tie: sanitizer and resolver callbacks vs model.")
LEVEL_NOTE = ("Trusted: as C03 (sgmllib tokenization not modelled); the token-stream equality itself is judged end to end by the search with html5tok + the RFC 3986 oracle. "
              "Open findings: unknown entity references lose their semicolon; a stray </script> suppresses all later text.")
