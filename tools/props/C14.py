"""C14 — style attributes keep only allow-listed, URL-free CSS declarations."""
import html.parser
import json
import os
import re
import warnings

import vlib
from vlib import Finding, enc, dec
from oracles import css_decl

LEAN_MODULES = ["FeedVerif.Props.C14", "FeedVerif.Model.CssDriver"]
CORR_OBLIGATIONS = ["M-css.sanitizeStyle ~ HTMLSanitizer.sanitize_style (inside and outside SVG) on generated ASCII style strings",
                    "M-css.validCssValue ~ HTMLSanitizer.valid_css_values.match"]
TRUSTED = ["Lean model FeedVerif/Model/Css.lean: hand translation of the five regular expressions of sanitizer.py:840-878 (ASCII domain)",
           "Python re semantics for those five patterns (validated by correspondence)"]
ASSUMPTIONS = ["non-ASCII style strings are outside the model's domain (driver answers 'unmodelled'); the search covers them on the implementation"]

REF = json.load(open(os.path.join(vlib.ROOT, "reference", "tables.json")))
_S = dict((n, v) for n, _t, v in REF["Sanitizer"])
REF_PROPS, REF_KW, REF_SVGPROPS = set(_S["cssProperties"]), set(_S["cssKeywords"]), set(_S["svgProperties"])

PROPS = sorted(REF_PROPS) + ["background", "background-image", "border-left", "margin", "margin-top", "padding-x", "border", "Border-Top",
                             "fill", "stroke-width", "stroke", "behavior", "position", "-moz-binding", "list-style-image", "content", "x-y-z",
                             "a-b-c", "filter", "border-image", "background-attachment", "COLOR", "Width", "font family", "top", "z-index", "_width", "-", "w1dth"]
VALUES = ["red", "1px", "10px solid red", "#fff", "#FFF", "#12g", "rgb(1,2,3)", "rgb(10%,20%,30%)", "1.5em", "12.25px", "100%", "auto",
          "url(http://x/y)", "url( 'a' )", "url(1 1)", "URL(http://x)", "u\\rl(x)", "expression(alert(1))", "expression(1)", "calc(1)",
          "'Times New Roman'", '"Arial"', "a-b", "a-b-c", "1 , 2", "(1,2)", "( 1 )", "()", "(a)", "rgb(1,2", "12345px", "1..2em", ".5em",
          "1e3", "-1px", "+1px", "1px!important", "red ! important", "/*x*/red", "r\\65 d", "@import", "{}", "<b>", "&quot;", "a:b",
          "", " ", "x;y", "inherit", "transparent", "medium", "thick dotted blue", "0", "00.00)", "1,", "1)", "rgb(1,)", "rgb(,1)", "rgb(1%,,)",
          "'expression(alert(1))'", "'a\\62 c'", '"x{}"', "'/* x */ serif'", "'@import'", "'url(//evil.example/a b)'", "'Lucida-Console'", '"a.b"', "1px expression", "behavior 0", "solid moz-binding", "url(x)url(y)", "u url(x) l", "uurl(http://evil.example/c.cur)rl(7)", "ururl(a)l(1,2)", "u url(x)rl(3)", "exprexpression(1)ession(2)", "urlurl(x)(7)", "ur\nl(x)", "url\t(\tx\t)", "\x1cred", "red\x1f", "1\x0bpx"]
SEPS = [";", "; ", " ;", ";;", "", ";\n", " ; \t"]


def gen_style(rng):
    n = rng.choice([1, 1, 2, 2, 3, 4])
    parts = []
    for _ in range(n):
        p = rng.choice(PROPS)
        if rng.random() < 0.15:
            p = "".join(c.upper() if rng.random() < 0.5 else c for c in p)
        v = rng.choice(VALUES)
        if rng.random() < 0.2:
            v = v + " " + rng.choice(VALUES)
        colon = rng.choice([":", ": ", " : ", ":", ":\t", "::", " "]) if rng.random() < 0.9 else ""
        parts.append(p + colon + v)
    s = ""
    for p in parts:
        s += p + rng.choice(SEPS)
    if rng.random() < 0.1:
        s = rng.choice([" ", "\n", "x", ";", "(", "'"]) + s
    if rng.random() < 0.05:
        i = rng.randrange(len(s) + 1)
        s = s[:i] + rng.choice(["é", "　", "٣", "\\", "/", "*", "@", "{", "}", "<", ">"]) + s[i:]
    return s


def real_style(style, svg):
    import feedparser.sanitizer as S
    p = S.HTMLSanitizer("utf-8", "text/html")
    p.svgOK = 1 if svg else 0
    return p.sanitize_style(style)


def correspondence(ctx):
    import feedparser.sanitizer as S
    rng = ctx.rng
    lines, exp, meta = [], [], []
    dist = {"style": 0, "valid": 0, "nonascii": 0, "kept": 0, "emptied": 0, "svg": 0}
    n = ctx.n(5000, 80000)
    for _ in range(n):
        st = gen_style(rng)
        svg = rng.random() < 0.3
        r = real_style(st, svg)
        lines.append("css style %d %s" % (svg, enc(st)))
        ascii_ = all(ord(c) < 128 for c in st)
        exp.append(enc(r) if ascii_ else "unmodelled")
        meta.append((st, svg))
        dist["style"] += 1
        dist["svg"] += svg
        dist["nonascii"] += not ascii_
        dist["kept" if r else "emptied"] += 1
    kws = set()
    for v in VALUES:
        kws.update(v.split())
    for _ in range(n // 5):
        k = rng.choice(sorted(kws))
        if rng.random() < 0.5:
            k = "".join(rng.choice("0123456789.%,)#abcfgxprem(") for _ in range(rng.randint(0, 7)))
        if not all(ord(c) < 128 for c in k):
            continue
        lines.append("css valid %s" % enc(k))
        exp.append("1" if S.HTMLSanitizer.valid_css_values.match(k) else "0")
        meta.append((k, None))
        dist["valid"] += 1
    got = vlib.run_driver(lines)
    dis = []
    for g, e, m in zip(got, exp, meta):
        if g != e and len(dis) < 20:
            dis.append({"input": m, "model": g if g in ("unmodelled", "0", "1") else dec(g), "impl": e if e in ("unmodelled", "0", "1") else dec(e)})
    return {"cases": len(lines), "distinct": len(set(lines)), "unmodelled": dist["nonascii"], "disagreements": dis, "distribution": dist,
            "samples": [{"style": meta[i][0], "svg": meta[i][1], "impl": dec(exp[i]) if exp[i] != "unmodelled" else exp[i]} for i in range(3)]}


# ------------------------------------------------------------------ search
SHORTHAND = ("background", "border", "margin", "padding")
_COLOUR = re.compile(r"^#[0-9a-fA-F]{1,8}$")
_SHORT_TOKEN = re.compile(r"#[0-9a-fA-F]+|rgb\([\d%,.\s]*\)?|[+-]?[\d.]*(cm|em|ex|in|mm|pc|pt|px|%|,|\))?")


def check_style_value(out, svg, where, witness):
    """independent judgement of one surviving style attribute value"""
    fs = []
    info = css_decl.analyse(out)
    def bad(kind, detail):
        fs.append(Finding(("style", kind), witness, "surviving style %r %s" % (out, detail), observed=out,
                          oracle="tools/oracles/css_decl.py (CSS Syntax Level 3 declaration-list tokenizer)"))
    for u in info["urls"]:
        # inert: a BAD url token (white space inside the argument) or an empty one whose argument is digits / commas / blanks; a well-formed url token
        # with a non-empty argument names a resource ("url(7)" fetches the relative URL 7) whatever its characters
        inert = re.fullmatch(r"[\d,\s]*", u) is not None and u not in info.get("valid_urls", [])
        bad("url-token-inert" if inert else "url-token-live", "contains url token %r" % (u,))
    for fn, arg in info["functions"]:
        if fn.lower() in ("url", "expression", "image", "image-set", "element", "src", "attr", "var", "env"):
            inert = re.fullmatch(r"[\d,\s]*", arg or "") is not None
            bad("function-" + fn.lower() + ("-inert" if inert else "-live"), "contains function %s(%s)" % (fn, arg))
    for k in ("escapes", "comments", "at_keywords", "braces", "angle"):
        if info[k]:
            bad(k, "contains %s %r" % (k, info[k]))
    for prop, val in info["declarations"]:
        pl = prop.lower()
        if pl in REF_PROPS:
            continue
        if pl.split("-")[0] in SHORTHAND:
            continue
        if svg and pl in REF_SVGPROPS:
            continue
        bad("property", "keeps property %r which is on no allow-list (svg context: %s)" % (prop, svg))
    # "... or is a background-/border-/margin-/padding- shorthand whose EVERY value token is an allow-listed keyword, colour, or length": judged token by
    # token on the source text of each declaration (the tokenizer's values are not source text: a hash token drops its '#'), with a restatement that is
    # deliberately a little wider than sanitizer.py's own pattern (upper-case hex digits, any number of digits), so that it never asks for more than the
    # property does
    for piece in out.split(";"):
        if ":" not in piece:
            continue
        prop, val = piece.split(":", 1)
        pl = prop.strip().lower()
        if pl in REF_PROPS or pl.split("-")[0] not in SHORTHAND or (svg and pl in REF_SVGPROPS):
            continue
        for tok in val.split():
            if tok not in REF_KW and not _SHORT_TOKEN.fullmatch(tok):
                bad("shorthand-token", "keeps shorthand %r whose value token %r is neither an allow-listed keyword nor a colour / length" % (pl, tok))
                break
    if info["garbage"]:
        bad("shape", "is not a list of 'property: value;' declarations: %r" % (info["garbage"],))
    return fs


class _AC(html.parser.HTMLParser):
    def __init__(self):
        super().__init__(convert_charrefs=True)
        self.styles = []
        self.svg = 0

    def handle_starttag(self, tag, attrs):
        if tag == "svg":
            self.svg += 1
        for k, v in attrs:
            if k == "style":
                self.styles.append((v or "", self.svg > 0))

    def handle_startendtag(self, tag, attrs):
        self.handle_starttag(tag, attrs)
        if tag == "svg":
            self.svg -= 1

    def handle_endtag(self, tag):
        if tag == "svg" and self.svg:
            self.svg -= 1


def styles_in(markup):
    p = _AC()
    p.feed(markup)
    p.close()
    return p.styles


def attr_esc(s):
    return s.replace("&", "&amp;").replace("<", "&lt;").replace(">", "&gt;").replace('"', "&quot;")


def check_direct(style, svg, history=None):
    import feedparser.sanitizer as S
    w = {"style": style, "svg": svg, "history": history}
    if history:
        for h, hs in history:
            real_style(h, hs)
    try:
        out = real_style(style, svg)
    except Exception as e:
        return [Finding(("style", "raises", type(e).__name__), w, "sanitize_style raises %s" % type(e).__name__)]
    return check_style_value(out, svg, "direct", w) if out else []


def check_markup(markup, typ, via):
    """run the markup through sanitize_html / parse() and judge every value sanitize_style RETURNED
    (observed by a spy at the function boundary, so tags sgmllib fails to tokenize -- C03's subject --
    do not blur the identity of a finding)"""
    import unittest.mock as mock
    import feedparser
    import feedparser.sanitizer as S
    w = {"markup": markup, "type": typ, "via": via}
    seen = []
    real = S.HTMLSanitizer.sanitize_style

    def spy(self, style):
        out = real(self, style)
        seen.append((style, out, bool(self.svgOK)))
        return out
    with mock.patch.object(S.HTMLSanitizer, "sanitize_style", spy), warnings.catch_warnings():
        warnings.simplefilter("ignore")
        try:
            if via == "direct":
                outs = [S.sanitize_html(markup, "utf-8", typ)]
            else:
                ctype = "xhtml" if typ == "application/xhtml+xml" and False else "html"
                doc = ('<feed xmlns="http://www.w3.org/2005/Atom"><title>t</title><entry><content type="%s">%s</content></entry></feed>' %
                       (ctype, markup.replace("&", "&amp;").replace("<", "&lt;").replace(">", "&gt;"))).encode("utf-8")
                r = feedparser.parse(doc)
                outs = [c["value"] for e in r.entries for c in e.get("content", [])]
        except Exception:
            return []
    fs = []
    for _style, out, insvg in seen:
        if out:
            fs += check_style_value(out, insvg, via, w)
            # what sanitize_style returned must also be what the output carries
            if not any(out in o or out.replace("&", "&amp;") in o for o in outs):
                pass
    return fs


def search(ctx, focus=None):
    rng = ctx.rng
    failures, n, distinct = [], 0, set()
    seeds = []
    if focus:
        for d in focus.get("disagreements", []):
            m = d.get("input")
            if m and m[1] is not None:
                seeds.append((m[0], bool(m[1])))
    for st, svg in seeds:
        failures += check_direct(st, svg)
    for _ in range(ctx.n(6000, 150000)):
        st = gen_style(rng)
        svg = rng.random() < 0.3
        n += 1
        distinct.add((st, svg))
        failures += check_direct(st, svg)
    # histories: styles inside SVG first, then outside (class-level table growth)
    for _ in range(ctx.n(200, 3000)):
        h = [(gen_style(rng), True) for _ in range(rng.randint(1, 3))]
        st = rng.choice(["fill: red", "stroke-width: 2", "stroke: blue; color: red", gen_style(rng)])
        if rng.random() < 0.5:
            h.insert(rng.randrange(len(h) + 1), (st, True))      # the very same string was met inside SVG before (a memo keyed on the string alone would answer from there)
        n += 1
        distinct.add((st, False, str(h)))
        failures += check_direct(st, False, history=h)
    # via sanitize_html / parse(), inside and outside <svg>
    for _ in range(ctx.n(400, 8000)):
        st = gen_style(rng)
        if rng.random() < 0.3:
            st = st.replace(" ", rng.choice([" ", "\n", "\t"]))
        st = "".join(c for c in st if ord(c) >= 32 or c in "\t\n\r")      # keep the carrier document well-formed XML
        el = rng.choice(["p", "span", "div", "td", "a"])
        m = '<%s style="%s">x</%s>' % (el, attr_esc(st), el)
        if rng.random() < 0.3:
            if rng.random() < 0.4:
                st = rng.choice(["fill: red; color: blue", "stroke-width: 2", "stroke: blue; fill-opacity: 0.5; margin: 1px"]) if rng.random() < 0.5 else st
            m = '<svg xmlns="http://www.w3.org/2000/svg"><g style="%s"><rect style="%s"/></g></svg><p style="%s">y</p>' % (
                attr_esc(st), attr_esc(gen_style(rng)), attr_esc(st if rng.random() < 0.5 else gen_style(rng)))
        if rng.random() < 0.15:
            # the SAME style string on an HTML element nested inside <svg> (where the SVG presentation properties are admitted) and, afterwards or before, on one
            # outside it, in ONE document: each occurrence is judged in its own context
            st2 = rng.choice(["fill: red; stroke: blue", "fill: red", "stroke-width: 2; color: red", "fill-opacity: 0.5; margin: 1px", st])
            fo = rng.random() < 0.5
            inside = '<svg xmlns="http://www.w3.org/2000/svg">%s<p style="%s">in</p>%s</svg>' % ("<foreignObject>" if fo else "", attr_esc(st2), "</foreignObject>" if fo else "")
            outside = '<p style="%s">out</p>' % attr_esc(st2)
            m = inside + outside if rng.random() < 0.7 else outside + inside
        typ = rng.choice(["text/html", "application/xhtml+xml"])
        via = rng.choice(["direct", "parse"])
        n += 1
        distinct.add((m, typ, via))
        failures += check_markup(m, typ, via)
    return {"evaluations": n, "distinct_nontrivial": len(distinct), "failures": failures,
            "rule": "style strings = 1-4 declarations over {allow-listed, shorthand, SVG, not allow-listed, case-varied} properties x value grammar "
                    "(keywords, lengths, colours, rgb(), quoted strings, parenthesised groups, url()/expression()/calc() in several spellings, escapes, "
                    "comments, at-rules, braces, angle brackets, control/whitespace characters, non-ASCII) x separator layouts; direct, after SVG-styled "
                    "histories (incl. the same string met inside SVG first), and via sanitize_html / parse() inside and outside <svg> (incl. the same string on HTML elements inside and outside one <svg> of one document); every surviving style value is judged by an independent CSS "
                    "tokenizer; distinct = distinct inputs (all contain at least one declaration-like fragment)",
            "samples": [{"style": "width: url(1 1); color: expression(1)", "svg": False}, {"markup": '<p style="color: red;\\nwidth: expression(alert(1))">'}]}


def replay(w):
    if "markup" in w:
        fs = check_markup(w["markup"], w["type"], w["via"])
    else:
        fs = check_direct(w["style"], w["svg"], history=[tuple(h) for h in w["history"]] if w.get("history") else None)
    return (bool(fs), fs[0].what if fs else "surviving style (if any) consists of allow-listed, URL-free declarations")


TECHNIQUE = "Lean 4 proof over a hand-translated model of sanitize_style's regular expressions (output alphabet, parenthesised groups inert, all-or-nothing, per-declaration allow-list) + table theorems + differential correspondence + independent CSS tokenizer search"
LEVEL_TEXT = ("Kernel-checked on M-css: gauntlet_charset (every character of a style that passes the gauntlet -- the string every surviving declaration is "
              "cut from -- lies in an alphabet without backslash, slash, star, at-sign, angle brackets, braces: alphabet_excludes), gauntlet_parens_inert (parentheses "
              "balanced and every group non-empty and made of digits, commas, whitespace), style_shape (output = space-join of 'prop: value;' for exactly the "
              "declarations passing keepDecl), keepDecl_spec / svg_props_only_in_svg (per-declaration allow-list), style_dropped_if_gauntlet_fails / "
              "style_dropped_if_shape_fails (all or nothing); "
              "CSS property/keyword tables re-checked against the frozen reference each run. Tie: sanitize_style vs model on generated ASCII styles.")
LEVEL_NOTE = ("Trusted: Lean kernel + standard axioms; the hand translation of five Python regular expressions (validated by correspondence on the ASCII "
              "domain; non-ASCII inputs are outside the model and only searched); tools/oracles/css_decl.py for the search. The literal clause "
              "'never contains url(/expression(' is false for inert arguments (open finding) and is proved in the weaker 'arguments are digits/commas/space' form.")
