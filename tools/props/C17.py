"""C17 — HTTP retrieval equals offline parsing; transport faults become bozo."""
import gzip
import os
import unittest.mock as mock
import urllib.parse
import warnings

import vlib
from vlib import Finding, enc
import feedgen
import apilib
import loopback
from oracles import civil
from props.C11 import plain

os.environ.setdefault("NO_PROXY", "*")
os.environ.setdefault("no_proxy", "*")

LEAN_MODULES = ["FeedVerif.Props.C17", "FeedVerif.Model.ApiDriver"]
CORR_OBLIGATIONS = ["M-api ~ parse(url): stage outcomes of real loopback exchanges (successful, redirected, error statuses, injected transport faults) -> key set, bozo, exception kind, parsers run",
                    "M-api header merge ~ result.headers of real exchanges with caller-supplied response_headers (names in any case on both sides)",
                    "M-api base-URI choice ~ the base URI handed to the parser (href / Content-Location combinations)"]
TRUSTED = ["Lean model FeedVerif/Model/Api.lean (HTTP stage of the result assembly, header merge, base URI choice); requests / urllib3 / the socket layer are runtime and exercised through a loopback "
           "server inside the harness process", "make_safe_absolute_uri facts used by online_base_eq_offline are M-uri's (C04)"]
ASSUMPTIONS = ["header names are ASCII (str.lower = ASCII lower-casing there)", "the requests timeout is shortened to 0.4 s for the stalled-response fault by wrapping requests.get"]


def rcase(rng, name):
    return rng.choice([name, name.lower(), name.upper(), name.title(), "".join(c.upper() if rng.random() < 0.5 else c.lower() for c in name)])


def gen_body(rng):
    r = rng.random()
    if r < 0.45:
        return feedgen.vocab_doc(rng).encode("utf-8"), "xml"
    if r < 0.75:
        af = feedgen.abstract_feed(rng)
        fmt = rng.choice(feedgen.FORMATS)
        return feedgen.serialize(af, fmt, typed=True).encode("utf-8"), ("json" if fmt.startswith("json") else "xml")
    if r < 0.85:
        d = '<?xml version="1.0" encoding="iso-8859-1"?><rss version="2.0"><channel><title>caf\xe9</title><link>rel/link</link><item><title>x</title><link>i/1</link></item></channel></rss>'
        return d.encode("iso-8859-1"), "latin1"
    if r < 0.93:
        return rng.choice([b"", b"not a feed", b"<rss", b"\xff\xfe\x00", b"{}", b"<html><body>404</body></html>"]), "junk"
    return (feedgen.vocab_doc(rng)[:rng.randint(50, 400)]).encode("utf-8"), "truncated"


def gen_exchange(rng, base):
    body, kind = gen_body(rng)
    hdrs = []
    ct = {"xml": ["application/xml; charset=utf-8", "application/rss+xml", "text/xml", "application/atom+xml; charset=UTF-8", "text/xml; charset=iso-8859-1", "application/xml"],
          "json": ["application/json", "application/feed+json; charset=utf-8", "application/json"], "latin1": ["text/xml; charset=iso-8859-1", "application/xml", "text/xml"],
          "junk": ["text/html", "application/octet-stream", "application/xml"], "truncated": ["application/xml; charset=utf-8"]}[kind]
    if rng.random() < 0.9:
        hdrs.append((rcase(rng, "Content-Type"), rng.choice(ct)))
    instant = None
    if rng.random() < 0.5:
        hdrs.append((rcase(rng, "ETag"), rng.choice(['"abc"', 'W/"x-1"', "plain", '""'])))
    lm = rng.random()
    if lm < 0.4:
        instant = feedgen.rand_instant(rng)
        # the HTTP-date forms a recipient has to accept besides IMF-fixdate (RFC 9110 5.6.7: asctime) and the ISO 8601 stamps some servers send
        form = rng.choice(["imf", "imf", "imf", "asctime", "iso"])
        hdrs.append((rcase(rng, "Last-Modified"), civil.r822(instant, 0, zone="gmt") if form == "imf" else civil.rasctime(instant, 0) if form == "asctime" else civil.rw3(instant, 0, zone="Z")))
    elif lm < 0.5:
        hdrs.append((rcase(rng, "Last-Modified"), rng.choice(["garbage", "yesterday"])))
    cl = None
    if rng.random() < 0.3:
        cl = rng.choice(["other/place.xml", "/abs/path", "http://elsewhere.example/feed", "../up"])
        hdrs.append((rcase(rng, "Content-Location"), cl))
    if rng.random() < 0.3:
        hdrs.append((rcase(rng, "Content-Language"), rng.choice(["en", "fr-CA"])))
    if rng.random() < 0.3:
        hdrs.append((rcase(rng, "X-Custom"), "v%d" % rng.randrange(9)))
    status = rng.choice([200, 200, 200, 200, 404, 410, 500, 203, 206])
    caller = None
    if rng.random() < 0.45:
        caller = {}
        if rng.random() < 0.7:
            caller[rcase(rng, "Content-Type")] = rng.choice(["application/xml; charset=utf-8", "text/xml; charset=iso-8859-1", "application/json", "text/plain"])
        if rng.random() < 0.3:
            caller[rcase(rng, "Content-Location")] = rng.choice(["http://override.example/base/", "rel/base/"])
        if rng.random() < 0.3:
            caller[rcase(rng, "X-Custom")] = "caller"
        if rng.random() < 0.2:
            caller[rcase(rng, "Content-Language")] = "de"
    hops = rng.choice([0, 0, 0, 1, 2, 3])
    return {"body": body, "kind": kind, "headers": hdrs, "status": status, "caller": caller, "hops": hops, "redirect_code": rng.choice([301, 302, 303, 307, 308]), "instant": instant, "cl": cl,
            "scheme_case": rng.choice([None, None, None, "HTTP", "Http"])}


def summary(r):
    return {"feed": plain(r.feed), "entries": plain(r.entries), "encoding": r.get("encoding"), "version": r.get("version"), "namespaces": dict(r.get("namespaces", {})),
            "bozo": bool(r.bozo), "bozo_class": type(r.get("bozo_exception")).__name__ if r.bozo else None}


_ctr = [0]


def run_exchange(srv, ex):
    """returns findings"""
    import feedparser
    _ctr[0] += 1
    pid = "/x%d" % _ctr[0]
    path = pid
    # redirect chain: /x..r0 -> /x..r1 -> ... -> /x..
    first = path
    for h in range(ex["hops"]):
        src = "%s_r%d" % (pid, h)
        dst = "%s_r%d" % (pid, h + 1) if h + 1 < ex["hops"] else path
        srv.table[src] = (ex["redirect_code"], [("Location", dst if h % 2 == 0 else srv.url(dst))], b"")
        if h == 0:
            first = src
    srv.table[path] = (ex["status"], ex["headers"], ex["body"])
    url, final = srv.url(first), srv.url(path)
    # URI schemes are case-insensitive (RFC 3986 3.1): HTTP://host/ is the same request
    if ex.get("scheme_case"):
        url = ex["scheme_case"] + url[4:]
    w = {"exchange": ex}
    with warnings.catch_warnings():
        warnings.simplefilter("ignore")
        try:
            on = feedparser.parse(url, response_headers=ex["caller"])
        except Exception as e:
            return [Finding(("raises", "online", type(e).__name__), w, "parse(url) raises %s: %s" % (type(e).__name__, e))]
    fs = []

    def bad(what, got, want):
        fs.append(Finding(("online", what), w, "parse(url): %s is %r, expected %r" % (what, got, want), observed=got, expected=want))
    if on.get("status") != ex["status"]:
        bad("status", on.get("status"), ex["status"])
    if on.get("href") != final:
        bad("href", on.get("href"), final)
    # the headers the response really carried (as requests saw them), lower-cased, then the caller's on top
    exp_h = {}
    for k, v in ex["headers"]:
        exp_h[k.lower()] = v
    exp_h.setdefault("content-length", str(len(ex["body"])))
    exp_h.setdefault("connection", "close")
    got_h = dict(on.get("headers", {}))
    for k in ("server", "date"):
        got_h.pop(k, None)
    for k, v in (ex["caller"] or {}).items():
        exp_h[k.lower()] = v
    if got_h != exp_h:
        k = next((k for k in sorted(set(got_h) | set(exp_h)) if got_h.get(k) != exp_h.get(k)), None)
        if not ex["body"] and ex["caller"] and k in {x.lower() for x in ex["caller"]}:
            fs.append(Finding(("online", "headers-not-merged-for-empty-body"), w, "parse(url, response_headers=...) with an EMPTY response body returns before the caller's response_headers are "
                              "merged (api.py:219-225): headers[%s] is %r, the caller said %r" % (k, got_h.get(k), exp_h.get(k)), observed=got_h.get(k), expected=exp_h.get(k)))
        else:
            bad("headers[%s]" % ("caller-override" if ex["caller"] and k in {x.lower() for x in ex["caller"]} else "response"), got_h.get(k), exp_h.get(k))
    resp_l = {k.lower(): v for k, v in ex["headers"]}
    if ("etag" in resp_l) != ("etag" in on) or ("etag" in on and on["etag"] != resp_l["etag"]):
        bad("etag", on.get("etag"), resp_l.get("etag"))
    if resp_l.get("last-modified"):
        if on.get("modified") != resp_l["last-modified"]:
            bad("modified", on.get("modified"), resp_l["last-modified"])
        if ex["instant"] is not None:
            got = on.get("modified_parsed")
            if got is None or tuple(got)[:6] != tuple(civil.tuple9(ex["instant"]))[:6]:
                bad("modified_parsed", got and tuple(got), tuple(civil.tuple9(ex["instant"])))
    elif "modified" in on:
        bad("modified", on.get("modified"), "<absent>")
    # offline: the body with the response's headers, the final URL as Content-Location, the caller's on top
    off_h = {k: v for k, v in ex["headers"]}
    for k in list(off_h):
        if k.lower() == "content-location":
            del off_h[k]
    off_h["content-length"] = str(len(ex["body"]))
    off_h["connection"] = "close"
    off_h["content-location"] = urllib.parse.urljoin(final, ex["cl"]) if ex["cl"] else final
    for k, v in (ex["caller"] or {}).items():
        for k2 in list(off_h):
            if k2.lower() == k.lower():
                del off_h[k2]
        off_h[k] = v
    caller_cl = next((v for k, v in (ex["caller"] or {}).items() if k.lower() == "content-location"), None)
    if caller_cl is not None:
        off_h = {k: v for k, v in off_h.items() if k.lower() != "content-location"}
        off_h["content-location"] = urllib.parse.urljoin(final, caller_cl)
    with warnings.catch_warnings():
        warnings.simplefilter("ignore")
        try:
            off = feedparser.parse(ex["body"], response_headers=off_h)
        except Exception as e:
            return fs + [Finding(("raises", "offline", type(e).__name__), w, "offline parse raises %s" % type(e).__name__)]
    a, b = summary(on), summary(off)
    for k in ("bozo", "bozo_class", "encoding", "version", "namespaces", "feed", "entries"):
        if a[k] != b[k]:
            fs.append(Finding(("online-vs-offline", k, "caller-headers" if ex["caller"] else "plain", "content-location" if (ex["cl"] or caller_cl) else "no-cl"), w,
                              "fetching and offline parsing differ at %s: online %s, offline %s" % (k, str(a[k])[:200], str(b[k])[:200]), observed=str(a[k])[:400], expected=str(b[k])[:400]))
            break
    return fs


# (a connection closed INSIDE the header block is accepted by http.client as the end of the headers, and a truncated gzip stream is decoded as far as it goes by urllib3:
#  both are successful transfers as far as requests is concerned, so they are not in this list)
FAULTS = ["refused", "close-before-status", "garbage-status", "short-body", "bad-chunk", "bad-gzip", "reset-mid-body", "redirect-loop", "redirect-nowhere", "invalid-url", "stall"]


def run_fault(srv, raw, kind, rng):
    import feedparser
    import requests
    body = b"<rss version='2.0'><channel><title>t</title></channel></rss>"
    url = raw.url("/f")
    raw.script = None
    patch_timeout = False
    if kind == "refused":
        url = "http://127.0.0.1:%d/" % loopback.closed_port()
    elif kind == "close-before-status":
        raw.script = {"payload": b""}
    elif kind == "garbage-status":
        raw.script = {"payload": rng.choice([b"\x00\x01\x02garbage\r\n\r\n", b"HTTP/9.9 banana\r\n\r\n", b"ICY 200 OK\r\n"])}
    elif kind == "short-body":
        k = rng.randrange(0, len(body))
        raw.script = {"payload": b"HTTP/1.1 200 OK\r\nContent-Type: application/xml\r\nContent-Length: %d\r\n\r\n" % len(body) + body[:k]}
    elif kind == "bad-chunk":
        raw.script = {"payload": b"HTTP/1.1 200 OK\r\nContent-Type: application/xml\r\nTransfer-Encoding: chunked\r\n\r\n" + rng.choice([b"zz\r\n" + body, b"5\r\n<rss \r\nXYZ\r\n", b"ffff\r\n" + body])}
    elif kind == "bad-gzip":
        data = rng.choice([body, b"\x1f\x8b\x08garbage"])
        raw.script = {"payload": b"HTTP/1.1 200 OK\r\nContent-Type: application/xml\r\nContent-Encoding: gzip\r\nContent-Length: %d\r\n\r\n" % len(data) + data}
    elif kind == "reset-mid-body":
        raw.script = {"payload": b"HTTP/1.1 200 OK\r\nContent-Type: application/xml\r\nContent-Length: 5000\r\n\r\n" + body, "rst": True}
    elif kind == "redirect-loop":
        srv.table["/loop"] = (302, [("Location", "/loop")], b"")
        url = srv.url("/loop")
    elif kind == "redirect-nowhere":
        srv.table["/nowhere"] = (302, [("Location", rng.choice(["http://127.0.0.1:%d/" % loopback.closed_port(), "http://[::1", "ftp://127.0.0.1/x", "http://"]))], b"")
        url = srv.url("/nowhere")
    elif kind == "invalid-url":
        url = rng.choice(["http://", "http:///nohost", "https://", "http://exa mple.invalid/", "http://127.0.0.1:99999/", "http://%zz/", "http://[::1/", "http://\x00/"])
    elif kind == "stall":
        raw.script = {"payload": b"HTTP/1.1 200 OK\r\nContent-Length: 100\r\n\r\npartial", "stall": 1.2}
        patch_timeout = True
    w = {"fault": kind, "url": url}
    real_get = requests.get

    def quick_get(*a, **k):
        k["timeout"] = 0.4
        return real_get(*a, **k)
    with warnings.catch_warnings():
        warnings.simplefilter("ignore")
        try:
            if patch_timeout:
                with mock.patch.object(requests, "get", quick_get):
                    r = feedparser.parse(url)
            else:
                r = feedparser.parse(url)
        except Exception as e:
            return [Finding(("fault-raises", kind, type(e).__name__), w, "transport fault '%s': parse raises %s: %s" % (kind, type(e).__name__, str(e)[:160]))]
    fs = []
    if not r.bozo or "bozo_exception" not in r:
        fs.append(Finding(("fault-not-bozo", kind), w, "transport fault '%s': bozo=%r, bozo_exception %s" % (kind, r.bozo, "present" if "bozo_exception" in r else "absent")))
    elif kind not in ("invalid-url", "redirect-nowhere") and not isinstance(r.bozo_exception, requests.RequestException):
        fs.append(Finding(("fault-wrong-exception", kind, type(r.bozo_exception).__name__), w, "transport fault '%s': the attached exception is %r, not the transport's" % (kind, r.bozo_exception)))
    return fs


def search(ctx, focus=None):
    rng = ctx.rng
    srv, raw = loopback.Scripted(), loopback.Raw()
    failures, n, distinct = [], 0, set()
    dist = {}
    try:
        for _ in range(ctx.n(150, 2500)):
            ex = gen_exchange(rng, None)
            n += 1
            distinct.add((ex["body"], str(ex["headers"]), ex["status"], str(ex["caller"]), ex["hops"]))
            dist["status-%d" % ex["status"]] = dist.get("status-%d" % ex["status"], 0) + 1
            dist["hops-%d" % ex["hops"]] = dist.get("hops-%d" % ex["hops"], 0) + 1
            if ex["caller"]:
                dist["caller-headers"] = dist.get("caller-headers", 0) + 1
            failures += run_exchange(srv, ex)
            srv.table.clear()
        for _ in range(ctx.n(2, 25)):
            for kind in FAULTS:
                n += 1
                distinct.add((kind, n))
                dist["fault:" + kind] = dist.get("fault:" + kind, 0) + 1
                failures += run_fault(srv, raw, kind, rng)
    finally:
        srv.close()
        raw.close()
    return {"evaluations": n, "distinct_nontrivial": len(distinct), "failures": failures, "distribution": dist,
            "rule": "loopback exchanges: bodies (vocabulary-wide feeds, abstract feeds in the eight formats, latin-1 feed, junk, truncated) x response header sets (names in random case; content types "
                    "with / without charset; ETag; Last-Modified from a known instant (IMF-fixdate, asctime, ISO 8601) / garbage; the URL's scheme in lower / upper / mixed case; Content-Location relative / absolute / absent; Content-Language; custom) x status {200, 203, 206, "
                    "404, 410, 500} x redirect chains of 0-3 hops (301/302/303/307/308, relative and absolute Location) x caller response_headers overriding in any case; oracle: status, final "
                    "href, lower-cased merged headers, etag, modified and its parsed instant (civil-date oracle), and equality with offline parsing of the body under the same headers + final URL "
                    "as Content-Location; transport faults {refused, closed before status, garbage status line, closed inside headers, short body at every cut, bad chunk framing, bad gzip, reset "
                    "mid-body, redirect loop, redirect to nowhere / invalid, invalid URL strings, stalled response}: returns, bozo set, the transport exception attached",
            "samples": [{"fault": "short-body"}]}


def correspondence(ctx):
    rng = ctx.rng
    srv, raw = loopback.Scripted(), loopback.Raw()
    lines, exp, metas = [], [], []
    dist = {"ok": 0, "fault": 0, "hdr": 0, "base": 0}
    dis = []
    try:
        import feedparser.api as api
        import feedparser.urls as U
        for i in range(ctx.n(80, 1200)):
            ex = gen_exchange(rng, None)
            path = "/c%d" % i
            srv.table[path] = (ex["status"], ex["headers"], ex["body"])
            base_seen = []

            class SpyStrict(api.StrictFeedParser):
                def __init__(self, baseuri, *a, **k):
                    base_seen.append(baseuri)
                    super().__init__(baseuri, *a, **k)
            with mock.patch.object(api, "StrictFeedParser", SpyStrict):
                st, obs = apilib.observe(srv.url(path), ex["caller"], True)
            if st is None:
                dis.append({"what": "parse(url) raised %r" % (obs,)})
                continue
            lines.append(apilib.line_for(st))
            exp.append(apilib.expected(obs))
            metas.append({"exchange": str(ex)[:300]})
            dist["ok"] += 1
            # header merge
            resp_items = list(ex["headers"]) + [("Content-Length", str(len(ex["body"]))), ("Connection", "close")]
            caller_items = list((ex["caller"] or {}).items())
            import feedparser
            with warnings.catch_warnings():
                warnings.simplefilter("ignore")
                r = feedparser.parse(srv.url(path), response_headers=ex["caller"])
            got = {k: v for k, v in r.get("headers", {}).items() if k not in ("server", "date")}
            lines.append("api hdr %d %d %s" % (int(not ex["body"]), len(resp_items), " ".join("%s %s" % (enc(k), enc(v)) for k, v in resp_items + caller_items)))
            exp.append(";".join(sorted("%s=%s" % (enc(k), enc(v)) for k, v in got.items())))
            metas.append({"headers": str(resp_items)[:200], "caller": str(caller_items)[:200]})
            dist["hdr"] += 1
            # base URI
            if base_seen:
                href = r.get("href", "")
                cl = r["headers"].get("content-location", "")
                lines.append("api base %s %s %s %s" % (enc(href), enc(cl), enc(U.make_safe_absolute_uri(href, cl) if href else ""), enc(U.make_safe_absolute_uri(cl))))
                exp.append(enc(base_seen[-1]))
                metas.append({"href": href, "content-location": cl})
                dist["base"] += 1
            srv.table.clear()
        for kind in FAULTS:
            if kind in ("stall",):
                continue
            # stage outcomes under a fault
            url = None
            raw.script = None
            if kind == "refused":
                url = "http://127.0.0.1:%d/" % loopback.closed_port()
            elif kind == "short-body":
                raw.script = {"payload": b"HTTP/1.1 200 OK\r\nContent-Length: 50\r\n\r\nshort"}
                url = raw.url()
            elif kind == "garbage-status":
                raw.script = {"payload": b"\x00\x01garbage\r\n\r\n"}
                url = raw.url()
            elif kind == "redirect-loop":
                srv.table["/loop"] = (302, [("Location", "/loop")], b"")
                url = srv.url("/loop")
            else:
                continue
            st, obs = apilib.observe(url, None, True)
            if st is None:
                dis.append({"what": "parse(url) raised under fault %s: %r" % (kind, obs)})
                continue
            lines.append(apilib.line_for(st))
            exp.append(apilib.expected(obs))
            metas.append({"fault": kind})
            dist["fault"] += 1
    finally:
        srv.close()
        raw.close()
    got = vlib.run_driver(lines) if lines else []
    for g, e, l, m in zip(got, exp, lines, metas):
        if g != e and len(dis) < 20:
            dis.append(dict(m, line=l[:300], model=g[:400], impl=e[:400]))
    return {"cases": len(lines), "distinct": len(set(lines)), "unmodelled": 0, "disagreements": dis, "distribution": dist, "samples": [{"line": lines[0][:200], "expected": exp[0][:200]}] if lines else []}


def replay(w):
    srv, raw = loopback.Scripted(), loopback.Raw()
    try:
        import random
        if "fault" in w:
            fs = []
            for s in range(6):
                fs = run_fault(srv, raw, w["fault"], random.Random(s))
                if fs:
                    break
        else:
            fs = run_exchange(srv, w["exchange"])
    finally:
        srv.close()
        raw.close()
    return (bool(fs), fs[0].what if fs else "online result equals offline parsing; HTTP metadata recorded; faults become bozo")


TECHNIQUE = "Lean 4 proof on a model of the HTTP glue (header merge: caller over response, case-insensitively, for every header list; online and offline hand the parsers the same headers and base URI; transport failure => bozo with no parser run; recorded keys) + correspondence on real loopback exchanges + online-vs-offline differential and transport fault injection"
LEVEL_TEXT = ("Kernel-checked on M-api: effective_lookup / caller_overrides / response_passes_through (for EVERY response header list and caller mapping, in any case: the caller's value wins, "
              "else the response's last occurrence), online_headers_eq_offline (fetching and offline parsing with response ++ caller headers give the same lookups), online_base_eq_offline, "
              "transport_fault_is_bozo (bozo, the transport exception, no parser run, no status key), http_keys_recorded (status, href always; etag / modified(_parsed) exactly when the headers "
              "carry them). Tie: the model predicts result keys / headers / base URI of real loopback exchanges.")
LEVEL_NOTE = ("Trusted: Lean kernel + standard axioms; requests / urllib3 / sockets are runtime (exercised, not modelled): that every transport failure surfaces as requests.RequestException inside "
              "http.get's try block is established by fault injection at each stage of the exchange, not proved. Partial by nature: real networks.")
