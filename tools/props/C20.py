"""C20 — damage late in a document never destroys what was parsed before it."""
import io
import re
import warnings

import vlib
from vlib import Finding
import feedgen
import mixlib
from props import C19

LEAN_MODULES = ["FeedVerif.Props.C20", "FeedVerif.Model.MixinDriver"]
CORR_OBLIGATIONS = ["M-mixin (stage 1) ~ the real handler machine on damaged documents (state after every tag, whole result)",
                    "loose event stream of a damaged document has the event stream of the undamaged prefix as a prefix (tokenizer prefix-stability, validated)"]
TRUSTED = C19.TRUSTED + ["sgmllib's tolerance of damage after the cut point (validated by the prefix-stability obligation, not proved)"]
ASSUMPTIONS = ["the re-read of the stream for the loose pass is C07's subject (M-stream); here it is exercised through all delivery forms by the search"]


def plain(x):
    if isinstance(x, dict):
        return {k: plain(dict.__getitem__(x, k)) for k in dict.keys(x)}
    if isinstance(x, (list, tuple)):
        return [plain(i) for i in x]
    return x


def entry_ends(doc):
    """offsets just after each </item> / </entry>"""
    return [m.end() for m in re.finditer(r"</item>|</entry>", doc)]


DAMAGE = ["truncate", "unclosed", "mismatch", "stray-lt", "stray-amp", "undefined-entity", "garbage", "entity-between", "nul", "bad-attr", "stray-entry-end", "garbage-bytes", "broken-next-start"]
GARBAGE_BYTES = b"\x9d\xff\xfe\x81 garbage"          # not decodable as UTF-8: appended at the byte level


def damage(rng, doc, pos, kind):
    tail = doc[pos:]
    if kind == "truncate":
        cut = pos + rng.randrange(0, max(1, len(tail)))
        return doc[:cut]
    if kind == "garbage-bytes":
        return doc                       # the bytes are appended by deliver(): they are not text
    if kind == "garbage":
        return doc + rng.choice(["\x01\x02garbage", "<<<>>>", "trailing text &", "</rss></rss>", "<item><title>ghost"])
    if kind == "stray-entry-end":
        # an unmatched entry end tag directly after the k-th complete entry (whatever follows -- metadata, further entries -- is parsed with it in effect)
        m = re.search(r"</(item|entry)>$", doc[:pos])
        return doc[:pos] + (m.group(0) if m else "</item>") + doc[pos:]
    if kind == "broken-next-start":
        # the START tag of the entry that follows the k-th complete one is destroyed (a stray & or < right after its '<', or inside its name): its children
        # arrive without an entry having been opened -- they must not be written into the complete entries
        m = re.search(r"<(item|entry)\b", doc[pos:])
        if not m:
            return doc[:pos] + " < " + doc[pos:]
        at = pos + m.start() + rng.choice([1, 1, 3])
        return doc[:at] + rng.choice(["&", "<", "& "]) + doc[at:]
    # insert something at a random position at or after pos
    ins = pos + (rng.randrange(0, len(tail)) if tail and rng.random() < 0.7 else 0)
    # keep insertion outside of tags for the text-level damages
    if kind in ("stray-lt", "stray-amp", "undefined-entity", "entity-between", "nul"):
        gt = doc.find(">", ins)
        ins = gt + 1 if gt >= 0 else len(doc)
    piece = {"unclosed": "<b>", "mismatch": "</nosuch>", "stray-lt": " < ", "stray-amp": " & ", "undefined-entity": rng.choice(["&nosuch;", "&nbsp;", "&copy;"]),
             "entity-between": rng.choice(["&nosuch;", "&amp;", "&#38;"]), "nul": "\x00", "bad-attr": '<x a="1" a="2"/>'}[kind]
    if kind == "entity-between":
        ins = pos            # directly after the k-th entry's end tag: no text-collecting element is open there
    return doc[:ins] + piece + doc[ins:]


FORMS = ["bytes", "bytesio", "str", "stringio", "bytesio-offset"]
# bytesio-offset: the caller's stream holds ANOTHER complete feed before the document and is positioned at the document's first byte
PRECEDING = b'<rss version="2.0"><channel><title>another feed</title><item><title>alpha 0</title><guid>urn:alpha:0</guid></item><item><title>alpha 1</title><guid>urn:alpha:1</guid></item></channel></rss>\n'
CJK = ["中文标题", "日本語のテキスト", "한국어 텍스트", "plain", "über naïve café", "标题 two", "x"]


def content_feed(rng):
    """entries that carry a full-content element (Atom <content>, a SECOND <summary> / <description>, <content:encoded>) at a random position among their children:
    the handlers of these leave state behind (element stack frames, hasContent, _summaryKey) that the NEXT entry's start tag normally resets"""
    atom = rng.random() < 0.6
    n = rng.randint(2, 5)
    out = []
    for i in range(n):
        kids = ["<title>Title %d</title>" % i, ("<id>urn:example:entry:%d</id>" if atom else "<guid>urn:example:entry:%d</guid>") % i,
                ('<link rel="alternate" type="text/html" href="http://example.org/%d.html"/>' if atom else "<link>http://example.org/%d.html</link>") % i,
                ("<updated>2020-01-0%dT00:00:00Z</updated>" if atom else "<pubDate>Thu, 0%d Jan 2020 00:00:00 GMT</pubDate>") % (i + 1),
                ('<category term="topic%d"/>' if atom else "<category>topic%d</category>") % i]
        body = rng.choice(['<content type="text">Body of entry %d</content>', "<summary>first %d</summary><summary>second</summary>", '<content type="html">Body %d</content><summary>s</summary>'] if atom else
                          ["<description>first %d</description><description>second</description>", '<content:encoded xmlns:content="http://purl.org/rss/1.0/modules/content/">Body %d</content:encoded>',
                           "<description>d %d</description>"]) % i
        kids.insert(rng.randint(0, len(kids)), body)
        out.append(("<entry>%s</entry>\n" if atom else "<item>%s</item>\n") % "".join(kids))
    if atom:
        return ('<?xml version="1.0" encoding="utf-8"?>\n<feed xmlns="http://www.w3.org/2005/Atom"><title>Example feed</title><id>urn:example:feed</id><updated>2020-01-09T00:00:00Z</updated>\n'
                + "".join(out) + "</feed>\n")
    return '<?xml version="1.0" encoding="utf-8"?>\n<rss version="2.0"><channel><title>Example feed</title><link>http://example.org/</link>\n' + "".join(out) + "</channel></rss>\n"


def deliver(doc, form, tail=b""):
    if form == "bytes":
        return doc.encode("utf-8") + tail
    if form == "bytesio":
        return io.BytesIO(doc.encode("utf-8") + tail)
    if form == "bytesio-offset":
        f = io.BytesIO(PRECEDING + doc.encode("utf-8") + tail)
        f.seek(len(PRECEDING))
        return f
    if form == "str":
        return doc
    return io.StringIO(doc)


def loose_entries(doc):
    import feedparser
    import feedparser.api as api
    saved = api._XML_AVAILABLE
    try:
        api._XML_AVAILABLE = False
        with warnings.catch_warnings():
            warnings.simplefilter("ignore")
            r = feedparser.parse(doc.encode("utf-8"))
    finally:
        api._XML_AVAILABLE = saved
    return [plain(e) for e in r.entries]


_C1 = {c: (bytes([c]).decode("cp1252", "ignore") or chr(c)) for c in range(0x80, 0xA0)}


def redecoded_equal(ref, got, enc):
    """got is ref with every string s re-read as s.encode('utf-8').decode(enc) (values that went through pop() additionally have their C1 controls
    replaced by the windows-1252 look-alikes, like every value)"""
    if not enc or enc.lower().replace("_", "-") in ("utf-8", "utf8"):
        return False

    def eq(a, b, key=None):
        if isinstance(a, str) and isinstance(b, str):
            try:
                t = a.encode("utf-8").decode(enc)
            except (UnicodeError, LookupError):
                return False
            return b == t or b == t.translate(_C1)
        if isinstance(a, dict) and isinstance(b, dict):
            return set(a) == set(b) and all(eq(a[k], b[k], k) for k in a)
        if isinstance(a, list) and isinstance(b, list):
            if key == "tags":
                # tags are de-duplicated by value: a term that arrives once as element text (through pop(): C1 controls translated) and once as an attribute (not
                # translated) is ONE tag in the reference and two different strings after the re-decoding -- the same mechanism, not a second defect
                return all(any(eq(x, y) for x in a) for y in b) and all(any(eq(x, y) for y in b) for x in a)
            return len(a) == len(b) and all(eq(x, y) for x, y in zip(a, b))
        return a == b
    try:
        return eq(ref, got)
    except Exception:
        return False


def check_case(doc, damaged, k, kind, form):
    import feedparser
    w = {"doc": doc, "damaged": damaged, "k": k, "kind": kind, "form": form}
    ref = loose_entries(doc)[:k]
    with warnings.catch_warnings():
        warnings.simplefilter("ignore")
        try:
            r = feedparser.parse(deliver(damaged, form, GARBAGE_BYTES if kind == "garbage-bytes" else b""))
        except Exception as e:
            return [Finding(("raises", type(e).__name__, kind), w, "parse() of a document damaged after entry %d (%s, delivered as %s) raises %s: %s" % (k, kind, form, type(e).__name__, e))]
    # is the damaged document still well-formed? (some insertions are harmless) -- then nothing is claimed about bozo
    import xml.parsers.expat
    wf = True
    try:
        p = xml.parsers.expat.ParserCreate(namespace_separator=" ")
        p.Parse(damaged.encode("utf-8") + (GARBAGE_BYTES if kind == "garbage-bytes" else b""), True)
    except xml.parsers.expat.ExpatError:
        wf = False
    fs = []
    if not wf and not r.bozo:
        fs.append(Finding(("bozo-unset", kind), w, "document damaged after entry %d (%s) parses with bozo unset" % (k, kind)))
    got = [plain(e) for e in r.entries[:k]]
    if not wf and got != ref and kind == "garbage-bytes" and redecoded_equal(ref, got, r.get("encoding")):
        # identified by what it produces: the SAME entries, every string re-read under the single-byte encoding the whole document was decoded with
        # after the undecodable tail made the utf-8 reading fail
        fs.append(Finding(("entries-redecoded", kind), w, "document damaged after entry %d by appended bytes that are not UTF-8 (delivered as %s): the whole document -- the %d complete entries "
                          "included -- is decoded as %s, so their non-ASCII text comes back as mojibake" % (k, form, k, r.get("encoding")), observed=got[:1], expected=ref[:1]))
    elif not wf and got != ref:
        n = len(r.entries)
        which = next((i for i in range(min(len(got), len(ref))) if got[i] != ref[i]), min(len(got), len(ref)))
        fs.append(Finding(("entries-lost" if len(got) < len(ref) else "entries-changed", kind, "text" if form in ("str", "stringio") else "binary"), w,
                          "document damaged after entry %d (%s, delivered as %s): first %d entries differ from the loose-mode result of the original "
                          "(got %d entries in total; first difference at entry %d)" % (k, kind, form, k, n, which), observed=got[which:which + 1], expected=ref[which:which + 1]))
    return fs


def correspondence(ctx):
    rng = ctx.rng
    docs = []
    for _ in range(ctx.n(200, 3000)):
        d, _e, _m = C19.gen_case(rng)
        d = d.decode("utf-8")
        ends = entry_ends(d)
        pos = rng.choice(ends) if ends else len(d) // 2
        dm = damage(rng, d, pos, rng.choice([x for x in DAMAGE if x not in ("undefined-entity", "entity-between", "stray-amp")]))
        docs.append(dm.encode("utf-8"))
    res = mixlib.corr(ctx, docs, {"content-type": "application/xml; charset=utf-8"})
    # tokenizer prefix-stability (validated): loose events of doc[:p] are a prefix of the loose events of doc[:p] + damage
    import trace as tr
    bad = 0
    checked = 0
    for _ in range(ctx.n(60, 800)):
        d = feedgen.vocab_doc(rng)
        ends = entry_ends(d)
        if not ends:
            continue
        p = rng.choice(ends)
        dm = d[:p] + rng.choice(["<b>", "</nosuch>", " < ", "<item><title>x", "\x01", "<![CDATA[ open", "<!-- open"])
        _r1, l1 = tr.traced_parse(d[:p].encode("utf-8"), loose=True)
        _r2, l2 = tr.traced_parse(dm.encode("utf-8"), loose=True)
        e1 = [(x["k"], x.get("tag"), x.get("text")) for x in l1 if x["k"] in ("start", "end", "data")]
        e2 = [(x["k"], x.get("tag"), x.get("text")) for x in l2 if x["k"] in ("start", "end", "data")]
        checked += 1
        # the undamaged prefix's stream without its implicit closing events
        core = e1
        if e2[:len(core)] != core:
            bad += 1
            if len(res["disagreements"]) < 20:
                res["disagreements"].append({"doc": dm, "what": "loose event stream of the damaged document does not extend that of its undamaged prefix"})
    res["distribution"]["prefix_stability_checked"] = checked
    res["distribution"]["prefix_stability_failed"] = bad
    res["cases"] += checked
    return res


def search(ctx, focus=None):
    rng = ctx.rng
    failures, n, distinct = [], 0, set()
    dist = {}
    for _ in range(ctx.n(140, 3000)):
        big = rng.random() < 0.25
        r = rng.random()
        if r < 0.2:
            # non-ASCII text and padding: character offsets and byte offsets drift apart (documents beyond the 8192-character / 64 KiB prefixes, and just within them)
            big = True
            doc = feedgen.vocab_doc(rng, fmt=rng.choice(["rss20", "atom10"]), nentries=rng.randint(3, 7), big=True, pad_unit=rng.choice(["填充文字 ", "パディング ", "remplissage é "]),
                                    pad_reps=rng.choice([300, 700, 1500, 4000]), texts=CJK)
        elif r < 0.4:
            doc = feedgen.vocab_doc(rng, fmt=rng.choice(["rss20", "atom10"]), nentries=rng.randint(2, 6), meta_between=True)
        elif r < 0.52:
            big = False
            doc = content_feed(rng)
        elif r < 0.6:
            # texts with CRLF line ends / tabs (the two back ends normalise them differently: what comes back must be the FALLBACK parser's reading)
            doc = feedgen.vocab_doc(rng, nentries=rng.randint(2, 5), texts=feedgen.PLAIN + ["first line\r\nsecond line", "a\r\nb\r\nc", "tab\there\r\n"])
        else:
            doc = feedgen.vocab_doc(rng, nentries=rng.randint(2, 6) if not big else rng.randint(3, 5), big=big, pad_reps=rng.choice([1200, 1200, 3500]))
        ends = entry_ends(doc)
        for k, pos in enumerate(ends, 1):
            if rng.random() < (0.4 if ctx.thorough else 0.75) and len(ends) > 2:
                continue
            for kind in (DAMAGE if ctx.thorough else list(dict.fromkeys(rng.sample(DAMAGE, 4) + ["broken-next-start"]))):
                form = rng.choice(FORMS) if not big else rng.choice(["str", "stringio", "bytes", "bytesio-offset", "bytesio"])
                if kind == "garbage-bytes" and form in ("str", "stringio"):
                    form = rng.choice(["bytes", "bytesio", "bytesio-offset"])
                dm = damage(rng, doc, pos, kind)
                n += 1
                distinct.add((dm, form))
                dist[kind] = dist.get(kind, 0) + 1
                failures += check_case(doc, dm, k, kind, form)
    return {"evaluations": n, "distinct_nontrivial": len(distinct), "failures": failures, "distribution": dist,
            "rule": "well-formed reference-free feeds (RSS 2.0 / RSS 1.0 / Atom 1.0 over core + dc/dcterms/itunes/media/georss/content/slash/wfw/unknown extension "
                    "elements, 2-6 entries, a quarter of them padded beyond the 8 KiB / 64 KiB prefix sizes; a fifth with CJK / accented text and padding so that character and byte offsets "
                    "drift apart; a fifth with feed-level metadata between and after the entries; an eighth whose entries carry full-content elements -- Atom content, a second summary / description, content:encoded -- at random positions) x every k x damage kinds {an unmatched entry end tag directly after the k-th entry, truncate, unclosed tag, mismatched "
                    "end tag, stray <, stray &, undefined entity in text, entity reference directly after the k-th end tag, garbage appended (text, or bytes that are not UTF-8), NUL, duplicate attribute, the NEXT entry's start tag destroyed by a stray & / <} "
                    "at random positions after the k-th entry x delivery {bytes, BytesIO, str, StringIO, a BytesIO positioned at the document after ANOTHER feed}; oracle: bozo set (when expat rejects the damaged document) "
                    "and entries[:k] equal to the loose-mode result of the undamaged document; distinct = distinct (damaged document, delivery form)",
            "samples": [{"kind": "mismatch", "k": 1}]}


def replay(w):
    if w.get("construct") == "redecoded":
        doc = ('<rss version="2.0"><channel><title>t</title><item><title>caf\u00e9 \u4e2d\u6587</title><guid>urn:1</guid></item>'
               '<item><title>second</title><guid>urn:2</guid></item></channel></rss>')
        fs = check_case(doc, doc, 2, "garbage-bytes", "bytes")
        fs = [f for f in fs if f.key[0] == "entries-redecoded"]
        return (bool(fs), fs[0].what if fs else "entries before the appended bytes keep their text")
    fs = check_case(w["doc"], w["damaged"], w["k"], w["kind"], w["form"])
    return (bool(fs), fs[0].what if fs else "bozo set and the first k entries preserved")


TECHNIQUE = "Lean 4 proof: completed entries are frozen under EVERY continuation of the event stream (invariant over the handler machine model, induction over events) + event-level correspondence on damaged documents + damage-position sweep against the loose-mode result"
LEVEL_TEXT = ("Kernel-checked on M-mixin (stages 1-5: structural handlers, fallback, dates, text constructs, summary / content, link / id, categories / enclosures): entry_end_closes_entry (after </item> / </entry> the machine is NOT in an entry, whatever stale frames the content handlers left on the element stack), completed_entries_frozen (for every state with no open entry and EVERY continuation of the event stream -- stray end "
              "tags, unclosed elements, further entries, any handler-less vocabulary -- the entries complete at that point are still there unchanged), step_older / "
              "run_older (the invariant, per event and by induction), entries_never_lost. Tie: the model follows the real strict/loose machine event by event on "
              "damaged documents; sgmllib's prefix-stability under damage is validated on recorded event streams.")
LEVEL_NOTE = ("Trusted: Lean kernel + standard axioms; the model covers the generic machinery and 43 of the 107 handler names -- for the other dedicated handlers the frozen-ness "
              "is checked by the search (entries[:k] vs loose-mode result of the original) over the whole handled vocabulary; sgmllib tokenization; the re-read "
              "of the stream after a strict failure (C07).")
