"""C12 — DOCTYPE content is contained: no nested-entity expansion, no content-driven I/O."""
import io
import re
import os
import sys
import tempfile
import warnings

import vlib
from vlib import Finding, enc, dec

LEAN_MODULES = ["FeedVerif.Props.C12", "FeedVerif.Model.DoctypeDriver", "FeedVerif.Model.MixinDriver"]
CORR_OBLIGATIONS = ["M-doctype.replaceDoctype ~ sanitizer.replace_doctype (version, rewritten bytes, entities dict) on generated prologs",
                    "M-mixin (stage 6: handle_entityref / handle_charref with the real self.entities lookups as recorded oracles) ~ the real loose handler machine on documents whose "
                    "internal subset declares entities that the content references: state after every event, whole result"]
TRUSTED = ["Lean model FeedVerif/Model/Doctype.lean: hand translation of RE_ENTITY_PATTERN / RE_DOCTYPE_PATTERN / RE_SAFE_ENTITY_PATTERN and of replace_doctype",
           "expat honours feature_external_ges = 0 and expands only what the (rebuilt) DOCTYPE declares (library)"]
ASSUMPTIONS = ["audit hooks see every file / socket / subprocess access made from Python-level code (C extensions that bypass auditing are not observed)"]

_AUDIT = {"on": False, "events": []}


def _hook(event, args):
    if _AUDIT["on"] and (event in ("open", "os.system", "subprocess.Popen", "urllib.Request", "socket.getaddrinfo", "socket.connect",
                                   "socket.bind", "ftplib.connect", "http.client.connect", "os.exec", "os.posix_spawn", "os.startfile")):
        _AUDIT["events"].append((event, repr(args)[:200]))


_installed = False


def ensure_hook():
    global _installed
    if not _installed:
        sys.addaudithook(_hook)
        _installed = True


class NonSeekable(io.RawIOBase):
    def __init__(self, data):
        self._b = io.BytesIO(data)

    def readable(self):
        return True

    def seekable(self):
        return False

    def readinto(self, b):
        d = self._b.read(len(b))
        b[:len(d)] = d
        return len(d)


# ------------------------------------------------------------------ prolog generator
KW_LAYOUTS = ["lines", "oneline", "indented", "crlf", "tabs", "peref", "comment-between", "spaces", "comment-tag-between", "pi-tag-between"]


def gen_prolog(rng, secret_path=None):
    """returns (bytes of a whole feed, info) ; info lists entity names by kind and the references used"""
    n = rng.randint(1, 6)
    ents, kinds = [], {}
    names = []
    values = {}
    for i in range(n):
        name = "e%d" % i
        kind = rng.choice(["literal", "literal", "charref", "nested", "nested", "external", "public", "parameter", "single-quoted", "backslash", "gt-in-value", "empty", "charref-nested", "mixed-charref"])
        if kind in ("nested", "charref-nested") and not names:
            kind = "literal"
        marker = "M%dX" % i
        if kind == "literal":
            decl = '<!ENTITY %s "%s text">' % (name, marker)
            if rng.random() < 0.15:
                # markup inside a replacement text (legal): '<b' before the document's first element
                decl = '<!ENTITY %s "%s <b>text</b>">' % (name, marker)
                kind = "markup-literal"
        elif kind == "charref":
            decl = '<!ENTITY %s "&#%s;">' % (name, rng.choice(["179", "x41", "60", "38"]))
        elif kind == "nested":
            ref = rng.choice(names)
            decl = '<!ENTITY %s "%s">' % (name, ("&%s;" % ref) * rng.randint(2, 10) + marker)
        elif kind == "charref-nested":
            # the ampersand of the nested reference is itself spelled as a character reference: the XML processor turns it into '&' when it stores the
            # replacement text, so the entity IS defined in terms of another one
            ref = rng.choice(names)
            amp = rng.choice(["&#38;", "&#x26;", "&#038;", "&#x0026;"])
            decl = '<!ENTITY %s "%s">' % (name, ("%s%s;" % (amp, ref)) * rng.randint(2, 10) + marker)
        elif kind == "mixed-charref":
            # text mixed with character references (harmless whether expanded or not; here to exercise the boundary of the safe pattern)
            decl = '<!ENTITY %s "Caf&#233; %s &#169;">' % (name, marker)
        elif kind == "external":
            decl = '<!ENTITY %s SYSTEM "%s">' % (name, secret_path or "file:///nonexistent/secret")
        elif kind == "public":
            decl = '<!ENTITY %s PUBLIC "-//X//Y" "http://127.0.0.1:9/%s.ent">' % (name, marker)
        elif kind == "parameter":
            decl = '<!ENTITY %% %s "%s">' % (name, '<!ENTITY inj%d &#34;&e0;&e0;&#34;>' % i if rng.random() < 0.5 else marker)
        elif kind == "single-quoted":
            if rng.random() < 0.7:
                kind = "single-quoted-nested"
                decl = "<!ENTITY %s '%s'>" % (name, rng.choice(["&e0;&e0;" + marker, '"&e0;&e0;' + marker, '"&e0;&e0;' + marker + '"', "x\"&e0;&e0;" + marker]))
            else:
                decl = "<!ENTITY %s '%s'>" % (name, marker)
        elif kind == "backslash":
            decl = '<!ENTITY %s "%s">' % (name, rng.choice([marker + "\\\\y", marker + "\\1", marker + "\\q", "\\g<0>"]))
        elif kind == "gt-in-value":
            decl = '<!ENTITY %s "%s > &e0;&e0;">' % (name, marker)
        else:
            decl = '<!ENTITY %s "">' % name
        if rng.random() < 0.05:
            decl = decl.replace("<!ENTITY", rng.choice(["<!entity", "<!Entity", "<! ENTITY"]))
        ents.append(decl)
        kinds[name] = kind
        names.append(name)
        if kind in ("literal", "backslash"):
            m_ = re.search(r'"(.*)"', decl)
            if m_:
                values[name] = m_.group(1)
    layout = rng.choice(KW_LAYOUTS)
    sep = {"lines": "\n", "oneline": "", "indented": "\n   ", "crlf": "\r\n", "tabs": "\t", "peref": "%p0;", "comment-between": "<!-- c -->", "spaces": "  ", "comment-tag-between": "<!-- <b>bold</b> <i -->", "pi-tag-between": "<?note <p x?>"}[layout]
    if layout == "peref":
        ents.insert(0, '<!ENTITY % p0 "">')
    subset = sep + sep.join(ents) + (sep if layout != "peref" else "")
    root = rng.choice(["rss", "feed"])
    dt_kind = rng.choice(["internal", "internal", "internal", "system+internal", "none-internal", "public-netscape", "system-refs+internal"])
    if dt_kind == "internal":
        doctype = "<!DOCTYPE %s [%s]>" % (root, subset)
    elif dt_kind == "system-refs+internal":
        # entity references parked inside the (never fetched, never parsed) system literal
        doctype = "<!DOCTYPE %s SYSTEM '%s' [%s]>" % (root, "".join("&%s;" % nm for nm in names) * rng.randint(1, 4), subset)
    elif dt_kind == "system+internal":
        doctype = '<!DOCTYPE %s SYSTEM "%s" [%s]>' % (root, rng.choice(["http://127.0.0.1:9/x.dtd", "http://127.0.0.1:9/<b>/x.dtd", "x<y"]), subset)
    elif dt_kind == "public-netscape":
        doctype = '<!DOCTYPE rss PUBLIC "-//Netscape Communications//DTD RSS 0.91//EN" "http://127.0.0.1:9/rss-0.91.dtd" [%s]>' % subset
    else:
        doctype = "<!DOCTYPE %s>" % root
    before = rng.choice(["", "", "<!-- comment -->", "<?pi x?>", "<!-- <!DOCTYPE fake> -->", "\n\n",
                         # text that LOOKS like a start tag before the DOCTYPE: the filter must still find the declaration
                         "<!-- <b>markup</b> in a comment -->", "<?php echo '<rss>'; ?>", "<!-- <rss version=\"2.0\"> --><!-- <a -->", "<!-- %s -->" % ("x" * (70000 if rng.random() < 0.15 else 10))])
    xmldecl = rng.choice(['<?xml version="1.0"?>', '<?xml version="1.0" encoding="utf-8"?>', ""])
    joiner = rng.choice(["\n", "", " "])
    refs = "".join("[&%s;]" % nm for nm in names)
    if root == "rss":
        body = '<rss version="2.0"><channel><title>T%s</title><item><description>D%s</description></item></channel></rss>' % (refs, refs)
    else:
        body = '<feed xmlns="http://www.w3.org/2005/Atom"><title>T%s</title><entry><summary>D%s</summary></entry></feed>' % (refs, refs)
    doc = joiner.join([x for x in (xmldecl, before, doctype, body) if x != ""] if joiner else [xmldecl, before, doctype, body])
    return doc, {"kinds": kinds, "layout": layout, "doctype": dt_kind, "names": names, "before": before[:30], "values": values}


def real_replace(data):
    from feedparser.sanitizer import replace_doctype
    v, out, ents = replace_doctype(data)
    return v, out, ents


def correspondence(ctx):
    rng = ctx.rng
    lines, exp, meta = [], [], []
    dist = {}
    datas = [b"", b" ", b"x", b"<", b"<a", b" \n<a/>", b"<!DOCTYPE", b"<!DOCTYPE a>", b"<!DOCTYPE a><a/>", b"<!ENTITY a \"x\">", b"<?xml?>\n<!DOCTYPE rss [\n<!ENTITY a \"x\">\n]>\n<rss/>",
             b"<!DOCTYPE a><!DOCTYPE b><a/>", b"text <!DOCTYPE a>", b"<!-- <!DOCTYPE x> --><a/>", b"<!--\n<!DOCTYPE x>\n--><a/>", b"<a><!DOCTYPE x></a>", b"<!DOCTYPE rss [<!ENTITY a \"x\"]><rss/>"]
    for _ in range(ctx.n(1500, 30000)):
        doc, info = gen_prolog(rng)
        d = doc.encode("utf-8")
        if rng.random() < 0.2 and d:
            i = rng.randrange(len(d))
            d = d[:i] + bytes([rng.choice(b"<>![]\"'& \n%;")]) + d[i + rng.choice([0, 1]):]
        datas.append(d)
        dist[info["layout"]] = dist.get(info["layout"], 0) + 1
    for d in datas:
        try:
            v, out, ents = real_replace(d)
            e = "%s %s%s" % (enc(v), enc(out.decode("latin-1")), "".join(" %s=%s" % (enc(k), enc(x)) for k, x in ents.items()))
        except Exception as ex:
            e = "raises " + type(ex).__name__
        lines.append("doctype replace %s" % enc(d.decode("latin-1")))
        exp.append(e)
        meta.append(d)
    got = vlib.run_driver(lines)
    dis = []
    for g, e, m in zip(got, exp, meta):
        # the model returns findall order with duplicates; the implementation a dict (last value wins, first position kept)
        g2 = canon_model(g)
        if g2 != e and len(dis) < 20:
            dis.append({"input": m, "model": g2[:300], "impl": e[:300]})
    res = {"cases": len(lines), "distinct": len(set(lines)), "unmodelled": 0, "disagreements": dis, "distribution": dist,
           "samples": [{"data": datas[10].decode(), "impl": exp[10][:200]}]}
    # the consumer of the table: the loose back end's reference callbacks (M-mixin stage 6)
    import mixlib
    docs = []
    names = ["me", "co", "x1", "long_name", "amp2"]
    values = ["plain text", "Tom and Jerry", "<b>markup</b>", "&#233;", "&#38;", "&#x3c;", "&#65;", "", "a very long replacement text " * 3, "&#xyz;", "it's"]
    refs = ["&%s;", "&%s;", "&amp;", "&lt;b&gt;", "&#38;", "&#60;", "&#65;", "&#x41;", "&nosuch;", "&quot;", "&apos;", "&#34;", "&#x27;", "&%s; and &%s;"]
    for _ in range(ctx.n(150, 2500)):
        decl = rng.sample(names, rng.randint(1, 3))
        subset = "".join('<!ENTITY %s "%s">' % (n_, rng.choice(values).replace('"', "")) for n_ in decl)
        def txt():
            r_ = rng.choice(refs)
            return "t " + (r_ % tuple(rng.choice(decl) for _i in range(r_.count("%s")))) + " u"
        body = "".join("<%s>%s</%s>" % (el, txt(), el) for el in rng.sample(["title", "description", "guid", "category", "comments", "x:other", "copyright", "link"], rng.randint(1, 4)))
        docs.append(('<!DOCTYPE rss [%s]><rss version="2.0" xmlns:x="http://unknown.example/"><channel><title>c</title><item>%s</item></channel></rss>' % (subset, body)).encode("utf-8"))
    r2 = mixlib.corr(ctx, docs, {"content-type": "application/xml; charset=utf-8"}, loose_p=1.0)
    res["cases"] += r2["cases"]
    res["distinct"] += r2["distinct"]
    res["unmodelled"] += r2["unmodelled"]
    for d_ in r2["disagreements"]:
        if len(res["disagreements"]) < 20:
            res["disagreements"].append(dict(d_, which="M-mixin stage 6 (references on the loose back end)"))
    res["distribution"]["mixin_stage6"] = r2["distribution"]
    return res


def canon_model(g):
    parts = g.split(" ")
    if len(parts) < 2:
        return g
    d = {}
    for kv in parts[2:]:
        k, _, v = kv.partition("=")
        d[k] = v
    return " ".join(parts[:2] + ["%s=%s" % (k, v) for k, v in d.items()])


# ------------------------------------------------------------------ search
def walk_text(r):
    out = []
    def w(x):
        if isinstance(x, str):
            out.append(x)
        elif isinstance(x, dict):
            for k in dict.keys(x):
                w(dict.__getitem__(x, k))
        elif isinstance(x, (list, tuple)):
            for i in x:
                w(i)
    w(r.get("feed", {}))
    w(r.get("entries", []))
    return out


def check_doc(docbytes, info, mode, secret=None, secret_path=None):
    """mode: (delivery, loose)"""
    import feedparser
    import feedparser.api as api
    ensure_hook()
    delivery, loose = mode[0], mode[1]
    opt = mode[2] if len(mode) > 2 else None             # the per-call optimistic_encoding_detection argument (None: not passed)
    w = {"doc": docbytes, "info": info, "mode": list(mode)}
    src = io.BytesIO(docbytes) if delivery == "bytesio" else NonSeekable(docbytes) if delivery == "nonseekable" else io.StringIO(docbytes.decode("utf-8", "replace"))
    saved = api._XML_AVAILABLE
    _AUDIT["events"] = []
    try:
        if loose:
            api._XML_AVAILABLE = False
        with warnings.catch_warnings():
            warnings.simplefilter("ignore")
            _AUDIT["on"] = True
            try:
                r = feedparser.parse(src) if opt is None else feedparser.parse(src, optimistic_encoding_detection=opt)
            except Exception as e:
                _AUDIT["on"] = False
                return []
            finally:
                _AUDIT["on"] = False
    finally:
        api._XML_AVAILABLE = saved
    fs = []
    events = [e for e in _AUDIT["events"] if "site-packages" not in e[1] and "/lib/python" not in e[1] and "__pycache__" not in e[1]]
    if events:
        fs.append(Finding(("io", events[0][0], delivery), w, "parse(stream) caused %s %s on behalf of the content" % events[0], observed=events[:5]))
    texts = walk_text(r)
    total = sum(len(t) for t in texts)
    kinds = info.get("kinds", {})
    names = info.get("names", [])
    # expansion markers: the marker M<i>X of a nested / external / parameter / gt entity must not appear
    try:
        beyond = docbytes.decode("utf-8").find("<!DOCTYPE") >= 60000
    except UnicodeDecodeError:
        try:
            beyond = docbytes.decode("utf-16" if docbytes[:2] in (b"\xff\xfe", b"\xfe\xff") and docbytes[2:4] != b"\x00\x00" else "utf-32").find("<!DOCTYPE") >= 14000
        except Exception:
            beyond = False
    for i, nm in enumerate(names):
        k = kinds.get(nm)
        if beyond and k in ("nested", "public", "parameter", "gt-in-value"):
            k = k  # classified below
        mk = "M%dX" % i
        occ = sum(t.count(mk) for t in texts)
        if k in ("nested", "public", "parameter", "gt-in-value", "single-quoted-nested", "charref-nested") and occ:
            fs.append(Finding(("expanded", "doctype-beyond-64k-prefix") if beyond else ("expanded", k, "loose" if loose else "strict"), w, "entity %s of kind %s (layout %s) was expanded: marker %s occurs %d times in the result" % (nm, k, info.get("layout"), mk, occ)))
        if k == "single-quoted" and occ and any(("&e0;" in t) is False and t.count("M0X") > 2 for t in texts):
            pass
    # a plain-text entity, when it is expanded at all, expands to exactly its declared text (nothing may be spliced into it)
    for i, nm in enumerate(names):
        val = (info.get("values") or {}).get(nm)
        if val is None:
            continue
        mk = "M%dX" % i
        if any(mk in t for t in texts) and not any(("[%s]" % val) in t for t in texts):
            fs.append(Finding(("mis-expanded", kinds.get(nm), "loose" if loose else "strict"), w,
                              "plain-text entity %s = %r (layout %s, doctype %s) expands to something else than its declared text" % (nm, val, info.get("layout"), info.get("doctype")),
                              observed=[t for t in texts if mk in t][:2], expected="[%s]" % val))
    if secret and any(secret in t for t in texts):
        fs.append(Finding(("expanded", "external-file"), w, "content of the local file named by a SYSTEM entity appears in the result"))
    # linear size bound: every expanded reference contributes at most the longest safe value
    nrefs = docbytes.count(b"&")
    if total > 4 * len(docbytes) + nrefs * 64 + 256:
        fs.append(Finding(("amplification", "loose" if loose else "strict"), w, "result text is %d characters for a %d-byte document (%d references)" % (total, len(docbytes), nrefs)))
    return fs


def search(ctx, focus=None):
    rng = ctx.rng
    failures, n, distinct = [], 0, set()
    secret = "SECRET-%d-CONTENT" % os.getpid()
    tf = tempfile.NamedTemporaryFile("w", suffix=".ent", delete=False, dir="/tmp")
    tf.write(secret)
    tf.close()
    dist = {}
    try:
        for _ in range(ctx.n(700, 20000)):
            doc, info = gen_prolog(rng, secret_path=tf.name if rng.random() < 0.5 else "file://" + tf.name)
            mode = (rng.choice(["bytesio", "bytesio", "nonseekable", "stringio"]), rng.random() < 0.3, rng.choice([None, None, None, False, True]))
            d = doc.encode(rng.choice(["utf-8", "utf-8", "utf-16", "utf-32"])) if mode[0] != "stringio" else doc.encode("utf-8")
            if mode[0] == "bytesio" and rng.random() < 0.12:
                # a long document whose detection prefix decodes fine but which carries an undecodable byte later on: the whole-document route runs
                d = doc.encode("utf-8") + b"<!-- " + b"padding " * 9000 + rng.choice([b"\x92", b"\xff", b"\xe9"]) + b" -->"
                info = dict(info, tail="undecodable-byte-after-64k")
            n += 1
            distinct.add((d, mode))
            k = "%s/%s" % (info["layout"], info["doctype"])
            dist[k] = dist.get(k, 0) + 1
            failures += check_doc(d, info, mode, secret, tf.name)
        # content that *looks like* a path or URL, delivered as a stream
        for content in [tf.name.encode(), b"http://127.0.0.1:9/feed.xml", b"file://" + tf.name.encode(), b"/etc/passwd", b"<?xml-stylesheet href='http://127.0.0.1:9/x.xsl'?><rss/>",
                        b"<rss xmlns:xi='http://www.w3.org/2001/XInclude'><xi:include href='%s' parse='text'/></rss>" % tf.name.encode(),
                        b'{"version":"https://jsonfeed.org/version/1","feed_url":"http://127.0.0.1:9/x","items":[{"id":"1","url":"file://%s","image":"http://127.0.0.1:9/i.png"}]}' % tf.name.encode(),
                        b"<rss><channel><link>http://127.0.0.1:9/</link><image><url>file://%s</url></image></channel></rss>" % tf.name.encode()]:
            for delivery in ("bytesio", "nonseekable", "stringio"):
                n += 1
                distinct.add((content, delivery))
                failures += check_doc(content, {"kinds": {}, "names": [], "layout": "url-like-content"}, (delivery, False), secret, tf.name)
    finally:
        os.unlink(tf.name)
    return {"evaluations": n, "distinct_nontrivial": len(distinct), "failures": failures, "distribution": dist,
            "rule": "prologs = DOCTYPE {internal subset, SYSTEM id + subset, Netscape PUBLIC id, none} x 1-6 entity declarations of kinds {literal, character "
                    "reference, nested (2-10 references to an earlier entity), external SYSTEM (pointing at a real temp file) / PUBLIC (loopback URL), parameter, "
                    "single-quoted, backslash-carrying, '>' in value, empty} x layouts {own lines, one line, indented, CRLF, tabs, parameter-entity references "
                    "between, comments between, spaces} x preceding comments/PIs (incl. a 70 kB comment) x XML declaration x utf-8/16/32 x "
                    "{BytesIO, non-seekable stream, StringIO} x both back ends x optimistic_encoding_detection {not passed, False, True} (+ long documents with an undecodable byte after the "
                    "detection prefix, which take the whole-document route); nested references also spelled with a character reference for the ampersand (&#38;name;); oracle: per-entity expansion markers, the temp file's secret content, a linear "
                    "size bound, and a sys.addaudithook recording open/socket/subprocess/urllib events during parse(stream); distinct = distinct (bytes, mode)",
            "samples": [{"doc": gen_prolog(vlib.random.Random(3))[0][:300]}]}


def replay(w):
    fs = check_doc(w["doc"], w["info"], tuple(w["mode"]))
    return (bool(fs), fs[0].what if fs else "no nested/external expansion, linear size, no I/O")


TECHNIQUE = "Lean 4 proof over a hand-translated model of replace_doctype: every entity that can reach either parser has a plain-text or single-character-reference value; concrete layouts kernel-evaluated; differential correspondence; marker / audit-hook search"
LEVEL_TEXT = ("Kernel-checked on M-doctype: safeMatch_safe (whatever the SAFE pattern accepts is plain text without & and \" or exactly one &#\\w+; reference), "
              "entities_dict_safe (every entity returned for the loose parser, for EVERY input), rebuilt_only_safe (only SAFE-accepted declarations are re-inserted), "
              "not_xml_identity; on the prolog scanner that decides how far the filter looks (fix: e7e48c9): comment_is_skipped, pi_is_skipped (for EVERY comment / processing-instruction text without '>', the first element is looked for after it -- "
              "its content, tag-like or not, has no influence), literal_is_skipped (a quoted literal inside a declaration is passed over whatever it contains), firstElemRest_is_a_tag; and kernel-evaluated layouts (one_line_layout_contained, "
              "comment_markup_layout_contained -- the two bypasses before their fix: commits --, external_and_parameter_entities_dropped). "
              "On the CONSUMER of the table (M-mixin stage 6, the loose back end's handle_entityref / handle_charref, guarded by source fingerprints): eref_expands_once (a reference to a declared entity "
              "appends exactly its replacement text -- which is never tokenised again), eref_text_bounded (one reference appends at most max(name, longest replacement) + 2 characters: linear growth), "
              "cref_text_bounded, ref_events_only_append. Tie: replace_doctype vs model on generated and byte-damaged prologs (version, rewritten bytes, entities); the reference callbacks vs the model on "
              "documents whose internal subset declares entities that the content references.")
LEVEL_NOTE = ("Trusted: Lean kernel + standard axioms; hand translation of three regular expressions (validated by correspondence); expat's behaviour on the rebuilt "
              "DOCTYPE and its feature_external_ges switch; the audit hook. 'No I/O' is a runtime property observed by the search, not a theorem.")
