"""C15 — FeedParserDict behaves like the documented aliasing mapping."""
import copy
import itertools
import pickle
import os
import warnings

import vlib
from vlib import Finding, enc

LEAN_MODULES = ["FeedVerif.Props.C15", "FeedVerif.Model.DictDriver"]
CORR_OBLIGATIONS = ["M-dict ~ feedparser.util.FeedParserDict on mutation histories x all observers"]
TRUSTED = [
    "Lean model FeedVerif/Model/Dict.lean of util.py:31-158 (values abstracted to str / list of link dicts / list of tag dicts)",
    "CPython dict semantics (modelled as an association list)",
]
ASSUMPTIONS = [
    "values stored under 'tags' are lists of tag dicts or non-empty strings; under 'links' lists of link dicts or non-empty strings (declared model domain)",
    "copy/pickle clause is checked on the implementation only (CPython object protocol, not modelled)",
]

FAMILIES = [
    ["channel", "feed"],
    ["items", "entries"],
    ["guid", "id"],
    ["date", "modified", "updated", "published", "issued"],
    ["date_parsed", "modified_parsed", "updated_parsed", "published_parsed", "issued_parsed"],
    ["description", "summary", "subtitle", "tagline"],
    ["description_detail", "summary_detail", "subtitle_detail", "tagline_detail"],
    ["copyright", "rights", "copyright_detail", "rights_detail"],
    ["url", "href"],
    ["category", "tags"],
    ["enclosures", "links", "license"],
    ["foo", "title"],
]

STRS = ["a", "b"]
TAGVALS = [("t", ()), ("t", ("x",)), ("t", ("x", "y")), ("s", "q")]
# link = (rel|None, href|None)
LINKVALS = [("l", ()), ("l", (("enclosure", "h1"), ("license", "h2"))), ("l", (("license", None), ("license", "h3"))),
            ("l", (("alternate", "h4"), (None, "h5"), ("license", "h6"))), ("l", (("enclosure", None),)), ("s", "q"),
            # a license link whose href is PRESENT but empty (e.g. <link rel="license" href=""/> without a base): it is the answer
            ("l", (("license", ""), ("license", "h7"))), ("l", (("license", ""),)), ("l", (("enclosure", ""), ("license", ""))),
            # link dicts with FURTHER members whose names are aliases (an <enclosure guid=".." description=".."/>): the derived views hand them over as stored
            ("l", (("enclosure", "h8", (("guid", "g"), ("description", "dd"), ("summary", "ss"))),)),
            ("l", (("enclosure", "h9", (("summary", "s1"), ("description", "d1"), ("url", "u1"))), ("license", "h10", (("copyright", "c"),))))]


def tup(x):
    return tuple(tup(i) for i in x) if isinstance(x, (list, tuple)) else x


def values_for(key):
    if key == "tags":
        return TAGVALS
    if key == "links":
        return LINKVALS
    # None is a value like any other (a JSON feed's "summary": null): present, readable through every alias
    return [("s", s) for s in STRS] + [("n", None)]


def py_value(v):
    from feedparser.util import FeedParserDict
    kind, x = v
    if kind == "s":
        return x
    if kind == "n":
        return None
    if kind == "t":
        return [FeedParserDict(term=t, scheme=None, label=None) for t in x]
    if kind == "l":
        out = []
        for item in x:
            rel, href = item[0], item[1]
            raw = {}
            if rel is not None:
                raw["rel"] = rel
            if href is not None:
                raw["href"] = href
            for k, val in (item[2] if len(item) > 2 else ()):
                raw[k] = val
            out.append(FeedParserDict(raw))          # the constructor stores literally, as the parser's FeedParserDict(attrs_d) does
        return out
    raise ValueError(v)


def enc_value(v):
    kind, x = v
    if kind == "s":
        return "s:" + enc(x)
    if kind == "n":
        return "n:"
    if kind == "t":
        return "t:" + ",".join(enc(t) for t in x)
    if kind == "l":
        return "l:" + ",".join(enc(it[0]) + "/" + enc(it[1]) + ("/" + ";".join(enc(k) + "=" + enc(val) for k, val in it[2]) if len(it) > 2 and it[2] else "") for it in x)


def canon_py(x):
    """canonical text of a Python value returned by the implementation"""
    if isinstance(x, str):
        return "s:" + enc(x)
    if x is None:
        return "n:"
    if isinstance(x, list):
        if all(isinstance(i, dict) and "term" in i for i in x) and x:
            return "t:" + ",".join(enc(i["term"]) for i in x)
        if all(isinstance(i, dict) for i in x):
            # [] is ambiguous between tags/links: the model prints what was stored; normalise both to 'e:'
            if not x:
                return "e:"
            def others(i):
                o = [(k, dict.__getitem__(i, k)) for k in dict.keys(i) if k not in ("rel", "href")]
                return ("/" + ";".join(enc(k) + "=" + enc(val) for k, val in o)) if o else ""
            return "l:" + ",".join(enc(dict.get(i, "rel")) + "/" + enc(dict.get(i, "href")) + others(i) for i in x)
    return "?" + repr(x)


def norm_model(line):
    # model prints "t:" / "l:" for empty lists
    return line.replace(" t: ", " e: ").replace(" l: ", " e: ").replace("ok t:", "ok e:").replace("ok l:", "ok e:") \
        if (line.endswith("t:") or line.endswith("l:") or " t: " in line or " l: " in line) else line


def observe_py(d, op, key, default=None):
    with warnings.catch_warnings(record=True) as w:
        warnings.simplefilter("always")
        try:
            if op == "getI":
                v = d[key]
                return "ok %s %s" % (canon_py(v), "warn" if w else "nowarn")
            if op == "has":
                return "ok %s" % (key in d)
            if op == "getD":
                v = d.get(key, default)
                return "ok %s" % canon_py(v)
            if op == "attr":
                v = getattr(d, key)
                if v is not None and not isinstance(v, (str, list)):
                    return "classattr"
                return "ok %s %s" % (canon_py(v), "warn" if w else "nowarn")
        except KeyError:
            return "KeyError"
        except AttributeError:
            return "AttributeError"
        except TypeError:
            return "TypeError"
        except IndexError:
            return "IndexError"


def mutations(fam):
    ms = []
    for k in fam:
        for v in values_for(k):
            ms.append(("set", k, v))
        ms.append(("del", k, None))
    return ms


def histories(fam, maxlen, rng=None, cap=None):
    ms = mutations(fam)
    for L in range(1, maxlen + 1):
        allseq = itertools.product(ms, repeat=L)
        if cap is not None and len(ms) ** L > cap:
            for _ in range(cap):
                yield tuple(rng.choice(ms) for _ in range(L))
        else:
            yield from allseq


def run_history_py(fam, hist):
    from feedparser.util import FeedParserDict
    d = FeedParserDict()
    out = []
    for op, k, v in hist:
        if op == "set":
            d[k] = py_value(v)
            out.append("ok")
        else:
            try:
                del d[k]
                out.append("ok")
            except KeyError:
                out.append("KeyError")
        for key in fam:
            for o in ("getI", "has", "getD", "attr"):
                out.append(observe_py(d, o, key, "dflt"))
    return out


def lines_for(fam, hist):
    ls = ["dict reset"]
    for op, k, v in hist:
        if op == "set":
            ls.append("dict set %s %s" % (enc(k), enc_value(v)))
        else:
            ls.append("dict del %s" % enc(k))
        for key in fam:
            ls.append("dict getI %s" % enc(key))
            ls.append("dict has %s" % enc(key))
            ls.append("dict getD %s s:%s" % (enc(key), enc("dflt")))
            ls.append("dict attr %s" % enc(key))
    return ls


def correspondence(ctx):
    maxlen = 3 if ctx.thorough else 2          # (a length, not a sample size: never scaled)
    cap = ctx.n(1500, 12000)
    lines, expected, meta = [], [], []
    dist = {}
    for fam in FAMILIES:
        for hist in histories(fam, maxlen, ctx.rng, cap):
            ls = lines_for(fam, hist)
            py = ["ok"] + run_history_py(fam, hist)
            assert len(ls) == len(py)
            for i in range(len(ls)):
                meta.append((fam, hist))
            lines += ls
            expected += py
            dist["len%d" % len(hist)] = dist.get("len%d" % len(hist), 0) + 1
    got = vlib.run_driver(lines)
    dis, seen = [], set()
    kinds = {}
    for i, (g, e) in enumerate(zip(got, expected)):
        g = norm_model(g)
        kinds[e.split(" ")[0]] = kinds.get(e.split(" ")[0], 0) + 1
        if g != e:
            fam, hist = meta[i]
            if (tuple(fam), hist) in seen:
                continue
            seen.add((tuple(fam), hist))
            if len(dis) < 20:
                dis.append({"history": hist, "line": lines[i], "model": g, "impl": e})
    dist.update({"obs_" + k: v for k, v in kinds.items()})
    nh = sum(v for k, v in dist.items() if k.startswith("len"))
    return {"cases": nh, "distinct": nh, "unmodelled": 0, "disagreements": dis, "distribution": dist,
            "samples": [{"history": lines_for(FAMILIES[3], (("set", "date", ("s", "a")),))[:6]}]}


# ------------------------------------------------------------------ independent spec twin
# Written from docs/reference-*.rst and the property statement, not from util.py.
DOC_ALIASES = {
    "channel": ["feed"], "items": ["entries"], "guid": ["id"], "date": ["updated"], "modified": ["updated"],
    "date_parsed": ["updated_parsed"], "modified_parsed": ["updated_parsed"],
    "issued": ["published"], "issued_parsed": ["published_parsed"],
    "description": ["summary", "subtitle"], "description_detail": ["summary_detail", "subtitle_detail"],
    "copyright": ["rights"], "copyright_detail": ["rights_detail"],
    "tagline": ["subtitle"], "tagline_detail": ["subtitle_detail"], "url": ["href"],
}
MISSING = object()


class SpecDict:
    """plain mapping + documented aliases + derived views + updated->published read-through"""
    def __init__(self):
        self.m = {}

    def set(self, k, v):
        self.m[DOC_ALIASES.get(k, [k])[0]] = v

    def delete(self, k):
        if k in self.m:
            del self.m[k]
            return True
        return False

    def lookup(self, k):
        """returns (value | MISSING | 'TypeError', warned)"""
        m = self.m
        if k == "category":
            if "tags" not in m:
                return MISSING, False
            t = m["tags"]
            if isinstance(t, str):
                return "TypeError", False
            return (t[0]["term"], False) if t else (MISSING, False)
        if k == "enclosures":
            if "links" not in m:
                return MISSING, False
            if isinstance(m["links"], str):
                return "TypeError", False
            if any("rel" not in l for l in m["links"]):
                return MISSING, False
            return [{kk: vv for kk, vv in l.items() if kk != "rel"} for l in m["links"] if l["rel"] == "enclosure"], False
        if k == "license":
            if "links" not in m:
                return MISSING, False
            if isinstance(m["links"], str):
                return "TypeError", False
            for l in m["links"]:
                if "rel" not in l:
                    return MISSING, False
                if l["rel"] == "license" and "href" in l:
                    return l["href"], False
            return (m["license"], False) if "license" in m else (MISSING, False)
        if k in ("updated", "updated_parsed"):
            other = "published" + k[len("updated"):]
            if k in m:
                return m[k], False
            if other in m:
                return m[other], True
            return MISSING, False
        for c in DOC_ALIASES.get(k, []) + [k]:
            if c in m:
                return m[c], False
        return MISSING, False

    def observe(self, op, k, default="dflt"):
        v, w = self.lookup(k)
        if isinstance(v, str) and v == "TypeError" and k in ("category", "enclosures", "license"):
            return "TypeError"
        if op == "has":
            if k in ("updated", "updated_parsed"):
                return "ok %s" % (k in self.m)
            return "ok %s" % (v is not MISSING)
        if op == "getD":
            return "ok %s" % canon_py(default if v is MISSING else v)
        if v is MISSING:
            return "KeyError" if op == "getI" else "AttributeError"
        return "ok %s %s" % (canon_py(v), "warn" if w else "nowarn")


def spec_history(fam, hist):
    s = SpecDict()
    out = []
    for op, k, v in hist:
        if op == "set":
            s.set(k, py_value(v))
            out.append("ok")
        else:
            out.append("ok" if s.delete(k) else "KeyError")
        for key in fam:
            for o in ("getI", "has", "getD", "attr"):
                out.append(s.observe(o, key))
    return out


def family_of(key):
    for f in FAMILIES:
        if key in f:
            return f
    return ["foo"]


def check_history(fam, hist):
    """returns a Finding or None: implementation vs documented spec"""
    impl = run_history_py(fam, hist)
    spec = spec_history(fam, hist)
    for i, (a, b) in enumerate(zip(impl, spec)):
        if a != b:
            per = 1 + 4 * len(fam)
            step, off = divmod(i, per)
            if off == 0:
                what, key = "mutation", hist[step][1]
            else:
                key = fam[(off - 1) // 4]
                what = ("getI", "has", "getD", "attr")[(off - 1) % 4]
            return Finding(("op", what, "family", fam[0]), {"family": fam, "history": hist},
                           "FeedParserDict answers %r where the documented aliasing mapping answers %r (%s %r after %r)" % (a, b, what, key, hist[:step + 1]),
                           observed=a, expected=b, oracle="SpecDict (tools/props/C15.py), written from the documentation")
    return None


DOCS = [
    b"<rss version='2.0'><channel><title>t</title><link>http://a/</link><item><title>e</title><guid>g</guid>"
    b"<pubDate>Thu, 01 Jan 2004 19:48:21 GMT</pubDate><category>c</category>"
    b"<enclosure url='http://a/x.mp3' length='1' type='audio/mpeg'/></item></channel></rss>",
    b"<feed xmlns='http://www.w3.org/2005/Atom'><title type='html'>&lt;b&gt;t&lt;/b&gt;</title><updated>2004-01-01T00:00:00Z</updated>"
    b"<entry><id>i</id><author><name>n</name><email>e@x.org</email></author><content type='xhtml'><div xmlns='http://www.w3.org/1999/xhtml'>x</div></content></entry></feed>",
    b'{"version":"https://jsonfeed.org/version/1","title":"t","items":[{"id":"1","content_html":"<p>x</p>","tags":["a"]}]}',
    b"<rss><channel><title>unclosed",           # bozo: SAXParseException
    b"\xff\xfe\x00garbage",                     # encoding trouble
    b"<rss xmlns:foo='http://foo/'><channel><foo:bar a='1'>x</foo:bar><bar:baz/></channel></rss>",
]


def plain(x):
    from feedparser.util import FeedParserDict
    if isinstance(x, dict):
        return {k: plain(dict.__getitem__(x, k)) for k in dict.keys(x)}
    if isinstance(x, (list, tuple)):
        return [plain(i) for i in x]
    if isinstance(x, BaseException):
        return ("exc", type(x).__name__, str(x))
    return x


def check_copy(docbytes, how):
    import feedparser
    with warnings.catch_warnings():
        warnings.simplefilter("ignore")
        r = feedparser.parse(docbytes)
        try:
            c = copy.deepcopy(r) if how == "deepcopy" else pickle.loads(pickle.dumps(r))
        except Exception as e:
            exc = r.get("bozo_exception")
            return Finding(("copy", how, type(e).__name__, type(exc).__name__ if exc is not None else "no-exception"),
                           {"doc": docbytes, "how": how},
                           "%s of a parse result raises %s: %s (bozo_exception is %s)" % (how, type(e).__name__, e, type(exc).__name__),
                           observed=repr(e), expected="equal copy")
        if plain(c) != plain(r) or type(c) is not type(r):
            return Finding(("copy", how, "differs"), {"doc": docbytes, "how": how}, "%s of a parse result differs from the original" % how)
    return None


def check_warning_reaches_reader(reader, key):
    """the read-through `updated` -> `published` WARNS: the DeprecationWarning must be attributed to the line that reads (that is what makes it
    visible under Python's default filters and under module-scoped filters), on every read path"""
    from feedparser.util import FeedParserDict
    d = FeedParserDict()
    d["published"] = "p"
    d["published_parsed"] = "pp"
    with warnings.catch_warnings(record=True) as w:
        warnings.simplefilter("always")
        if reader == "item":
            v = d[key]
        elif reader == "get":
            v = d.get(key)
        elif reader == "attr":
            v = getattr(d, key)
        else:
            v = hasattr(d, key)
    dep = [x for x in w if issubclass(x.category, DeprecationWarning)]
    wit = {"warning": True, "reader": reader, "key": key}
    if not dep:
        return Finding(("op", "warn-attribution", reader), wit, "reading %r through %s on a mapping with only 'published' raises no DeprecationWarning" % (key, reader))
    here = os.path.abspath(__file__)
    if not any(os.path.abspath(x.filename) == here for x in dep):
        return Finding(("op", "warn-attribution", reader), wit,
                       "reading %r through %s: the DeprecationWarning is attributed to %s:%d, not to the reading line (invisible under default / module-scoped filters)"
                       % (key, reader, dep[0].filename, dep[0].lineno), observed="%s:%d" % (dep[0].filename, dep[0].lineno), expected=here)
    return None


def search(ctx, focus=None):
    failures, n, distinct = [], 0, set()
    for reader in ("item", "get", "attr", "hasattr"):
        for key in ("updated", "updated_parsed"):
            n += 1
            distinct.add(("warn", reader, key))
            f = check_warning_reaches_reader(reader, key)
            if f:
                failures.append(f)
    maxlen = 3 if ctx.thorough else 2          # (a length, not a sample size: never scaled)
    cap = ctx.n(1500, 12000)
    for fam in FAMILIES:
        for hist in histories(fam, maxlen, ctx.rng, cap):
            n += 1
            distinct.add((tuple(fam), hist))
            f = check_history(fam, hist)
            if f:
                failures.append(f)
    # random longer histories across families
    allkeys = sorted({k for f in FAMILIES for k in f})
    for _ in range(ctx.n(300, 5000)):
        fam = ctx.rng.choice(FAMILIES)
        ms = mutations(fam)
        hist = tuple(ctx.rng.choice(ms) for _ in range(ctx.rng.randint(4, 9)))
        n += 1
        distinct.add((tuple(fam), hist))
        f = check_history(fam, hist)
        if f:
            failures.append(f)
    if focus:
        for d in focus.get("disagreements", []):
            h = d.get("history")
            if h:
                hist = tup(h)
                f = check_history(family_of(hist[0][1]), hist)
                if f:
                    failures.append(f)
    for doc in DOCS:
        for how in ("deepcopy", "pickle"):
            n += 1
            distinct.add((doc, how))
            f = check_copy(doc, how)
            if f:
                failures.append(f)
    return {"evaluations": n, "distinct_nontrivial": len(distinct), "failures": failures,
            "exhaustive": False,
            "rule": "per alias family: every mutation history (set through every family key with each value class / del) up to length %d "
                    "(sampled above %d per length), all four observers on every family key after every mutation, compared with an "
                    "independent documented-spec twin; the read-through warning reaches the READER (attributed to the reading line) on every read path; plus random histories of length 4-9; plus deepcopy/pickle of %d parse results. "
                    "distinct = distinct (family, history) pairs; every history has >= 1 mutation so all are non-trivial" % (maxlen, cap, len(DOCS)),
            "samples": [{"family": FAMILIES[3], "history": [["set", "date", "a"], ["del", "updated"]]},
                        {"copy": "deepcopy", "doc": DOCS[0][:60].decode()}]}


def replay(w):
    if w.get("warning"):
        f = check_warning_reaches_reader(w["reader"], w["key"])
        return (f is not None, f.what if f else "the read-through warning is attributed to the reader")
    if "doc" in w:
        f = check_copy(w["doc"], w["how"])
    else:
        hist = tup(w["history"])
        f = check_history(w["family"], hist)
    return (f is not None, f.what if f else "implementation agrees with the documented mapping / copy succeeds")


TECHNIQUE = "Lean 4 proof over a model of FeedParserDict (refinement laws, history invariant by induction) + table theorem on the regenerated keymap + exhaustive-history correspondence with the implementation"
LEVEL_TEXT = ("Kernel-checked theorems about M-dict for an arbitrary alias table satisfying KeymapOK (lookup = first present candidate, "
              "in/get()/attribute agree with [], alias writes land on the canonical key, write/read through any alias, read-through exception, "
              "history invariant 'no alias name is ever stored' by induction over unbounded op sequences), KeymapOK and the documented alias "
              "families re-proved by kernel evaluation on the keymap regenerated from /repo on every run; the model is tied to util.py by an "
              "exhaustive mutation-history correspondence (all histories up to length 2 quick / 3 thorough per alias family, all observers).")
LEVEL_NOTE = ("Trusted: Lean kernel + propext/Classical.choice/Quot.sound; translate.py; the correspondence harness (bounded history length; values "
              "abstracted to three shapes); CPython dict. The agreement theorem is _partial for attribute reads of dict-method names (open finding), "
              "copy/pickle is searched on the implementation only (open finding for SAXParseException).")
