"""C11 — strict and loose XML back ends agree on well-formed reference-free feeds."""
import warnings

import vlib
from vlib import Finding
import feedgen
import mixlib
from props import C19

LEAN_MODULES = ["FeedVerif.Props.C11", "FeedVerif.Model.MixinDriver"]
CORR_OBLIGATIONS = ["M-mixin (stage 1) ~ the real handler machine for BOTH back ends (same model, Ops.loose switches the attribute hook)",
                    "expat and sgmllib deliver the same event stream on reference-free well-formed documents modulo the documented normalisation (validated on recorded streams)",
                    "looseDecode ~ LooseFeedParser.decode_entities on generated strings over the reference alphabet x content types",
                    "M-mixin (stage 6: handle_charref / handle_entityref) ~ the real loose handler machine on documents WITH predefined, numeric and unknown references"]
TRUSTED = C19.TRUSTED
ASSUMPTIONS = ["tokenizer agreement (expat vs sgmllib) is a library-vs-library fact: validated by recorded event streams, not proved"]


def plain(x):
    if isinstance(x, dict):
        return {k: plain(dict.__getitem__(x, k)) for k in dict.keys(x)}
    if isinstance(x, (list, tuple)):
        return [plain(i) for i in x]
    if hasattr(x, "tm_year"):
        return tuple(x)
    return x


OPTS = [None, {"sanitize_html": False}, {"resolve_relative_uris": False}, {"sanitize_html": False, "resolve_relative_uris": False}, {"sanitize_html": True, "resolve_relative_uris": False},
        {"sanitize_html": False, "resolve_relative_uris": True}]


def parse_both(doc, opts=None):
    import feedparser
    import feedparser.api as api
    out = []
    saved = api._XML_AVAILABLE
    try:
        for loose in (False, True):
            api._XML_AVAILABLE = not loose
            with warnings.catch_warnings():
                warnings.simplefilter("ignore")
                try:
                    r = feedparser.parse(doc, **(opts or {}))
                    out.append({"feed": plain(r.feed), "entries": plain(r.entries), "version": r.get("version"), "namespaces": dict(r.get("namespaces", {})), "bozo": r.bozo})
                except Exception as e:
                    out.append({"raises": type(e).__name__})
    finally:
        api._XML_AVAILABLE = saved
    return out


def diffs(a, b, path=""):
    """list of (path, strict value, loose value)"""
    if isinstance(a, dict) and isinstance(b, dict):
        out = []
        for k in sorted(set(a) | set(b), key=str):
            if k not in a:
                out.append((path + "/" + str(k), "<absent>", b[k]))
            elif k not in b:
                out.append((path + "/" + str(k), a[k], "<absent>"))
            else:
                out += diffs(a[k], b[k], path + "/" + str(k))
        return out
    if isinstance(a, list) and isinstance(b, list) and len(a) == len(b):
        out = []
        for i, (x, y) in enumerate(zip(a, b)):
            out += diffs(x, y, path + "/%d" % i)
        return out
    return [] if a == b else [(path, a, b)]


def is_xmlns_dict(v):
    return isinstance(v, dict) and v and all(k.startswith("xmlns") for k in v)


def classify(path, sv, lv):
    last = path.rsplit("/", 1)[-1]
    if is_xmlns_dict(lv) or (isinstance(lv, dict) and isinstance(sv, (str, type("<absent>"))) and any(k.startswith("xmlns") for k in lv)):
        return ("loose-xmlns-as-attributes",)
    if isinstance(sv, dict) and isinstance(lv, dict) and {k for k in lv if not k.startswith("xmlns")} == set(sv) and all(lv[k] == sv[k] for k in sv):
        return ("loose-xmlns-as-attributes",)
    parts = [x for x in path.split("/") if not x.isdigit()]
    return ("differs", parts[0], parts[1] if len(parts) > 1 else "", last)


def check_doc(doc, opts=None):
    s, l = parse_both(doc, opts)
    w = {"doc": doc, "opts": opts}
    if "raises" in s or "raises" in l:
        return []
    fs = []
    if s["bozo"]:
        return []          # not well-formed for expat: outside the property's hypothesis
    import re
    raw = doc if isinstance(doc, bytes) else doc.encode("utf-8")
    # unrecognised URIs the document binds BOTH to a prefix and as a default namespace (on any elements)
    pref_of = {}
    for m in re.finditer(rb'xmlns:([A-Za-z0-9_.-]+)="([^"]*)"', raw):
        pref_of.setdefault(m.group(2), set()).add(m.group(1).decode())
    both = {p for u, ps in pref_of.items() if re.search(rb'xmlns="' + re.escape(u) + rb'"', raw) for p in ps}
    for part in ("feed", "entries", "version", "namespaces"):
        ds = diffs(s[part], l[part], part)
        for path, sv, lv in ds:
            key = classify(path, sv, lv)
            parent, last = path.rsplit("/", 1)
            # the strict back end files an UNPREFIXED element of a default namespace under a prefix the document also binds to that URI (expat hands over no
            # qualified names; the reverse lookup answers the first prefix declared for the URI); the loose one files it under its bare name
            for pfx in both:
                if last.startswith(pfx.lower() + "_") and lv == "<absent>" and (parent + "/" + last[len(pfx) + 1:], "<absent>", sv) in ds:
                    key = ("probe", "strict-unprefixed-element-filed-under-declared-prefix")
                if sv == "<absent>" and (parent + "/" + pfx.lower() + "_" + last, lv, "<absent>") in ds:
                    key = ("probe", "strict-unprefixed-element-filed-under-declared-prefix")
            fs.append(Finding(key, w, "%s: strict %r, loose %r" % (path, sv, lv), observed=lv, expected=sv))
    seen, res = set(), []
    for f in fs:
        if tuple(f.key) not in seen:
            seen.add(tuple(f.key))
            res.append(f)
    return res


ODD_NAMES = ["no-comments", "is.sticky", "x-draft", "x_y", "a1", "wp-status", "dotted.name.here", "Mixed-Case", "trailing-"]


def with_odd_elements(rng, doc):
    """handler-less UNPREFIXED elements whose ASCII names contain '-', '.', '_' or digits, in every empty-element spelling, before ordinary siblings"""
    d = doc.decode("utf-8")
    import re
    spots = [m.end() for m in re.finditer(r"<(?:channel|item|entry)(?:\s[^>]*)?>", d)]
    rng.shuffle(spots)
    for pos in sorted(spots[:rng.randint(1, 3)], reverse=True):
        n = rng.choice(ODD_NAMES)
        form = rng.choice(["<%s/>", "<%s />", "<%s></%s>", "<%s>text</%s>", "<%s/>"])
        d = d[:pos] + (form % ((n,) * form.count("%s"))) + d[pos:]
    return d.encode("utf-8")


def gen_ns_doc(rng):
    """namespace arrangements the two back ends resolve by different means (the strict one by URI, the loose one through its prefix map): one recognised URI under
    two document prefixes, a prefix re-bound on an inner element, an unrecognised URI as default namespace and under a prefix"""
    import importlib
    C19 = importlib.import_module("props.C19")
    for _ in range(20):
        c = rng.choice([C19.gen_two_prefix_case, C19.gen_rebind_case, C19.gen_default_then_prefix_case, C19.gen_two_prefix_case])(rng)
        if c is not None:
            return c[0]
    return gen_doc0(rng)


def gen_doc(rng):
    if rng.random() < 0.12:
        return gen_ns_doc(rng)
    d = gen_doc0(rng)
    if rng.random() < 0.3:
        return with_odd_elements(rng, d)
    return d


def gen_doc0(rng):
    r = rng.random()
    if r < 0.5:
        return feedgen.vocab_doc(rng).encode("utf-8")
    if r < 0.85:
        af = feedgen.abstract_feed(rng, special=False)
        fmt = rng.choice(["rss091", "rss092", "rss20", "rss10", "atom03", "atom10"])
        return feedgen.serialize(af, fmt, cdata=False).encode("utf-8")
    # inline XHTML
    if rng.random() < 0.5:
        # inline XHTML with something for each post-processing step to do: relative URIs (resolution), style / event-handler attributes and
        # elements off the allow-list (sanitisation) -- still reference-free
        parts = ['<p><a href="rel/x.html">l</a> <img src="../i.png" alt="a"/></p>', '<p style="color: red" onclick="f()">styled</p>', "<div><script>x</script><b>kept</b></div>",
                 '<blockquote cite="q/src">q</blockquote>', "<p>plain</p>", '<p><a href="/abs/y" style="float: left">m</a></p>', "<marquee>m</marquee>",
                 # attributes of the XML namespace (the one everyday namespace URI with upper-case letters) on elements whose attributes are KEPT
                 '<p xml:lang="fr">bonjour <span xml:lang="de" xml:space="preserve">welt</span></p>', '<p xml:base="sub/"><a href="r.html" xml:lang="en">l</a></p>', '<span lang="it" xml:lang="it">ciao</span>']
        body, body2 = "".join(rng.sample(parts, rng.randint(1, 3))), "".join(rng.sample(parts, rng.randint(1, 3)))
        base = rng.choice(["", ' xml:base="http://base.example/dir/"'])
        return ('<feed xmlns="http://www.w3.org/2005/Atom"%s><title>t</title><id>i</id><updated>2005-01-01T00:00:00Z</updated><link href="self/alt"/><entry><title>e</title><id>j</id>'
                '<link href="e/1"%s/><content type="xhtml"><div xmlns="http://www.w3.org/1999/xhtml">%s</div></content><summary type="xhtml"><div xmlns="http://www.w3.org/1999/xhtml">%s</div></summary></entry></feed>'
                % (base, rng.choice(["", ' xml:lang="en"', ' xml:base="http://other.example/d/" xml:lang="fr"', ' xml:space="default"']), body, body2)).encode("utf-8")
    body = rng.choice(["<p>plain <b>bold</b> text</p>", "<div><ul><li>a</li><li>b</li></ul></div>", "<p>x<br/>y</p>", '<p><a href="http://example.org/">l</a> <em>e</em></p>', "<blockquote><p>q</p></blockquote>"])
    return ('<feed xmlns="http://www.w3.org/2005/Atom"><title>t</title><id>i</id><updated>2005-01-01T00:00:00Z</updated><entry><title>e</title><id>j</id>'
            '<content type="xhtml"><div xmlns="http://www.w3.org/1999/xhtml">%s</div></content><summary type="xhtml"><div xmlns="http://www.w3.org/1999/xhtml">%s</div></summary></entry></feed>' % (body, body)).encode("utf-8")


def correspondence(ctx):
    rng = ctx.rng
    docs = []
    for _ in range(ctx.n(250, 4000)):
        d, _e, _m = C19.gen_case(rng)
        docs.append(d)
    res = mixlib.corr(ctx, docs, {"content-type": "application/xml; charset=utf-8"}, loose_p=0.5)
    # tokenizer agreement (validated): normalised event streams of both back ends on reference-free documents
    import trace as tr
    checked = bad = 0
    for _ in range(ctx.n(80, 1500)):
        d, _e, _m = C19.gen_case(rng)
        _r1, l1 = tr.traced_parse(d, loose=False)
        _r2, l2 = tr.traced_parse(d, loose=True)
        def norm(log, loose):
            out = []
            for x in log:
                if x["k"] == "start":
                    attrs = sorted((k.lower(), v) for k, v in x["attrs"] if not k.lower().startswith("xmlns"))
                    out.append(("start", x["tag"].lower(), tuple(attrs)))
                elif x["k"] == "end":
                    out.append(("end", x["tag"].lower()))
                elif x["k"] == "data":
                    if out and out[-1][0] == "data":
                        out[-1] = ("data", out[-1][1] + x["text"])
                    else:
                        out.append(("data", x["text"]))
            # character data between elements that is white space only is not significant here
            return [e for e in out if e[0] != "data" or e[1].strip()]
        a, b = norm(l1, False), norm(l2, True)
        # the loose stream uses document prefixes, the strict one canonical prefixes: compare local names
        strip = lambda ev: [(e[0], e[1].split(":")[-1]) + tuple(e[2:]) if e[0] != "data" else e for e in ev]
        checked += 1
        if strip(a) != strip(b):
            bad += 1
            if len(res["disagreements"]) < 20:
                res["disagreements"].append({"doc": d, "what": "expat and sgmllib event streams differ after normalisation", "strict": str(strip(a))[:300], "loose": str(strip(b))[:300]})
    # the loose back end's decode_entities as a function of its own (Model: looseDecode) and its reference callbacks on documents WITH references (stage 6)
    import feedparser.api as api
    from vlib import enc
    p = api.LooseFeedParser("", None, "utf-8", {})
    alphabet = ["&#60;", "&#x3c;", "&#x3C;", "&#62;", "&#x3e;", "&#x3E;", "&#38;", "&#x26;", "&#34;", "&#x22;", "&#39;", "&#x27;", "&lt;", "&gt;", "&amp;", "&quot;", "&apos;", "&#x2f;", "&#x2F;",
                "&", "#", "x", ";", "amp;", "l", "t", " ", "a&b", "&amp;amp;", "&amp;#38;", "&#38;lt;", "&#x26;#60;", "text"]
    dlines, dexp = [], []
    for _ in range(ctx.n(400, 6000)):
        ty = rng.choice(["text/plain", "text/html", "application/xhtml+xml", "xml", "application/xml", "image/svg+xml", "TEXT/XML", "x"])
        t = "".join(rng.choice(alphabet) for _i in range(rng.randint(0, 6)))
        p.contentparams = {} if ty == "xml" and rng.random() < 0.5 else {"type": ty}
        dlines.append("mix decode %s %s" % (enc(ty), enc(t)))
        dexp.append("s:" + enc(p.decode_entities("el", t)))
    for l, g, e in zip(dlines, vlib.run_driver(dlines), dexp):
        if g != e and len(res["disagreements"]) < 20:
            res["disagreements"].append({"line": l, "model": g, "impl": e, "which": "looseDecode ~ LooseFeedParser.decode_entities"})
    res["cases"] += len(dlines)
    res["distribution"]["decode_entities_cases"] = len(dlines)
    rdocs = []
    for _ in range(ctx.n(120, 2000)):
        refs = ["&amp;", "&lt;", "&gt;", "&quot;", "&apos;", "&#38;", "&#60;", "&#x3C;", "&#65;", "&#x41;", "&#34;", "&#39;", "&nosuch;", "&#62;"]
        txt = lambda: " ".join(rng.choice(["word", "t", rng.choice(refs), rng.choice(refs)]) for _i in range(rng.randint(1, 5)))
        body = "".join("<%s>%s</%s>" % (el, txt(), el) for el in rng.sample(["title", "description", "guid", "category", "comments", "x:other", "copyright", "link", "pubDate", "dc:rights"], rng.randint(1, 5)))
        rdocs.append(('<rss version="2.0" xmlns:x="http://unknown.example/" xmlns:dc="http://purl.org/dc/elements/1.1/"><channel><title>%s</title><item>%s</item></channel></rss>' % (txt(), body)).encode("utf-8"))
    r3 = mixlib.corr(ctx, rdocs, {"content-type": "application/xml; charset=utf-8"}, loose_p=1.0)
    res["cases"] += r3["cases"]
    res["unmodelled"] = res.get("unmodelled", 0) + r3["unmodelled"]
    for d_ in r3["disagreements"]:
        if len(res["disagreements"]) < 20:
            res["disagreements"].append(dict(d_, which="M-mixin stage 6 (references on the loose back end)"))
    res["distribution"]["mixin_stage6"] = r3["distribution"]
    res["distribution"]["tokenizer_agreement_checked"] = checked
    res["distribution"]["tokenizer_agreement_failed"] = bad
    res["cases"] += checked
    return res


REBIND_NS = [("http://purl.org/dc/elements/1.1/", "creator", "Alice"), ("http://purl.org/rss/1.0/modules/content/", "encoded", "full text"), ("http://wellformedweb.org/CommentAPI/", "comment", "http://c.example/1"),
             ("http://purl.org/rss/1.0/modules/slash/", "department", "dept"), ("http://purl.org/dc/terms/", "modified", "2007-01-01T10:00:00Z"), ("http://www.itunes.com/dtds/podcast-1.0.dtd", "author", "Bob"),
             ("http://example.org/unrecognised/ns", "thing", "u")]


def rebind_docs():
    """deterministic: ONE prefix bound to different namespaces by sibling items (aggregated feeds copy items with their own declarations), and bound on the root and again on an item —
    every ordered pair of seven namespaces; a declaration's scope is the element that carries it"""
    for ua, la, ta in REBIND_NS:
        for ub, lb, tb in REBIND_NS:
            if ua == ub:
                continue
            yield ('<rss version="2.0"><channel><title>t</title><item xmlns:m="%s"><title>one</title><m:%s>%s</m:%s></item><item xmlns:m="%s"><title>two</title><m:%s>%s</m:%s></item>'
                   '<item xmlns:m="%s"><title>three</title><m:%s>%s</m:%s></item></channel></rss>' % (ua, la, ta, la, ub, lb, tb, lb, ua, la, ta, la)).encode("utf-8")
            yield ('<rss version="2.0" xmlns:m="%s"><channel><title>t</title><m:%s>%s</m:%s><item xmlns:m="%s"><title>two</title><m:%s>%s</m:%s></item><item><title>three</title></item></channel></rss>'
                   % (ua, la, ta, la, ub, lb, tb, lb)).encode("utf-8")
            # (a use of the prefix AFTER the re-binding element has closed is the open finding C19 probe/loose-namespacemap-not-scoped — the loose back end's prefix map is
            #  document-global — and is probed there with its own witness; it is left out here so that this sweep stays specific)


def search(ctx, focus=None):
    rng = ctx.rng
    failures, n, distinct = [], 0, set()
    for d in rebind_docs():
        n += 1
        distinct.add((d, "None"))
        failures += check_doc(d, None)
    for _ in range(ctx.n(500, 15000)):
        d = gen_doc(rng)
        opts = rng.choice(OPTS) if rng.random() < 0.4 else None
        n += 1
        distinct.add((d, str(opts)))
        failures += check_doc(d, opts)
    return {"evaluations": n, "distinct_nontrivial": len(distinct), "failures": failures,
            "rule": "well-formed reference-free feeds: vocabulary-wide documents (RSS 2.0 / RSS 1.0 / Atom 1.0 with dc, dcterms, itunes, media, georss, content, slash, wfw and "
                    "unknown extension elements), abstract feeds without markup-significant characters in the six XML formats, inline XHTML content (incl. relative URIs, style / event-handler "
                    "attributes and elements off the allow-list, with and without xml:base), namespace arrangements (one recognised URI under two prefixes declared on root / item / element, re-bound prefixes, an unrecognised URI as default namespace and under a prefix; deterministically: one prefix bound by sibling items / by the root and an item to every ordered pair of seven namespaces) x the per-call options sanitize_html / resolve_relative_uris (default and five explicit settings); each parsed with "
                    "_XML_AVAILABLE True and False; feed, entries, version, namespaces compared recursively; finding key = difference class; distinct = distinct documents",
            "samples": [{"doc": gen_doc(vlib.random.Random(2)).decode()[:300]}]}


def replay(w):
    fs = check_doc(w["doc"], w.get("opts"))
    return (bool(fs), fs[0].what if fs else "strict and loose results identical")


TECHNIQUE = "Lean 4 proof: the handler-machine model is back-end agnostic on reference-free event streams (the loose attribute hook is the identity there) + both back ends tied to the one model by event-level correspondence + strict-vs-loose differential search"
LEVEL_TEXT = ("Kernel-checked on M-mixin (stage 1): normAttr_loose_eq_strict (no '&' in the value => the loose attribute hook equals the strict one), backend_agnostic "
              "(for every event stream whose attribute values contain no '&' the loose and the strict machine produce the same outcome, by induction over the stream), "
              "replaceAll_id; on the references themselves (stage 6: the loose back end's handle_entityref / handle_charref / decode_entities modelled executably and guarded by source "
              "fingerprints): predefined_refs_decode_like_expat (inside a text construct of a non-XML type the five predefined entities and their numeric spellings end up as the "
              "character expat delivers), predefined_refs_stay_encoded_outside_text_constructs (the difference the property allows, stated exactly), other_charrefs_are_characters. Tie: ONE model follows BOTH real back ends event by event; expat-vs-sgmllib event-stream agreement on reference-free documents is "
              "validated on recorded streams (it is a statement about two third-party tokenizers).")
LEVEL_NOTE = ("Trusted: Lean kernel + standard axioms; tokenizer agreement validated, not proved; the dedicated handlers beyond stage 1 are covered by the differential "
              "search only. Open finding: the loose back end delivers xmlns* declarations as attributes, so handler-less elements that carry a declaration "
              "(e.g. the rdf:RDF root) are exposed as attribute dicts there.")
