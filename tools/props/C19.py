"""C19 — extension elements are exposed under canonical-prefix keys."""
import json
import os

import vlib
from vlib import Finding, enc
import trace as tr
import mixlib

LEAN_MODULES = ["FeedVerif.Props.C19", "FeedVerif.Model.MixinDriver"]
CORR_OBLIGATIONS = ["M-mixin (stage 1) ~ the real handler machine on recorded event streams of both back ends: state after every start/end tag and the "
                    "whole result (feed, entries, version, namespaces) for documents over structural + handler-less elements"]
TRUSTED = ["Lean model FeedVerif/Model/Mixin.lean of mixin.py's generic machinery and the structural handlers; expat / sgmllib produce the event streams (recorded, not modelled)",
           "the handler-name table and the namespace table are regenerated from /repo"]
ASSUMPTIONS = ["text values are ASCII in the model's domain (the latin-1/utf-8 repair heuristic and the windows-1252 map are the identity there)"]

REF = json.load(open(os.path.join(vlib.ROOT, "reference", "tables.json")))
_M = dict((n, v) for n, _t, v in REF["Mixin"])
NS_TABLE = dict(tuple(x) for x in _M["namespaces"])            # uri -> canonical prefix (documented table, frozen)
HANDLED_START = set(_M["startHandlers"]) | set(_M["startHandlersLoose"])
HANDLED_END = set(_M["endHandlers"]) | set(_M["endHandlersLoose"])
URIS = sorted(u for u in NS_TABLE if u)
UNKNOWN_URIS = ["http://example.org/ext/1.0/", "urn:x-ext:stuff", "http://unknown.example/ns#", "tag:example.org,2005:ext"]
LOCALS = ["bar", "thing", "accuracy", "level", "x1", "long-name", "dotted.name", "under_score", "CamelCase", "data", "keywords", "value", "count", "fix", "flag"]
BASE = "http://doc.example/feed.xml"


def case_vary(rng, u):
    return "".join(c.upper() if c.isalpha() and rng.random() < 0.3 else c for c in u)


def gen_case(rng):
    """one document with several extension elements; returns (bytes, expectations, meta)"""
    fmt = rng.choice(["rss", "atom"])
    n = rng.randint(1, 4)
    decls, used = {}, []
    exps = []
    feed_elems, entry_elems = [], []
    taken_prefixes = set()
    used_canon = set()
    for i in range(n):
        known = rng.random() < 0.65
        uri = rng.choice(URIS) if known else rng.choice(UNKNOWN_URIS)
        canonical = NS_TABLE.get(uri) if known else None
        if known and canonical == "":
            continue          # the core vocabularies (default namespace): not extension elements
        docuri = case_vary(rng, uri) if (known and rng.random() < 0.3) else uri
        pstyle = rng.choice(["canonical", "other", "other"]) if known else "other"
        prefix = canonical if pstyle == "canonical" else rng.choice(["p%d" % i, "ext%d" % i, "q%d" % i])
        if prefix in taken_prefixes or prefix in ("xml", "xmlns"):
            continue
        # no two document prefixes for the same URI / no two URIs with the same canonical prefix in one document
        expect_prefix0 = canonical if known else prefix
        if any(v.lower() == docuri.lower() for v in decls.values()) or expect_prefix0 in used_canon or prefix in used_canon:
            continue
        used_canon.add(expect_prefix0)
        taken_prefixes.add(prefix)
        decls[prefix] = docuri
        expect_prefix = canonical if known else prefix
        local = rng.choice(LOCALS)
        key = ("%s_%s" % (expect_prefix, local)).lower()
        if "%s_%s" % (expect_prefix, local.lower()) in HANDLED_START or "%s_%s" % (expect_prefix, local.lower()) in HANDLED_END:
            continue          # dedicated handling exists
        where = rng.choice(["feed", "entry"])
        if rng.random() < 0.5:
            text = rng.choice(["value", "some text", "42", "a b  c", "x", "two\nlines", "Jane Q.\nPublic", "t\tab", " padded \n"])
            el = "<%s:%s>%s</%s:%s>" % (prefix, local, text, prefix, local)
            val = " ".join(text.split()) if False else text.strip()
            exps.append((where, key, "text", val))
        else:
            attrs = {rng.choice(["a", "kind", "n", "role"]): rng.choice(["1", "v", "two words"])}
            if rng.random() < 0.4:
                attrs["b"] = "2"
            el = "<%s:%s %s/>" % (prefix, local, " ".join('%s="%s"' % kv for kv in attrs.items()))
            exps.append((where, key, "attrs", attrs))
        (feed_elems if where == "feed" else entry_elems).append(el)
        used.append((prefix, docuri, expect_prefix, uri))
    # simple date elements (stage 1.5 of the model: recognised from the handlers' source); no expectation attached here -- they exercise the correspondence
    for where_list in (feed_elems, entry_elems):
        if rng.random() < 0.5:
            name = rng.choice(["pubDate", "lastBuildDate", "expirationDate"] if fmt == "rss" else ["updated", "published", "issued", "modified", "created"])
            text = rng.choice(["Thu, 01 Jan 2004 19:48:21 GMT", "2004-02-28T18:14:55-08:00", "2003-12-31", "not a date", "", " 2005-06-07T08:09:10Z \n", "20031231"])
            attr = rng.choice(["", "", ' type="x"'])
            where_list.insert(rng.randrange(len(where_list) + 1), "<%s%s>%s</%s>" % (name, attr, text, name))
    xmlns = "".join(' xmlns:%s="%s"' % kv for kv in decls.items())
    if fmt == "rss":
        doc = '<rss version="2.0"%s><channel>%s<item>%s</item></channel></rss>' % (xmlns, "".join(feed_elems), "".join(entry_elems))
    else:
        doc = '<feed xmlns="http://www.w3.org/2005/Atom"%s>%s<entry>%s</entry></feed>' % (xmlns, "".join(feed_elems), "".join(entry_elems))
    # keys written twice: the later element wins only under the depth rule; keep the oracle simple: drop duplicate keys
    seen, uniq = {}, []
    for e in exps:
        k = (e[0], e[1])
        seen[k] = seen.get(k, 0) + 1
    exps = [e for e in exps if seen[(e[0], e[1])] == 1]
    return doc.encode("utf-8"), exps, {"fmt": fmt, "used": used}


def gen_rebind_case(rng, after=False):
    """the same prefix declared twice: on the root bound to a recognised URI with another canonical prefix, and again on the
    item/entry bound to the URI whose canonical prefix it is (namespace declarations are lexically scoped)"""
    cands = [(u, p) for u, p in NS_TABLE.items() if p and p not in ("xml", "xlink", "xhtml", "rdf")]
    ub, pb = rng.choice(cands)
    ua, pa = rng.choice([c for c in cands if c[1] != pb])
    P = pb
    l1, l2, l3 = rng.sample(LOCALS, 3)
    def free(pref, loc):
        return ("%s_%s" % (pref, loc.lower())) not in HANDLED_START and ("%s_%s" % (pref, loc.lower())) not in HANDLED_END
    if not (free(pb, l1) and free(pa, l2) and free(pa, l3)):
        return None
    exps = [("entry", ("%s_%s" % (pb, l1)).lower(), "text", "inner"), ("feed", ("%s_%s" % (pa, l2)).lower(), "text", "outer")]
    tail = ""
    if after:
        tail = "<%s:%s>later</%s:%s>" % (P, l3, P, l3)
        exps = [("feed", ("%s_%s" % (pa, l3)).lower(), "text", "later")]
    doc = ('<rss version="2.0" xmlns:%s="%s"><channel><%s:%s>outer</%s:%s><item xmlns:%s="%s"><%s:%s>inner</%s:%s></item>%s</channel></rss>' %
           (P, ua, P, l2, P, l2, P, ub, P, l1, P, l1, tail))
    return doc.encode("utf-8"), exps, {"fmt": "rss", "used": []}


def gen_two_prefix_case(rng):
    """ONE recognised namespace URI bound to TWO document prefixes (both on the root, or the second on the item / on the element itself -- aggregated
    and spliced feeds do this): elements under either prefix are exposed under the canonical prefix; also an element that declares its namespace on itself"""
    cands = [(u, p) for u, p in NS_TABLE.items() if p and p not in ("xml", "xlink", "xhtml", "rdf")]
    uri, canon = rng.choice(cands)
    p1, p2 = rng.sample([canon, "sl", "px", "n1", "ext"], 2)
    l1, l2 = rng.sample(LOCALS, 2)
    def free(loc):
        return ("%s_%s" % (canon, loc.lower())) not in HANDLED_START and ("%s_%s" % (canon, loc.lower())) not in HANDLED_END
    if not (free(l1) and free(l2)):
        return None
    where2 = rng.choice(["root", "item", "element"])
    root_decl = ' xmlns:%s="%s"' % (p1, uri) + (' xmlns:%s="%s"' % (p2, uri) if where2 == "root" else "")
    item_decl = ' xmlns:%s="%s"' % (p2, uri) if where2 == "item" else ""
    el_decl = ' xmlns:%s="%s"' % (p2, uri) if where2 == "element" else ""
    exps = [("feed", ("%s_%s" % (canon, l1)).lower(), "text", "first"), ("entry", ("%s_%s" % (canon, l2)).lower(), "text", "second")]
    if l1.lower() == l2.lower():
        return None
    doc = ('<rss version="2.0"%s><channel><%s:%s>first</%s:%s><item%s><%s:%s%s>second</%s:%s></item></channel></rss>' %
           (root_decl, p1, l1, p1, l1, item_decl, p2, l2, el_decl, p2, l2))
    return doc.encode("utf-8"), exps, {"fmt": "rss", "used": []}


def gen_default_then_prefix_case(rng):
    """ONE unrecognised namespace URI used twice: as the DEFAULT namespace declared on an element itself, and through a prefix declared on another
    element (before or after it, in the feed and in the entry): the unprefixed use is exposed under the bare local name, the prefixed one under
    prefix_local -- whatever was looked up first"""
    uri = rng.choice(["urn:example:extension", "http://unknown.example/ns/geo#", "tag:example.org,2024:ext"])
    pfx = rng.choice(["geo2", "ext", "n1", "zz"])
    l1, l2, l3 = rng.sample([l for l in LOCALS if l.lower() not in HANDLED_START and l.lower() not in HANDLED_END], 3)
    if len({l1.lower(), l2.lower(), l3.lower()}) < 3:
        return None
    bare = '<%s xmlns="%s">bare</%s>' % (l1, uri, l1)
    pre = '<%s:%s>prefixed</%s:%s>' % (pfx, l2, pfx, l2)
    order = rng.choice(["bare-first", "prefixed-first"])
    where = rng.choice(["item-decl", "root-decl"])
    root_decl = ' xmlns:%s="%s"' % (pfx, uri) if where == "root-decl" else ""
    item_decl = ' xmlns:%s="%s"' % (pfx, uri) if where == "item-decl" else ""
    if order == "bare-first":
        doc = '<rss version="2.0"%s><channel>%s<item%s>%s<%s xmlns="%s">again</%s></item></channel></rss>' % (root_decl, bare, item_decl, pre, l3, uri, l3)
        # (the 5th field names the key the strict back end is KNOWN to use instead when a prefix for the same URI has been declared before: see known_findings)
        exps = [("feed", l1.lower(), "text", "bare") + ((("%s_%s" % (pfx, l1)).lower(),) if where == "root-decl" else ()),
                ("entry", ("%s_%s" % (pfx, l2)).lower(), "text", "prefixed"), ("entry", l3.lower(), "text", "again", ("%s_%s" % (pfx, l3)).lower())]
    else:
        if where == "item-decl":
            return None
        doc = '<rss version="2.0"%s><channel>%s<item>%s</item></channel></rss>' % (root_decl, pre.replace("prefixed", "first"), bare)
        exps = [("feed", ("%s_%s" % (pfx, l2)).lower(), "text", "first"), ("entry", l1.lower(), "text", "bare", ("%s_%s" % (pfx, l1)).lower())]
    return doc.encode("utf-8"), exps, {"fmt": "rss", "used": []}


def check_case(doc, exps, meta, loose):
    r, _log = tr.traced_parse(doc, {"content-location": BASE, "content-type": "application/xml; charset=utf-8"}, loose=loose)
    w = {"doc": doc, "exps": exps, "meta": meta, "loose": loose}
    if isinstance(r, Exception):
        return []
    fs = []
    be = "loose" if loose else "strict"
    for e in exps:
        where, key, kind, val = e[:4]
        d = r.feed if where == "feed" else (r.entries[0] if r.entries else {})
        got = dict.get(d, key, None)
        if kind == "text":
            if got != val and len(e) > 4 and not loose and dict.get(d, e[4], None) == val:
                fs.append(Finding(("probe", "strict-unprefixed-element-filed-under-declared-prefix"), w,
                                  "%s[%r] is absent and %s[%r] = %r: an UNPREFIXED element of a default namespace is filed under a prefix the document binds to the same unrecognised URI (strict back end: expat "
                                  "hands over no qualified names, the reverse lookup answers the first prefix declared for the URI)" % (where, key, where, e[4], val), observed=e[4], expected=key))
            elif got != val:
                fs.append(Finding(("key", where, "text", be), w, "%s[%r] = %r, expected the element text %r (%s back end)" % (where, key, got, val, be), observed=got, expected=val))
        else:
            g = dict(got) if isinstance(got, dict) else got
            if isinstance(g, dict) and loose:
                g = {k: v for k, v in g.items() if not k.startswith("xmlns")}      # open finding (loose delivers xmlns* as attributes) is tracked separately
            if g != val:
                fs.append(Finding(("key", where, "attrs", be), w, "%s[%r] = %r, expected the attribute dict %r (%s back end)" % (where, key, got, val, be), observed=got, expected=val))
    ns = r.get("namespaces", {})
    for prefix, docuri, expect_prefix, uri in meta["used"]:
        if ns.get(expect_prefix) != docuri:
            fs.append(Finding(("namespaces", "known" if expect_prefix != prefix or uri in NS_TABLE else "unknown", be), w,
                              "namespaces[%r] = %r, expected %r (document prefix %r)" % (expect_prefix, ns.get(expect_prefix), docuri, prefix)))
    return fs


def correspondence(ctx):
    rng = ctx.rng
    docs = []
    for _ in range(ctx.n(250, 4000)):
        d, _e, _m = gen_case(rng)
        docs.append(d)
        if rng.random() < 0.2:
            cut = rng.randrange(len(d) // 2, len(d))
            docs.append(d[:cut])                        # damaged: the machine must be followed there too
    docs += [b'<rss version="2.0"><channel><comments>rel/x</comments><docs>http://a/</docs><item><wfw:comment xmlns:wfw="http://wellformedweb.org/CommentAPI/">c</wfw:comment><foo>1</foo><foo>2</foo></item></channel></rss>',
             b'<rdf:RDF xmlns:rdf="http://www.w3.org/1999/02/22-rdf-syntax-ns#" xmlns="http://purl.org/rss/1.0/"><channel rdf:about="http://a/"><x:y xmlns:x="urn:x">t</x:y></channel><item rdf:about="http://a/1"><date>2004</date></item></rdf:RDF>',
             b'<feed xmlns="http://www.w3.org/2005/Atom" xml:lang="en_US" xml:base="http://b/"><icon>i.png</icon><entry xml:lang=""><logo>l.png</logo><a:b xmlns:a="urn:a" c="d"/></entry><entry><x>1<y>2</y>3</x></entry></feed>']
    return mixlib.corr(ctx, docs, {"content-location": BASE, "content-type": "application/xml; charset=utf-8"})


def search(ctx, focus=None):
    rng = ctx.rng
    failures, n, distinct = [], 0, set()
    for _ in range(ctx.n(1000, 30000)):
        r0 = rng.random()
        if r0 < 0.27:
            c = gen_rebind_case(rng) if r0 < 0.1 else gen_two_prefix_case(rng) if r0 < 0.2 else gen_default_then_prefix_case(rng)
            if c is None:
                continue
            d, exps, meta = c
        else:
            d, exps, meta = gen_case(rng)
        loose = rng.random() < 0.4
        n += 1
        distinct.add((d, loose))
        failures += check_case(d, exps, meta, loose)
    return {"evaluations": n, "distinct_nontrivial": len(distinct), "failures": failures,
            "rule": "documents with 1-4 extension elements: namespace URI from the %d-entry documented table (case-varied in 30%%) or unknown URIs x document prefix "
                    "{canonical, other} x local names (incl. mixed case, dots, dashes, 'keywords') x {text, attributes} x {feed, entry} x RSS/Atom x both back "
                    "ends; one recognised URI under two document prefixes (declared on the root / the item / the element itself); one UNRECOGNISED URI used as a default namespace declared on the element itself and through a prefix, in either order; oracle: key = lower(canonical-or-document prefix + '_' + local) holds the text / the attribute dict, and result.namespaces maps the "
                    "(canonicalised) prefix to the declared URI; elements with dedicated handlers excluded via the frozen handler-name table" % len(URIS),
            "samples": [{"doc": gen_case(vlib.random.Random(7))[0].decode()[:300]}]}


def replay(w):
    exps = [tuple(e) for e in w["exps"]]
    meta = {"fmt": w["meta"]["fmt"], "used": [tuple(u) for u in w["meta"]["used"]]}
    fs = check_case(w["doc"], exps, meta, w["loose"])
    return (bool(fs), fs[0].what if fs else "extension elements exposed under the expected keys")


TECHNIQUE = "Lean 4 proof on a model of the handler machine's generic fallback and namespace canonicalisation (key and namespaces-entry theorems) + regenerated handler-name / namespace tables + per-event correspondence with both back ends + constructed-oracle search"
LEVEL_TEXT = ("Kernel-checked on M-mixin (stage 1): unknown_element_text_key / unknown_element_attrs_key (an element without a handler, in feed or entry context, ends up "
              "under handlerName = canonical-or-document prefix + '_' + local with its stripped text or its attribute dict), track_namespace theorems (recognised URI, "
              "matched case-insensitively, maps the document prefix to the canonical one and records namespaces[canonical] = uri; unrecognised URI records "
              "namespaces[prefix] = uri), table facts on the regenerated namespace table. Tie: the model follows the recorded event stream of the real strict and "
              "loose parsers event by event and must reproduce the entire result.")
LEVEL_NOTE = ("Trusted: Lean kernel + standard axioms; expat / sgmllib event delivery (recorded); ASCII domain for text. Open finding: the loose back end delivers "
              "xmlns* declarations as attributes, so handler-less elements that carry a declaration get a dict instead of their text there.")
