"""C07 — the result does not depend on how the bytes are delivered."""
import io
import os
import tempfile
import warnings

import vlib
from vlib import Finding
import feedgen
from props.C11 import plain

LEAN_MODULES = ["FeedVerif.Props.C07", "FeedVerif.Model.StreamDriver"]
CORR_OBLIGATIONS = ["M-prefix ~ convert_file_prefix_to_utf8: final file offset and the answer kept, for scripted convert_to_utf8 behaviours (which attempts are bozo, with which exception class / encoding family), files at an offset, prefix lengths 1-6",
                    "M-stream ~ PrefixFileWrapper.read on operation sequences (sized reads / read()) over files with adversarial short-read schedules",
                    "M-stream ~ _open_resource on the delivery forms (payload the parsers see, who owns / closes the file) and ~ the empty-content probe (offset restored)",
                    "feedparser's own consumers never issue read() in the middle of the prefix (traced on real parses: the hypothesis of readAll_fresh / readAll_past)"]
TRUSTED = ["Lean model FeedVerif/Model/Stream.lean of PrefixFileWrapper / ResetFileWrapper / the probe / _open_resource; io.BytesIO / io.StringIO / real files as the 'File' of the model",
           "codecs incremental decoders agree with one-shot decoding on valid input (library fact); optimistic on/off equality is decided by the search, not proved (prefix verdict stability is "
           "a property of the encoding detector on prefixes)"]
ASSUMPTIONS = ["file descriptors are observed through /proc/self/fd (runtime only)"]


# ------------------------------------------------------------------------------------------------ documents
def big_feed(rng, total, enc="utf-8", nonascii_at=None, decl_enc=None, broken=False, wide="é"):
    """an RSS feed of about `total` bytes with multi-byte text placed so that a chosen byte offset falls inside a run of `wide` characters"""
    decl = '<?xml version="1.0" encoding="%s"?>\n' % decl_enc if decl_enc else ""
    head = decl + '<rss version="2.0"><channel><title>big</title><link>http://example.org/</link><description>d</description>\n'
    items = []
    size = len(head.encode(enc, "replace"))
    i = 0
    while size < total:
        t = "<item><title>entry %d %s</title><link>http://example.org/%d</link><description>%s</description></item>\n" % (i, rng.choice(["plain", "naïve", "日本", "x"] if enc == "utf-8" else ["plain", "x", "more"]), i, "word " * rng.randint(3, 40))
        items.append(t)
        size += len(t.encode(enc, "replace"))
        i += 1
    doc = head + "".join(items)
    if nonascii_at is not None:
        # put a long run of a multi-byte character across the byte offset `nonascii_at` (inside the text of some description)
        b = doc.encode(enc)
        cut = b.rfind(b"<description>"[:1] if enc.startswith("utf-16") or enc.startswith("utf-32") else b"<description>", 0, max(0, nonascii_at - 40))
        if cut > 0 and not (enc.startswith("utf-16") or enc.startswith("utf-32")):
            cut += len(b"<description>")
            pad = nonascii_at - cut - rng.randint(0, 3)
            run = ("a" * max(0, pad)) + wide * 40
            doc = b[:cut].decode(enc) + run + b[cut:].decode(enc)
    if broken:
        k = len(doc) - rng.randint(20, 200)
        doc = doc[:k] + rng.choice([" & ", "<b>", "</nosuch>"]) + doc[k:]
    return doc + "</channel></rss>"


def _undecodable(enc, b):
    try:
        bytes([b]).decode(enc)
        return False
    except UnicodeDecodeError:
        return True


class NonSeekable:
    def __init__(self, data, rng=None, short=False):
        self._b, self._rng, self._short = io.BytesIO(data), rng, short
        self.closed_called = False

    def read(self, n=-1):
        if n is None or n < 0 or not self._short:
            return self._b.read(n)
        return self._b.read(max(1, self._rng.randint(1, n)) if n else 0)

    def close(self):
        self.closed_called = True


class ShortSeekable:
    """a SEEKABLE binary stream whose read(n) returns between 1 and n bytes, as raw, network-backed or decompressing streams do (the caps are a
    deterministic function of the content, so that a replay sees the same schedule)"""
    def __init__(self, data, salt=0):
        import random
        import zlib
        self._b, self._rng = io.BytesIO(data), random.Random(zlib.crc32(data) * 8 + salt)
        self.closed_called = False

    def read(self, n=-1):
        if n is None or n < 0:
            return self._b.read()
        return self._b.read(self._rng.randint(1, n)) if n else b""

    def seek(self, *a):
        return self._b.seek(*a)

    def tell(self):
        return self._b.tell()

    def seekable(self):
        return True

    def close(self):
        self.closed_called = True


class TextNonSeekable:
    def __init__(self, text):
        self._s = io.StringIO(text)
        self.closed_called = False

    def read(self, n=-1):
        return self._s.read(n)

    def close(self):
        self.closed_called = True


BYTE_FORMS = ["bytes", "bytesio", "bytesio-offset", "nonseekable", "short-reads", "seekable-short-reads", "seekable-short-reads#2", "seekable-short-reads#3", "seekable-short-reads#4", "file", "rawfile", "path"]
TEXT_FORMS = ["str", "stringio", "text-nonseekable", "stringio-offset"]


def fds():
    try:
        return set(os.listdir("/proc/self/fd"))
    except OSError:
        return set()


def run_form(data, form, headers, optimistic, rng, tmpdir):
    """returns (summary dict | exception, stream-closed?, leaked fds)"""
    import feedparser
    src, stream, fh = None, None, None
    if form == "bytes":
        src = data
    elif form == "bytesio":
        src = stream = io.BytesIO(data)
    elif form == "bytesio-offset":
        pad = b"JUNK" * rng.randint(1, 5)
        stream = io.BytesIO(pad + data)
        stream.seek(len(pad))
        src = stream
    elif form == "nonseekable":
        src = stream = NonSeekable(data)
    elif form == "short-reads":
        src = stream = NonSeekable(data, rng, short=True)
    elif form.startswith("seekable-short-reads"):
        src = stream = ShortSeekable(data, int(form.partition("#")[2] or 0))
    elif form in ("file", "path", "rawfile"):
        p = os.path.join(tmpdir, "f%d.xml" % rng.randrange(10**9))
        with open(p, "wb") as f:
            f.write(data)
        if form == "path":
            src = p
        else:
            fh = open(p, "rb") if form == "file" else open(p, "rb", buffering=0)      # rawfile: an unbuffered io.FileIO (a seekable RawIOBase)
            src = stream = fh
    elif form == "str":
        src = data
    elif form == "stringio":
        src = stream = io.StringIO(data)
    elif form == "stringio-offset":
        stream = io.StringIO("JUNK" + data)
        stream.seek(4)
        src = stream
    elif form == "text-nonseekable":
        src = stream = TextNonSeekable(data)
    before = fds()
    with warnings.catch_warnings():
        warnings.simplefilter("ignore")
        try:
            r = feedparser.parse(src, response_headers=headers, optimistic_encoding_detection=optimistic)
        except Exception as e:
            r = e
    after = fds()
    closed = None
    if stream is not None:
        closed = getattr(stream, "closed", False) or getattr(stream, "closed_called", False)
    if fh is not None:
        fh.close()
    leaked = sorted(after - before) if form == "path" else []
    if isinstance(r, Exception):
        return r, closed, leaked
    return {"feed": plain(r.feed), "entries": plain(r.entries), "encoding": r.get("encoding"), "version": r.get("version"), "namespaces": dict(r.get("namespaces", {})),
            "bozo": bool(r.bozo), "bozo_class": type(r.get("bozo_exception")).__name__ if r.bozo else None}, closed, leaked


def first_diff(a, b):
    for k in ("bozo", "bozo_class", "encoding", "version", "namespaces"):
        if a[k] != b[k]:
            return k, a[k], b[k]
    if len(a["entries"]) != len(b["entries"]):
        return "entries.count", len(a["entries"]), len(b["entries"])
    if a["feed"] != b["feed"]:
        return "feed", str(a["feed"])[:200], str(b["feed"])[:200]
    for i, (x, y) in enumerate(zip(a["entries"], b["entries"])):
        if x != y:
            k = next((k for k in sorted(set(x) | set(y)) if x.get(k) != y.get(k)), "?")
            return "entries[%d].%s" % (i, k), str(x.get(k))[:200], str(y.get(k))[:200]
    return None


def size_class(n):
    if n < 8000:
        return "small"
    if n < 2**13 + 300:
        return "~8KiB"
    if n < 60000:
        return "medium"
    if n < 2**16 + 600:
        return "~64KiB"
    return "large"


def judge(case, rng, tmpdir):
    """case: dict(kind 'bytes'|'text', data, headers, label)"""
    fs = []
    data, headers, label = case["data"], case["headers"], case["label"]
    forms = BYTE_FORMS if case["kind"] == "bytes" else ["bytes"] + TEXT_FORMS      # text: the same document as utf-8 bytes is the reference
    results = {}
    for form in forms:
        for opt in ((True, False) if case["kind"] == "bytes" else (True,)):
            payload = data.encode("utf-8") if (case["kind"] == "text" and form == "bytes") else data
            r, closed, leaked = run_form(payload, form, headers, opt, rng, tmpdir)
            w = {"kind": case["kind"], "data": data, "headers": headers, "label": label, "form": form, "optimistic": opt}
            if isinstance(r, Exception):
                fs.append(Finding(("raises", form.partition("#")[0], type(r).__name__), w, "delivered as %s (optimistic=%s): parse raises %s: %s" % (form, opt, type(r).__name__, r)))
                continue
            if closed:
                fs.append(Finding(("closed-caller-stream", form), w, "the caller's stream (%s) was closed by parse()" % form))
            if leaked:
                fs.append(Finding(("fd-leak", form), w, "file descriptors %s still open after parse(path)" % leaked))
            results[(form, opt)] = r
    if not results:
        return fs
    ref_key = (forms[0], True)
    ref = results.get(ref_key) or next(iter(results.values()))
    for (form, opt), r in results.items():
        d = first_diff(ref, r)
        if d:
            w = {"kind": case["kind"], "data": data, "headers": headers, "label": label, "form": form, "optimistic": opt, "ref_form": ref_key[0]}
            how = "optimistic" if form == ref_key[0] else "form"
            fs.append(Finding(("differs", how if how == "optimistic" else form.partition("#")[0], label.split("/")[0], d[0].split("[")[0].split(".")[0]), w,
                              "%s: delivered as %s (optimistic=%s) differs from %s (optimistic=True) at %s: %r vs %r" % (label, form, opt, ref_key[0], d[0], d[2], d[1]), observed=d[2], expected=d[1]))
    seen, out = set(), []
    for f in fs:
        if tuple(f.key) not in seen:
            seen.add(tuple(f.key))
            out.append(f)
    return out


HOLE_CODECS = ["windows-1251", "windows-1252", "windows-1253", "windows-1250", "cp874", "iso-8859-7", "windows-1255", "windows-1257", "iso-8859-3", "iso-8859-8"]


def hole_case(rng, enc, after=None):
    """a single-byte code page with unassigned byte values: one such byte before / after the prefix boundary"""
    holes = [b for b in range(128, 256) if _undecodable(enc, b)]
    doc = big_feed(rng, 2**16 + 3000, enc="utf-8", decl_enc=enc).replace("naïve", "plain").replace("日本", "x")
    b = bytearray(doc.encode("ascii", "replace"))
    if after is None:
        after = rng.random() < 0.5
    pos = 2**16 + rng.randint(10, 2500) if after else rng.randint(200, 60000)
    if holes:
        b[pos:pos] = bytes([rng.choice(holes)])
    hdr = rng.choice([None, {"content-type": "application/xml; charset=%s" % enc}])
    return {"kind": "bytes", "data": bytes(b), "headers": hdr, "label": "invalid-byte/%s/%s" % (enc, "before" if pos < 2**16 else "after")}


def gen_case(rng):
    r = rng.random()
    if r < 0.15:
        doc = feedgen.vocab_doc(rng)
        return {"kind": "bytes", "data": doc.encode("utf-8"), "headers": rng.choice([None, {"content-type": "application/xml; charset=utf-8"}, {"content-type": "text/xml"}]), "label": "small/utf-8"}
    if r < 0.33:
        # dense in 2-byte characters that windows-1252 can also read: a read that ends anywhere is likely to end inside a character
        n = rng.choice([300, 1500, 4000, 2**13 + rng.randint(-4, 4), 30000, 2**16 + rng.randint(-300, 300), 90000])
        wide = rng.choice(["é", "ß", "éß", "ñ"])
        items, size, i = [], 0, 0
        while size < n:
            t = "<item><title>%s %d</title><description>%s</description></item>\n" % (wide * rng.randint(3, 30), i, (wide * rng.randint(5, 60) + rng.choice(["", " ", "a"])) * rng.randint(1, 4))
            items.append(t)
            size += len(t.encode("utf-8"))
            i += 1
        declared = rng.choice(["utf-8", None])
        doc = ('<?xml version="1.0" encoding="utf-8"?>\n' if declared else "") + '<rss version="2.0"><channel><title>%s</title>\n%s</channel></rss>' % (wide * 5, "".join(items))
        return {"kind": "bytes", "data": doc.encode("utf-8"), "headers": rng.choice([None, {"content-type": "application/xml; charset=utf-8"}, {"content-type": "application/xml"}]), "label": "dense/utf-8/decl=%s" % declared}
    if r < 0.6:
        # straddle the 64 KiB detection prefix with every alignment of a multi-byte character
        wide = rng.choice(["é", "日", "😀", "ß"])
        at = 2**16 + rng.randint(-6, 6)
        declared = rng.choice(["utf-8", None, "us-ascii", "utf-8"])
        doc = big_feed(rng, 2**16 + rng.randint(200, 4000), nonascii_at=at, decl_enc=declared, wide=wide, broken=rng.random() < 0.2)
        hdr = rng.choice([None, {"content-type": "application/xml; charset=utf-8"}, {"content-type": "text/xml"}, {"content-type": "application/xml"}, {"content-type": "text/xml; charset=us-ascii"}])
        return {"kind": "bytes", "data": doc.encode("utf-8"), "headers": hdr, "label": "boundary-64k/utf-8/decl=%s" % declared}
    if r < 0.65:
        enc = rng.choice(["utf-16", "utf-16le", "utf-16be", "utf-32", "iso-8859-1", "windows-1252", "koi8-r"])
        total = rng.choice([3000, 2**13 + rng.randint(-4, 4), 2**16 + rng.randint(-4, 4) + 500])
        doc = big_feed(rng, total, enc=enc if not enc.startswith("utf-") else "utf-8", decl_enc=enc if enc not in ("utf-16le", "utf-16be") else None)
        try:
            data = doc.encode(enc, "replace")
            if enc in ("utf-16le",):
                data = b"\xff\xfe" + data
            if enc in ("utf-16be",):
                data = b"\xfe\xff" + data
        except LookupError:
            data = doc.encode("utf-8")
        return {"kind": "bytes", "data": data, "headers": None, "label": "encoding/%s" % enc}
    if r < 0.68:
        return hole_case(rng, rng.choice(HOLE_CODECS))
    if r < 0.75:
        # an undecodable byte before / after the prefix boundary
        enc = rng.choice(["utf-8", "utf-8", "big5", "shift_jis", "euc-jp"])
        doc = big_feed(rng, 2**16 + 3000, decl_enc=enc)
        if enc != "utf-8":
            doc = doc.replace("<title>big</title>", "<title>中文 日本 標題</title>").replace("naïve", "中文").replace("日本", "文字")
        b = bytearray(doc.encode(enc, "replace"))
        pos = rng.choice([rng.randint(200, 60000), 2**16 + rng.randint(10, 2500)])
        b[pos:pos] = rng.choice([b"\xff", b"\xc3", b"\xe2\x82", b"\x80"])
        return {"kind": "bytes", "data": bytes(b), "headers": rng.choice([None, {"content-type": "application/xml; charset=utf-8"}]), "label": "invalid-byte/%s/%s" % (enc, "before" if pos < 2**16 else "after")}
    # text delivery: documents around the 8192-character text prefix, well-formed and not
    total = rng.choice([3000, 2**13 + rng.randint(-4, 4), 2**13 + 3000, 20000, 2**16 + 100])
    doc = big_feed(rng, total, broken=rng.random() < 0.6)
    return {"kind": "text", "data": doc, "headers": rng.choice([None, {"content-type": "application/xml; charset=utf-8"}]), "label": "text/%s" % size_class(len(doc))}


def search(ctx, focus=None):
    rng = ctx.rng
    failures, n, distinct = [], 0, set()
    dist = {}
    tmpdir = tempfile.mkdtemp(prefix="c07_")
    try:
        cases = [hole_case(rng, enc, after=True) for enc in HOLE_CODECS]         # every code page with holes, each run
        cases += [gen_case(rng) for _ in range(ctx.n(16, 400))]
        for case in cases:
            nforms = len(BYTE_FORMS) * 2 if case["kind"] == "bytes" else len(TEXT_FORMS) + 1
            n += nforms
            key_doc = (case["data"] if isinstance(case["data"], bytes) else case["data"].encode("utf-8"), str(case["headers"]))
            for form in (BYTE_FORMS if case["kind"] == "bytes" else ["bytes"] + TEXT_FORMS):
                for opt in ((True, False) if case["kind"] == "bytes" else (True,)):
                    distinct.add(key_doc + (form, opt))
            dist[case["label"].split("/")[0]] = dist.get(case["label"].split("/")[0], 0) + nforms
            failures += judge(case, rng, tmpdir)
            for f in os.listdir(tmpdir):
                os.unlink(os.path.join(tmpdir, f))
    finally:
        for f in os.listdir(tmpdir):
            os.unlink(os.path.join(tmpdir, f))
        os.rmdir(tmpdir)
    return {"evaluations": n, "distinct_nontrivial": len(distinct), "failures": failures, "distribution": dist,
            "rule": "documents {small vocabulary-wide feeds; feeds of 300 B - 90 KB dense in 2-byte characters (a read ending anywhere is likely to end inside one); ~64 KiB + feeds with a run of 2/3/4-byte characters placed at every alignment (-6..+6) around byte 65536, declared utf-8 / us-ascii / "
                    "undeclared, XML media types with and without charset; single-byte code pages with an UNASSIGNED byte value before / after the prefix boundary; UTF-16/32, latin-1, windows-1252, koi8-r at sizes straddling 2**13 and 2**16 +/- 4; an undecodable byte before / "
                    "after the prefix boundary; text documents around the 8192-character text prefix, well-formed and damaged} x delivery {bytes, BytesIO, BytesIO at an offset, non-seekable "
                    "stream, short-read stream, SEEKABLE short-read stream, open file, unbuffered raw file (io.FileIO), path | str, StringIO, StringIO at an offset, non-seekable text stream} x optimistic on/off; oracle: pairwise equality of feed, "
                    "entries, encoding, version, namespaces, bozo class; caller streams not closed; no fd left open after parse(path); distinct = distinct (document, headers, delivery form, optimistic flag)",
            "samples": [{"label": "boundary-64k/utf-8"}]}


# ------------------------------------------------------------------------------------------------ correspondence
class SchedFile:
    """the model's File: content + caps schedule"""

    def __init__(self, rest, caps):
        self.rest, self.caps = bytes(rest), list(caps)

    def read(self, size=-1):
        if size is None or size < 0:
            out, self.rest = self.rest, b""
            return out
        if size == 0:
            return b""
        cap = max(1, self.caps.pop(0)) if self.caps else size
        n = min(size, cap)
        out, self.rest = self.rest[:n], self.rest[n:]
        return out


def enc_bytes(b):
    return ",".join(str(x) for x in b) if b else "_"


def prefix_cases(rng, n):
    """M-prefix: the real convert_file_prefix_to_utf8 over a scripted convert_to_utf8 (which attempts are bozo, with which exception class and
    encoding family) on small files at an offset; protocol lines for the model and the (final offset, chosen answer) the real loop ends with"""
    import unittest.mock as mock
    import feedparser.encodings as E
    lines, exp = [], []
    for _ in range(n):
        total = rng.randint(0, 14); offset0 = rng.randint(0, min(3, total))
        content = bytes(rng.choice([0x61, 0xe2, 0x82, 0xac, 0xf0, 0x9f, 0x98, 0x80]) for _ in range(total))
        prefix_len = rng.randint(1, 6); ascii_len = rng.randint(0, 4)
        script = []
        for _i in range(5):
            b = rng.random() < 0.7
            script.append((b, rng.choice([0, 10, 20]) if b else 0, rng.random() < 0.5))
        f = io.BytesIO(content); f.seek(offset0)
        state = {"pos": None}
        real_rta = E.read_to_after_ascii_byte
        def rta(file, max_len):
            r = real_rta(file, max_len); state["pos"] = file.tell(); return r
        def conv(headers, data, result):
            # (a variant that never calls read_to_after_ascii_byte skipped the boundary search: reported below)
            i = offset0 + len(data) - (state["pos"] if state["pos"] is not None else offset0 + len(data))
            b, sc, u = script[min(max(i, 0), len(script) - 1)]
            result["encoding"] = "utf-8" if u else "latin-1"
            if b:
                result["bozo"] = True
                result["bozo_exception"] = E.NonXMLContentType("x") if sc == 20 else E.CharacterEncodingOverride("x") if sc == 10 else ValueError("x")
            return data
        with mock.patch.object(E, "read_to_after_ascii_byte", rta), mock.patch.object(E, "convert_to_utf8", conv):
            res = {}
            out = E.convert_file_prefix_to_utf8({}, f, res, prefix_len=prefix_len, read_to_ascii_len=ascii_len)
        exc = res.get("bozo_exception")
        score = 20 if isinstance(exc, E.NonXMLContentType) else 10 if isinstance(exc, E.CharacterEncodingOverride) else 0
        if state["pos"] is None and total - offset0 > 0:
            # the real loop never looked for an ASCII byte after the prefix although there was something to read: not the modelled search
            lines.append("stream retry %d %d %d %s" % (offset0, f.tell(), total, ";".join("%d,%d,%d" % (b, sc, u) for b, sc, u in script)))
            exp.append("boundary-search-skipped")
            continue
        lines.append("stream retry %d %d %d %s" % (offset0, state["pos"] if state["pos"] is not None else f.tell(), total, ";".join("%d,%d,%d" % (b, sc, u) for b, sc, u in script)))
        exp.append("%d %d %d %d %d" % (f.tell(), bool(res.get("bozo")), score, res["encoding"].startswith("utf-"), len(out)))
    return lines, exp


def correspondence(ctx):
    from feedparser.encodings import PrefixFileWrapper
    import feedparser.api as api
    rng = ctx.rng
    lines, exp = [], []
    dist = {"pw": 0, "open": 0, "probe": 0, "mid-prefix-readall-by-feedparser": 0}
    for _ in range(ctx.n(400, 6000)):
        p = bytes(rng.randrange(256) for _ in range(rng.choice([0, 1, 2, 5, 9])))
        r = bytes(rng.randrange(256) for _ in range(rng.choice([0, 1, 3, 8, 20])))
        caps = [rng.choice([1, 1, 2, 3, 7, 100]) for _ in range(rng.randint(0, 8))]
        ops = []
        for _i in range(rng.randint(1, 7)):
            ops.append("ra" if rng.random() < 0.2 else "r%d" % rng.choice([0, 1, 2, 3, 5, 10, 64]))
        w = PrefixFileWrapper(p, SchedFile(r, caps))
        out = []
        for op in ops:
            out.append(w.read(-1) if op == "ra" else w.read(int(op[1:])))
        lines.append("stream pw %s %s %s %s" % (enc_bytes(p), enc_bytes(r), ",".join(str(c) for c in caps) if caps else "_", " ".join(ops)))
        exp.append("|".join(enc_bytes(c) for c in out))
        dist["pw"] += 1
    for _ in range(ctx.n(60, 600)):
        content = bytes(rng.randrange(1, 256) for _ in range(rng.randint(0, 12)))
        pos = rng.randint(0, len(content))
        form = rng.choice(["bytes", "seekable", "nonseekable"])
        if form == "bytes":
            src = content[pos:]
        elif form == "seekable":
            src = io.BytesIO(content)
            src.seek(pos)
        else:
            src = NonSeekable(content)
            src._b.seek(pos)
        f = api._open_resource(src, {})
        p0 = f.tell()
        payload = f.read()
        f.seek(p0)
        lines.append("stream open %s %s %d" % (form, enc_bytes(content), pos))
        exp.append("%s %d" % (enc_bytes(payload), int(hasattr(src, "read"))))
        dist["open"] += 1
        # the probe, as parse() does it
        s = io.BytesIO(content)
        s.seek(pos)
        off = s.tell()
        empty = not s.read(1)
        s.seek(off)
        lines.append("stream probe %s %d" % (enc_bytes(content), pos))
        exp.append("%d %d" % (int(empty), s.tell()))
        dist["probe"] += 1
    pl, pe = prefix_cases(rng, ctx.n(600, 8000))
    lines += pl
    exp += pe
    dist["prefix-boundary-search"] = len(pl)
    got = vlib.run_driver(lines)
    dis = []
    for l, g, e in zip(lines, got, exp):
        if g != e and len(dis) < 20:
            dis.append({"line": l, "model": g, "impl": e})
    # third obligation: feedparser's own consumers never call read() in the middle of the prefix
    import unittest.mock as mock
    import feedparser
    import feedparser.encodings as E
    bad = []
    real_read = E.PrefixFileWrapper.read

    def spy(self, size=-1):
        if (size is None or size < 0) and 0 < self.offset < len(self.prefix):
            bad.append((self.offset, len(self.prefix)))
        return real_read(self, size)
    with mock.patch.object(E.PrefixFileWrapper, "read", spy), warnings.catch_warnings():
        warnings.simplefilter("ignore")
        for _ in range(ctx.n(12, 120)):
            case = gen_case(rng)
            try:
                feedparser.parse(io.BytesIO(case["data"]) if isinstance(case["data"], bytes) else io.StringIO(case["data"]), response_headers=case["headers"],
                                 optimistic_encoding_detection=rng.random() < 0.7)
            except Exception:
                pass
    dist["mid-prefix-readall-by-feedparser"] = len(bad)
    if bad:
        dis.append({"what": "a feedparser consumer issued read() at offset %d of a %d-byte prefix: the wrapper re-emits the whole prefix (mixed_read_counterexample)" % bad[0]})
    return {"cases": len(lines), "distinct": len(set(lines)), "unmodelled": 0, "disagreements": dis, "distribution": dist, "samples": [{"line": lines[0], "expected": exp[0]}]}


def replay(w):
    import random
    rng = random.Random(0)
    tmpdir = tempfile.mkdtemp(prefix="c07r_")
    try:
        fs = judge({"kind": w["kind"], "data": w["data"], "headers": w["headers"], "label": w["label"]}, rng, tmpdir)
        for f in os.listdir(tmpdir):
            os.unlink(os.path.join(tmpdir, f))
    finally:
        os.rmdir(tmpdir)
    return (bool(fs), fs[0].what if fs else "all delivery forms and both detection modes agree; caller streams stay open")


TECHNIQUE = "Lean 4 proof: the stream-stitching wrapper delivers exactly prefix-then-file under every read-chunking pattern and every short-read schedule (loop invariant, induction), re-reads and the probe restore the offset, all delivery forms hand over the same payload + operation-sequence correspondence with the real wrappers + pairwise delivery-form / optimistic differential search at the 8 KiB / 64 KiB boundaries"
LEVEL_TEXT = ("Kernel-checked on M-prefix: prefix_split_lossless (for EVERY document, start / read position and EVERY behaviour of convert_to_utf8 the answer kept by convert_file_prefix_to_utf8 is convert_to_utf8 of exactly content[start:offset] where offset is where the file is left -- whichever of the four attempts wins, and when all fail and the file is sought back to the best candidate), boundarySearch_some, pickBest_mem. Kernel-checked on M-stream: readN_preserves (a sized read returns a prefix of what was readable, for EVERY short-read schedule), readSeq_preserves (every sequence of sized reads "
              "delivers the same bytes), loopN_stable / loopN_enough (the fuel bound of the modelled loop is not a restriction), readAll_fresh / readAll_past with mixed_read_counterexample "
              "(read() re-emits the prefix only in the middle of it -- which feedparser's consumers never do: traced), factory_reread, probe_restores_offset, delivery_form_payload, "
              "close_iff_not_caller_owned. Tie: operation sequences on the real PrefixFileWrapper / _open_resource vs the model.")
LEVEL_NOTE = ("Trusted: Lean kernel + standard axioms; codecs' incremental decoding; the OS file layer. Independence of optimistic_encoding_detection rests on the prefix verdict being stable, "
              "which is decided by the search (alignment sweep at the 64 KiB boundary), not proved.")
