"""C10 — only the XML infoset matters: syntactic variants parse identically."""
import random
import re
import warnings

import vlib
from vlib import Finding
import feedgen
import mixlib
import xmlrw
from props import C19
from props.C11 import plain, diffs

LEAN_MODULES = ["FeedVerif.Props.C10", "FeedVerif.Model.MixinDriver"]
CORR_OBLIGATIONS = ["M-mixin (stage 1) ~ the real handler machine on syntactic variants (each variant chunks character data differently; the model follows every chunking)",
                    "event streams of infoset-equivalent spellings differ ONLY in data chunking and attribute order (recorded from the strict back end; infoset equality judged by an independent expat tokenisation)"]
TRUSTED = C19.TRUSTED + ["tools/xmlrw.py: the rewriter; every variant is re-tokenised with expat and its infoset compared with the original's before it is used",
                         "expat + xml.sax deliver comments / PIs to nobody and attributes as a mapping (validated by the second correspondence obligation)"]
ASSUMPTIONS = ["attribute-order irrelevance is a theorem for lookups (attribute_order_irrelevant: with distinct names every attrs_d.get(name) is the same for every permutation; sget_dictOf: the last attribute of a name wins); the handlers read attrs_d only by key, the fallback stores it as a mapping; order of xmlns declarations that bind two differently-spelled URIs of one recognised namespace is outside the generator"]

HDR = {"content-type": "application/xml; charset=utf-8"}
XHTML = ["<p>plain <b>bold</b> text</p>", "<div><ul><li>a</li><li>b &amp; c</li></ul></div>", "<p>x<br/>y</p>", '<p><a href="http://example.org/?a=1&amp;b=2" title="t">l</a> <em>e</em></p>',
         "<blockquote><p>q &lt; r</p></blockquote>", "<p>Type &amp;lt;b&amp;gt; for bold, &amp;amp; for an ampersand and &amp;#160; for a space</p>", "<pre>if (a &amp;amp;&amp;amp; b) x &amp;lt;&amp;lt;= 1; /* &amp;copy; */</pre>", '<p><img src="http://example.org/i.png" alt="a &quot;b&quot;" width="1" height="2"/></p>', "<p>1 &#60; 2 &#x26; 3</p>"]


def respell_ns_case(rng, doc):
    """re-spell the URIs of RECOGNISED namespaces in another letter case (feedparser recognises them case-insensitively, so such a
    document is a feed over the handled vocabularies like any other; it is the BASE document of the variants, not a variant)"""
    def sub(m):
        uri = m.group(3)
        if not recognised(uri) or rng.random() < 0.4:
            return m.group(0)
        k = rng.randrange(3)
        new = uri.upper() if k == 0 else (re.sub(r"[a-z]+", lambda w: w.group(0).upper() if rng.random() < 0.5 else w.group(0), uri) if k == 1 else uri[:7] + uri[7:].swapcase())
        return "%s=%s%s%s" % (m.group(1), m.group(2), new, m.group(2))
    return re.sub(r"""(xmlns(?::[\w.-]+)?)=(["'])([^"']*)\2""", sub, doc.decode("utf-8")).encode("utf-8")


def gen_doc(rng):
    d, k = gen_doc0(rng)
    if rng.random() < 0.2:
        return respell_ns_case(rng, d), k + "+nscase"
    return d, k


def uri_text_doc(rng):
    """URI-valued elements whose text has inner white space next to references (every chunking of the character data must give the same value), and
    link-like elements that carry MORE THAN ONE of the url / uri / href spellings with different values (their priority must not depend on attribute order)"""
    t = lambda: rng.choice(["Tom &amp; Jerry: episode %d" % rng.randrange(9), "urn:x y &#38; z", "http://example.org/a b?q=rss&#32;spec&amp;v=2", "id with  two spaces &amp; more", "a &lt; b",
                            "http://example.org/plain", "tag:example.org,2005:%d" % rng.randrange(99)])
    if rng.random() < 0.5:
        items = "".join('<item><title>t%d</title><guid isPermaLink="false">%s</guid><comments>%s</comments><link>%s</link>'
                        '<enclosure url="http://example.org/a%d.mp3" href="http://mirror.example.net/b%d.mp3" type="audio/mpeg" length="1"/></item>' % (i, t(), t(), t(), i, i) for i in range(rng.randint(1, 3)))
        return ('<rss version="2.0"><channel><title>c</title><docs>%s</docs><link>%s</link>%s</channel></rss>' % (t(), t(), items)).encode("utf-8"), "uri-text/rss"
    entries = "".join('<entry><title>t%d</title><id>%s</id><link href="http://example.org/h%d" url="http://example.org/u%d"/><updated>2005-01-01T00:00:00Z</updated></entry>' % (i, t(), i, i)
                      for i in range(rng.randint(1, 3)))
    return ('<feed xmlns="http://www.w3.org/2005/Atom"><title>c</title><id>%s</id><icon>%s</icon><logo>%s</logo>'
            '<generator url="http://example.org/gen03" uri="http://example.org/gen10" version="1">G</generator><updated>2005-01-01T00:00:00Z</updated>%s</feed>' % (t(), t(), t(), entries)).encode("utf-8"), "uri-text/atom"


MOJIBAKE = ["CafÃ© — MÃ¼nchen", "CafÃ© MÃ¼nchen", "naÃ¯ve – rÃ©sumÃ©", "plain then Ã¤ and “quotes”", "Ã©Ã¨Ãª", "… Ã¶ …", "MÃ¼nchen"]


def mojibake_doc(rng):
    """texts that contain UTF-8 read as ISO-8859-1 ("mojibake"), alone and next to characters outside ISO-8859-1: pop() repairs such text as a WHOLE (or not at all) --
    where the tokenizer cuts the character data (references, CDATA edges, comments) must not matter"""
    t = lambda: feedgen.esc(rng.choice(MOJIBAKE))
    items = "".join("<item><title>%s</title><description>%s</description><dc:creator>%s</dc:creator><category>%s</category></item>" % (t(), t(), t(), t()) for _ in range(rng.randint(1, 3)))
    return ('<rss version="2.0" xmlns:dc="http://purl.org/dc/elements/1.1/"><channel><title>%s</title><copyright>%s</copyright>%s</channel></rss>' % (t(), t(), items)).encode("utf-8"), "mojibake"


INLINE_NS = ['<svg:svg width="10" height="10"><svg:circle cx="5" cy="5" r="4"/><svg:title>c</svg:title></svg:svg>', "<m:math><m:mi>x</m:mi><m:mo>+</m:mo><m:mn>1</m:mn></m:math>",
             '<p>before</p><svg:svg viewBox="0 0 1 1"><svg:g><svg:rect width="1" height="1"/></svg:g></svg:svg><p>after</p>', "<p>a <m:math><m:mfrac><m:mn>1</m:mn><m:mn>2</m:mn></m:mfrac></m:math> b</p>"]


def inline_ns_doc(rng):
    """inline XHTML that embeds SVG / MathML under namespace PREFIXES (declared on the feed element): the prefix renaming variants include upper-case spellings"""
    b1, b2 = rng.choice(INLINE_NS), rng.choice(INLINE_NS)
    return ('<feed xmlns="http://www.w3.org/2005/Atom" xmlns:svg="http://www.w3.org/2000/svg" xmlns:m="http://www.w3.org/1998/Math/MathML"><title>t</title><id>i</id><updated>2005-01-01T00:00:00Z</updated>'
            '<entry><title>e</title><id>j</id><content type="xhtml"><div xmlns="http://www.w3.org/1999/xhtml">%s</div></content>'
            '<summary type="xhtml"><div xmlns="http://www.w3.org/1999/xhtml">%s</div></summary></entry></feed>' % (b1, b2)).encode("utf-8"), "atom-inline-ns"


def gen_doc0(rng):
    if rng.random() < 0.12:
        return uri_text_doc(rng)
    if rng.random() < 0.08:
        return mojibake_doc(rng)
    if rng.random() < 0.08:
        return inline_ns_doc(rng)
    r = rng.random()
    if r < 0.35:
        af = feedgen.abstract_feed(rng, special=True)
        fmt = rng.choice(["rss091", "rss092", "rss20", "rss10", "atom03", "atom10"])
        return feedgen.serialize(af, fmt, cdata=rng.random() < 0.3).encode("utf-8"), "abstract/" + fmt
    if r < 0.65:
        return feedgen.vocab_doc(rng).encode("utf-8"), "vocab"
    if r < 0.85:
        d, _e, _m = C19.gen_case(rng)
        return d, "ns-cases"
    body, body2 = rng.choice(XHTML), rng.choice(XHTML)
    t = feedgen.esc(feedgen.rand_text(rng))
    return ('<feed xmlns="http://www.w3.org/2005/Atom" xml:lang="en" xml:base="http://example.org/base/"><title type="html">%s</title><id>i</id><updated>2005-01-01T00:00:00Z</updated>'
            '<entry xml:lang="fr"><title type="text">%s</title><id>j</id><link rel="alternate" type="text/html" href="rel/x?a=1&amp;b=2" hreflang="en" title="T"/>'
            '<content type="xhtml"><div xmlns="http://www.w3.org/1999/xhtml">%s</div></content><summary type="html">%s</summary>'
            '<source><title>s</title><id>k</id></source></entry><entry><title>e2</title><id>j2</id><summary type="xhtml" xml:base="http://other.example/"><div xmlns="http://www.w3.org/1999/xhtml">%s</div></summary></entry></feed>'
            % (t, t, body, feedgen.esc(body2), body2)).encode("utf-8"), "atom-content"


def parse(doc):
    import feedparser
    with warnings.catch_warnings():
        warnings.simplefilter("ignore")
        try:
            r = feedparser.parse(doc, response_headers=HDR)
        except Exception as e:
            return {"raises": type(e).__name__ + ": " + str(e)[:200]}
    return {"feed": plain(r.feed), "entries": plain(r.entries), "version": r.get("version"), "namespaces": dict(r.get("namespaces", {})), "bozo": r.bozo,
            "bozo_exception": type(r.get("bozo_exception")).__name__ if r.bozo else None}


def recognised(uri):
    u = uri.lower()
    return u in C19.NS_TABLE or "backend.userland.com/rss" in u or any(k.lower() == u for k in C19.NS_TABLE)


def rename_expected(res, mapping_unknown):
    """the documented effect of renaming the prefix of an UNRECOGNISED namespace: keys follow the document's prefix"""
    def rk(k):
        if not isinstance(k, str):
            return k
        for old, new in mapping_unknown.items():
            # element and attribute names are lower-cased as a whole by both back ends (prefix included); the namespaces mapping keeps the spelling
            if k.startswith(old.lower() + "_"):
                return new.lower() + "_" + k[len(old) + 1:]
            if k.startswith(old.lower() + ":"):
                return new.lower() + ":" + k[len(old) + 1:]
        return k

    def walk(x):
        if isinstance(x, dict):
            return {rk(k): walk(v) for k, v in x.items()}
        if isinstance(x, list):
            return [walk(i) for i in x]
        return x
    out = dict(res)
    out["feed"], out["entries"] = walk(res["feed"]), walk(res["entries"])
    out["namespaces"] = {mapping_unknown.get(k, k): v for k, v in res["namespaces"].items()}
    return out


FRESH = ["p0", "q1x", "zz", "nsa", "my-ns", "a.b", "Pfx", "x_y", "SVG", "Mml", "X1"]


def make_variant(rng, toks, kinds):
    """returns (variant bytes, mapping of renamed unrecognised prefixes or {})"""
    unknown_map = {}
    if "prefix" in kinds:
        decl = xmlrw.declared_prefixes(toks)
        olds = [p for p in decl if p and p != "xml"]
        fresh = [f for f in FRESH if f not in decl]
        rng.shuffle(fresh)
        mapping = {}
        for p in olds:
            if fresh and rng.random() < 0.7:
                mapping[p] = fresh.pop()
        toks = xmlrw.rename_prefixes(toks, mapping)
        for old, new in mapping.items():
            if not all(recognised(u) for u in decl[old]):
                unknown_map[old] = new
    return xmlrw.render(toks, rng, kinds - {"prefix"}), unknown_map


def first_diff(a, b):
    for part in ("bozo", "version", "namespaces", "feed", "entries"):
        ds = diffs(a[part], b[part], part)
        if ds:
            return ds[0]
    return None


def path_class(path):
    parts = [x for x in path.split("/") if not x.isdigit()]
    return "/".join(parts[:3])


def check_pair(doc, variant, kinds, unknown_map):
    """doc, variant: bytes.  Returns findings."""
    w = {"doc": doc, "variant": variant, "kinds": sorted(kinds), "renamed_unrecognised": unknown_map}
    a, b = parse(doc), parse(variant)
    if "raises" in a:
        return []            # totality is C01's subject
    if a["bozo"]:
        return []            # outside the hypothesis (not a well-formed feed for this parser)
    if "raises" in b:
        return [Finding(("raises", tuple(sorted(kinds))), w, "the variant raises %s while the original parses" % b["raises"])]
    exp = rename_expected(a, unknown_map) if unknown_map else a
    d = first_diff(exp, b)
    if d is None:
        return []
    path, ev, gv = d
    return [Finding(("differs", tuple(sorted(kinds)), path_class(path)), w,
                    "infoset-equivalent spellings (%s) parse differently at %s: original %r, variant %r" % (", ".join(sorted(kinds)), path, ev, gv), observed=gv, expected=ev)]


def minimise(rng, toks, doc, kinds):
    """try to reproduce a difference with a single rewrite kind (keeps keys specific)"""
    for k in sorted(kinds):
        for _ in range(6):
            v, um = make_variant(rng, toks, {k})
            fs = check_pair(doc, v, {k}, um)
            if fs:
                return fs
    return None


ALL_KINDS = xmlrw.KINDS + ["prefix"]


def search(ctx, focus=None):
    rng = ctx.rng
    failures, n, distinct = [], 0, set()
    dist = {}
    for _ in range(ctx.n(220, 5000)):
        doc0, src = gen_doc(rng)
        try:
            toks = xmlrw.tokenize(doc0)
        except (xmlrw.Unsupported, Exception):
            continue
        doc = xmlrw.baseline(toks)        # reference spelling of this infoset
        for _v in range(3 if not ctx.thorough else 4):
            kinds = set(rng.sample(ALL_KINDS, rng.choice([1, 1, 2, 3, len(ALL_KINDS)])))
            variant, um = make_variant(rng, toks, kinds)
            # the rewriter is trusted only as far as this independent re-tokenisation confirms it
            if "prefix" not in kinds and xmlrw.infoset(xmlrw.tokenize(variant)) != xmlrw.infoset(toks):
                raise RuntimeError("rewriter produced a different infoset: %r" % sorted(kinds))
            n += 1
            distinct.add(variant)
            for k in kinds:
                dist[k] = dist.get(k, 0) + 1
            dist["src:" + src] = dist.get("src:" + src, 0) + 1
            fs = check_pair(doc, variant, kinds, um)
            if fs and len(kinds) > 1:
                fs = minimise(rng, toks, doc, kinds) or fs
            failures += fs
    return {"evaluations": n, "distinct_nontrivial": len(distinct), "failures": failures, "distribution": dist,
            "rule": "well-formed feeds (abstract feeds with markup-significant text in RSS 0.91/0.92/2.0/1.0, Atom 0.3/1.0; vocabulary-wide documents over core + "
                    "dc/dcterms/itunes/media/georss/content/slash/wfw/cc/unknown; namespace cases with unrecognised URIs, case-varied URIs, arbitrary prefixes; Atom with "
                    "xhtml / html content, xml:base, xml:lang) x random subsets of rewrite kinds {attribute order, quote style, whitespace in tags, comments between "
                    "elements, comments inside character data, PIs, empty-element vs start/end pair, CDATA vs escaped text, character references vs literals (text and "
                    "attribute values), consistent prefix renaming}; oracle: parse() results (bozo, version, namespaces, feed, entries) identical, except that keys of "
                    "UNRECOGNISED namespaces follow the renamed prefix; every variant's infoset is re-checked with expat",
            "samples": [{"kinds": ["cdata", "charref"]}]}


def correspondence(ctx):
    rng = ctx.rng
    docs = []
    pairs = []
    for _ in range(ctx.n(120, 1500)):
        d, _e, _m = C19.gen_case(rng)
        try:
            toks = xmlrw.tokenize(d)
        except Exception:
            continue
        kinds = set(rng.sample(xmlrw.KINDS, rng.randint(1, 4)))
        v = xmlrw.render(toks, rng, kinds)
        docs += [xmlrw.baseline(toks), v]
    res = mixlib.corr(ctx, docs, HDR, loose_p=0.0)
    # second obligation: the strict back end's event stream depends on the spelling only through data chunking / attribute order
    import trace as tr
    checked = bad = 0
    for _ in range(ctx.n(60, 800)):
        doc0, _src = gen_doc(rng)
        try:
            toks = xmlrw.tokenize(doc0)
        except Exception:
            continue
        kinds = set(rng.sample(xmlrw.KINDS, rng.randint(1, len(xmlrw.KINDS))))
        v = xmlrw.render(toks, rng, kinds)
        streams = []
        wellformed = True
        for d in (xmlrw.baseline(toks), v):
            _r, log = tr.traced_parse(d, HDR)
            if isinstance(_r, Exception) or _r.get("bozo"):
                wellformed = False      # e.g. a prefix bound to the reserved XML namespace: not namespace-well-formed, outside the hypothesis
            ev = []
            for x in log:
                if x["k"] == "data":
                    if x.get("synth"):
                        continue        # inline markup echoed by the machine itself (its spelling is normalised later by the HTML processors; judged by the search)
                    if ev and ev[-1][0] == "data":
                        ev[-1] = ("data", ev[-1][1] + x["text"])
                    else:
                        ev.append(("data", x["text"]))
                elif x["k"] == "start":
                    ev.append(("start", x["tag"], tuple(sorted(dict(x["attrs"]).items()))))
                elif x["k"] == "end":
                    ev.append(("end", x["tag"]))
                elif x["k"] == "ns" and not x["in_start"]:
                    ev.append(("ns", x["prefix"], x["uri"]))
            # namespace declarations are an unordered set per element (they are attributes in the spelling): sort each run
            ev2, run = [], []
            for x in ev + [None]:
                if x is not None and x[0] == "ns":
                    run.append(x)
                    continue
                ev2 += sorted(run, key=repr)
                run = []
                if x is not None:
                    ev2.append(x)
            streams.append(ev2)
        if not wellformed:
            continue
        checked += 1
        if streams[0] != streams[1]:
            bad += 1
            if len(res["disagreements"]) < 20:
                i = next((i for i, (p, q) in enumerate(zip(*streams)) if p != q), min(len(streams[0]), len(streams[1])))
                res["disagreements"].append({"doc": v, "kinds": sorted(kinds), "what": "event streams of two spellings differ beyond chunking / attribute order",
                                             "original": repr(streams[0][i:i + 2])[:300], "variant": repr(streams[1][i:i + 2])[:300]})
    res["distribution"]["event_stream_pairs_checked"] = checked
    res["distribution"]["event_stream_pairs_differ"] = bad
    res["cases"] += checked
    return res


def replay(w):
    doc, variant = w["doc"], w["variant"]
    kinds = set(w["kinds"])
    if "prefix" not in kinds:
        if xmlrw.infoset(xmlrw.tokenize(doc)) != xmlrw.infoset(xmlrw.tokenize(variant)):
            return (False, "the two documents do not have the same infoset")
    fs = check_pair(doc, variant, kinds, w.get("renamed_unrecognised") or {})
    return (bool(fs), fs[0].what if fs else "both spellings parse identically")


TECHNIQUE = "Lean 4 proof: the handler machine model is invariant under re-chunking of character data (commutation with a normalisation, induction over events) and maps recognised namespaces to the canonical prefix whatever the document's prefix + event-level correspondence on variants + infoset-preserving rewrite search with an independent infoset oracle"
LEVEL_TEXT = ("Kernel-checked on M-mixin (stage 1): data_chunking_irrelevant / data_chunking_same_result (for every state, every prefix and suffix of events, and every split "
              "a ++ b of a character-data chunk, the run ends in the same feed / entries / version / namespaces), step_norm / run_norm (the machine commutes with forgetting "
              "the chunking of open elements), prefix_renaming_recognised (two documents binding different prefixes to one recognised namespace dispatch to the same "
              "handler name; with C19's handlerName_document_prefix for unrecognised ones). Comments and PIs have no event in the model's alphabet because the real "
              "handlers are `pass` and SAX never delivers them -- validated by the event-stream obligation. Tie: model follows the real machine on each spelling.")
LEVEL_NOTE = ("Trusted: Lean kernel + standard axioms; expat's infoset delivery (attribute mapping, reference / CDATA decoding) is a library fact validated on recorded "
              "streams, not proved; dedicated handlers beyond stage 1 are covered by the rewrite search over the whole handled vocabulary.")
