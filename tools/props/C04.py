"""C04 — URIs with a scheme outside the allow-list never survive scheme filtering."""
import html.parser
import json
import os
import urllib.parse
import warnings

import vlib
from vlib import Finding, enc, dec
from oracles.whatwg_scheme import whatwg_scheme

LEAN_MODULES = ["FeedVerif.Props.C04", "FeedVerif.Model.UriDriver"]
CORR_OBLIGATIONS = ["M-uri.makeSafe ~ urls.make_safe_absolute_uri (real _urljoin result as join oracle)",
                    "M-uri.pyScheme ~ urllib.parse.urlparse(x)[0]", "M-uri.pyWs ~ str.isspace (strip set)"]
TRUSTED = ["Lean model FeedVerif/Model/Uri.lean of urls.py:87-116 and of Python 3.12 urlsplit's scheme extraction",
           "whatwgScheme (Lean) transcribes the URL Standard's scheme-start/scheme states; cross-checked against tools/oracles/whatwg_scheme.py",
           "urllib.parse.urljoin is a universally quantified parameter of the theorems (nothing assumed)"]
ASSUMPTIONS = ["the sanitizer/resolver call sites are modelled by sanitizerHref/resolverAttr (3-line models); their tie is the end-to-end search",
               "html.unescape is a parameter of sanitizer_href_safe"]

REF = json.load(open(os.path.join(vlib.ROOT, "reference", "tables.json")))
REF_SCHEMES = set(dict((n, v) for n, _t, v in REF["Urls"])["uriSchemes"])
REF_RELURIS = set(tuple(x) for x in dict((n, v) for n, _t, v in REF["Urls"])["relativeUris"])

GOOD = ["http", "https", "ftp", "mailto", "file", "svn+ssh", "irc6", "feed", "magnet", "h323"]
BAD = ["javascript", "vbscript", "data", "livescript", "mocha", "about", "jar", "blob", "view-source", "foo", "x", "tel", "ws"]
NEAR = ["httpx", "htt", "http s", "java script", "1http", "+http", "http%3a", "hıttp", "htKps", "ｈttp"]
LEAD = ["", " ", "\t", "\n", "\r", "\x00", "\x01", "\x0b", "\x0c", "\x1c", "\x1f", "\x85", "\xa0", " ", "　", "﻿", " \t\n", "\x00 \x1f", "​"]
REST = ["alert(1)", "//host/p?q=1#f", "path/x", "", "//", "x:y", "/a:b"]
BASES = ["http://a/b/c?q#f", "https://h/", "", "mailto:x@y", "/rel/base", "foo:bar", "http://[::1", "javascript:x", " http://a/",
         "HTTP://A/", "file:///etc/", "//net/path", "data:text/html,x", "\thttp://a/", "feed:http://a/", "http://a/\x00"]


def casevar(rng, s):
    return "".join(c.upper() if rng.random() < 0.4 else c for c in s)


def interior(rng, s):
    if len(s) < 2 or rng.random() < 0.5:
        return s
    i = rng.randrange(1, len(s))
    return s[:i] + rng.choice(["\t", "\n", "\r", "\r\n", " ", "\x00", "\x0b"]) + s[i:]


def gen_ref(rng):
    kind = rng.random()
    sch = rng.choice(GOOD) if kind < 0.3 else rng.choice(BAD) if kind < 0.75 else rng.choice(NEAR)
    sch = interior(rng, casevar(rng, sch))
    sep = rng.choice([":", ":", ":", " :", ":\t", "", "&#58;", "："])
    u = rng.choice(LEAD) + sch + sep + rng.choice(REST) + rng.choice(LEAD)
    if rng.random() < 0.1:
        u = rng.choice(["", "?q", "#f", "../x", "//h/x", "a/b:c", ":x", " ", "\t"])
    return u


def real_safe(base, rel, oneArg=False):
    import feedparser.urls as U
    joined = U._urljoin(base, rel or "")
    try:
        urllib.parse.urlparse(base)
        raises = False
    except ValueError:
        raises = True
    r = U.make_safe_absolute_uri(base) if oneArg else U.make_safe_absolute_uri(base, rel)
    return r, joined, raises


def correspondence(ctx):
    import feedparser.urls as U
    rng = ctx.rng
    lines, exp, meta = [], [], []
    dist = {"safe2": 0, "safe1": 0, "pyscheme": 0, "pyws": 0, "raises": 0, "kept": 0, "emptied": 0}
    allow_flag = "1" if U.ACCEPTABLE_URI_SCHEMES else "0"
    n = ctx.n(4000, 60000)
    for _ in range(n):
        base = rng.choice(BASES)
        if rng.random() < 0.25:
            base = gen_ref(rng)
        rel = gen_ref(rng)
        one = rng.random() < 0.25
        r, joined, raises = real_safe(base, None if one else rel, one)
        lines.append("uri safe %s %s %s %s %d" % (allow_flag, enc(base), "-" if one else enc(rel), enc(joined), raises))
        exp.append(enc(r))
        meta.append(("safe", base, None if one else rel))
        dist["safe1" if one else "safe2"] += 1
        dist["raises"] += raises
        dist["kept" if r else "emptied"] += 1
    for _ in range(n // 2):
        u = gen_ref(rng)
        try:
            s = urllib.parse.urlparse(u)[0]
        except ValueError:
            dist["raises"] += 1
            continue
        lines.append("uri pyscheme %s" % enc(u))
        exp.append("some " + enc(s) if s else "none")
        meta.append(("pyscheme", u))
        dist["pyscheme"] += 1
    # str.strip() whitespace set == pyWs
    cps = list(range(0, 0x3100)) + [0xfeff, 0x1d7ff, 0xe0020, 0x10ffff]
    if ctx.thorough:
        cps = list(range(0, 0x110000))
    for cp in cps:
        if 0xd800 <= cp <= 0xdfff:
            continue
        lines.append("uri pyws %x" % cp)
        exp.append("1" if ("a" + chr(cp)).strip() == "a" and chr(cp).strip() == "" else "0")
        meta.append(("pyws", cp))
        dist["pyws"] += 1
    got = vlib.run_driver(lines)
    dis = []
    for g, e, m in zip(got, exp, meta):
        if g != e and len(dis) < 20:
            dis.append({"input": m, "model": g, "impl": e})
    return {"cases": len(lines), "distinct": len(set(lines)), "unmodelled": 0, "disagreements": dis, "distribution": dist,
            "samples": [{"line": lines[0], "impl": exp[0]}, {"line": lines[n], "impl": exp[n]}]}


# ------------------------------------------------------------------ search
class AttrCollector(html.parser.HTMLParser):
    def __init__(self):
        super().__init__(convert_charrefs=True)
        self.attrs = []

    def handle_starttag(self, tag, attrs):
        for k, v in attrs:
            self.attrs.append((tag, k, v or ""))

    handle_startendtag = handle_starttag


CURRENT_ALLOW = None      # the allow-list in force when the application has narrowed urls.ACCEPTABLE_URI_SCHEMES (None: the shipped one)


def scheme_ok(u):
    s = whatwg_scheme(u)
    return s is None or s in (REF_SCHEMES if CURRENT_ALLOW is None else CURRENT_ALLOW)


class narrowed:
    """the documented run-time setting: assign a narrower tuple to feedparser.urls.ACCEPTABLE_URI_SCHEMES (after the library has been used with the shipped list)"""
    def __init__(self, allow):
        self.allow = tuple(allow)

    def __enter__(self):
        global CURRENT_ALLOW
        import feedparser.urls as U
        self.saved = U.ACCEPTABLE_URI_SCHEMES
        U.make_safe_absolute_uri("http://warm.example/", "x")          # the history: at least one check under the shipped list
        U.ACCEPTABLE_URI_SCHEMES = self.allow
        CURRENT_ALLOW = set(self.allow)

    def __exit__(self, *a):
        global CURRENT_ALLOW
        import feedparser.urls as U
        U.ACCEPTABLE_URI_SCHEMES = self.saved
        CURRENT_ALLOW = None


def obf_class(raw):
    c = []
    if "&#" in raw or "&colon" in raw.lower() or "&tab" in raw.lower() or "&newline" in raw.lower():
        c.append("charref")
    if any(ch in raw for ch in "\t\n\r"):
        c.append("tabnl")
    if raw[:1] and (ord(raw[0]) <= 32 or raw[0] in "\x85\xa0 　"):
        c.append("leadws")
    if raw != raw.lower():
        c.append("case")
    return "+".join(c) or "plain"


def check_helper(base, rel, one):
    import feedparser.urls as U
    try:
        r = U.make_safe_absolute_uri(base) if one else U.make_safe_absolute_uri(base, rel)
    except Exception as e:
        return Finding(("helper", "raises", type(e).__name__), {"base": base, "rel": rel, "one": one},
                       "make_safe_absolute_uri raises %s" % type(e).__name__)
    if not isinstance(r, str):
        return Finding(("helper", "type"), {"base": base, "rel": rel, "one": one}, "make_safe_absolute_uri returned %r" % (r,))
    if r == "" or scheme_ok(r):
        return None
    return Finding(("helper", "one-arg" if one else "two-arg", obf_class(base if one else rel)),
                   {"base": base, "rel": rel, "one": one},
                   "make_safe_absolute_uri(%r%s) returned %r whose WHATWG scheme is %r" % (base, "" if one else ", %r" % rel, r, whatwg_scheme(r)),
                   observed=r, expected="'' or a URI with no / an allow-listed scheme", oracle="tools/oracles/whatwg_scheme.py + frozen reference allow-list")


def esc(s):
    return s.replace("&", "&amp;").replace("<", "&lt;").replace(">", "&gt;")


def attr_esc(s):
    return esc(s).replace('"', "&quot;")


ELEMS = [("a", "href"), ("img", "src"), ("img", "longdesc"), ("blockquote", "cite"), ("q", "cite"), ("area", "href"),
         ("video", "poster"), ("video", "src"), ("audio", "src"), ("source", "src"), ("form", "action"), ("input", "src"),
         ("ins", "cite"), ("del", "cite"), ("body", "background"), ("link", "href"), ("iframe", "src"), ("object", "data"),
         ("img", "usemap"), ("head", "profile"), ("frame", "src"), ("script", "src"), ("applet", "codebase")]
URIVALS = ["javascript:alert(1)", "JaVaScRiPt:alert(1)", " javascript:alert(1)", "java\tscript:alert(1)", "\x01javascript:alert(1)",
           "&#106;avascript:alert(1)", "&#x6A;avascript&colon;alert(1)", "java&Tab;script:alert(1)", "&#106avascript:alert(1)",
           "vbscript:msgbox(1)", "data:text/html,<script>alert(1)</script>", "livescript:x", "about:blank", "jar:http://a/!x",
           "http://ok/", "rel/path", "mailto:a@b", "feed:javascript:alert(1)", "javascript&#58;alert(1)", " javascript:alert(1)",
           "&#14;javascript:alert(1)", "jav&#x0A;ascript:alert(1)", "javascript：alert(1)", "view-source:x", "blob:x"]


def build_doc(rng, fmt, embed, markup, base, xmlbase):
    """one feed whose entry carries `markup` as HTML content"""
    if fmt == "rss":
        if embed == "escaped":
            body = "<description>%s</description>" % esc(markup)
        elif embed == "cdata":
            body = "<description><![CDATA[%s]]></description>" % markup.replace("]]>", "]]&gt;")
        else:
            body = '<content:encoded xmlns:content="http://purl.org/rss/1.0/modules/content/">%s</content:encoded>' % esc(markup)
        xb = ' xml:base="%s"' % attr_esc(xmlbase) if xmlbase is not None else ""
        pre = rng.choice(["", "<guid>g</guid>", "<guid>g</guid><title>it</title>"])
        where = rng.choice(["rss", "item", "channel"])
        return ('<rss version="2.0"%s><channel%s><title>t</title><item%s>%s%s<comments>c</comments></item></channel></rss>' % (
            xb if where == "rss" else "", xb if where == "channel" else "", xb if where == "item" else "", pre, body)).encode("utf-8")
    xb = ' xml:base="%s"' % attr_esc(xmlbase) if xmlbase is not None else ""
    if embed == "xhtml":
        body = '<content type="xhtml"><div xmlns="http://www.w3.org/1999/xhtml">%s</div></content>' % markup
    elif embed == "cdata":
        body = '<content type="html"><![CDATA[%s]]></content>' % markup.replace("]]>", "]]&gt;")
    else:
        body = '<content type="html">%s</content>' % esc(markup)
    pre = rng.choice(["", "<id>i</id>", "<id>i</id><title>et</title>"])
    post = rng.choice(["", '<summary type="html">&lt;b&gt;s&lt;/b&gt;</summary>'])
    where = rng.choice(["feed", "entry", "entry"])
    return ('<feed xmlns="http://www.w3.org/2005/Atom"%s><title>t</title><entry%s>%s%s%s</entry></feed>' % (
        xb if where == "feed" else "", xb if where == "entry" else "", pre, body, post)).encode("utf-8")


def html_values(result):
    out = []
    def walk(d, path):
        if isinstance(d, dict):
            if "value" in d and "type" in d and isinstance(d.get("value"), str):
                out.append((path, d.get("type"), d["value"], d.get("base")))
            for k in dict.keys(d):
                walk(dict.__getitem__(d, k), path + "/" + str(k))
        elif isinstance(d, list):
            for i, x in enumerate(d):
                walk(x, path + "/%d" % i)
    walk(result.get("feed", {}), "feed")
    for e in result.get("entries", []):
        walk(e, "entry")
    return out


def check_doc(doc, headers, sanitize, resolve, wellformed_markup=True):
    import feedparser
    with warnings.catch_warnings():
        warnings.simplefilter("ignore")
        try:
            r = feedparser.parse(doc, response_headers=headers, sanitize_html=sanitize, resolve_relative_uris=resolve)
        except Exception as e:
            return []          # totality is C01's subject
    fs = []
    w = {"doc": doc, "headers": headers, "sanitize": sanitize, "resolve": resolve}
    for path, typ, val, base in html_values(r):
        if base and not scheme_ok(base):
            fs.append(Finding(("result", "content-base"), w, "%s.base = %r carries scheme %r" % (path, base, whatwg_scheme(base)), observed=base))
        if typ not in ("text/html", "application/xhtml+xml"):
            continue
        p = AttrCollector()
        try:
            p.feed(val)
            p.close()
        except Exception:
            continue
        for tag, k, v in p.attrs:
            hrefish = k in ("href", "xlink:href")
            resolved = (tag, k) in REF_RELURIS and bool(base) and resolve
            if (sanitize and hrefish) or resolved:
                if not scheme_ok(v):
                    site = "sanitized-href" if (sanitize and hrefish) else "resolver-attr"
                    fs.append(Finding(("result", site, k if hrefish else "%s@%s" % (k, tag) if False else k, obf_class(v)), w,
                                      "%s: <%s %s=%r> survives with scheme %r (sanitize=%s resolve=%s base=%r)" % (path, tag, k, v, whatwg_scheme(v), sanitize, resolve, base),
                                      observed=v, oracle="html.parser attribute decoding + tools/oracles/whatwg_scheme.py"))
    nl = r.get("feed", {}).get("newlocation")
    if nl and not scheme_ok(nl):
        fs.append(Finding(("result", "newlocation"), w, "feed.newlocation = %r carries scheme %r" % (nl, whatwg_scheme(nl)), observed=nl))
    return fs


def search(ctx, focus=None):
    rng = ctx.rng
    failures, n, distinct = [], 0, set()
    # (i) the helper itself
    todo = []
    if focus:
        for d in focus.get("disagreements", []):
            m = d.get("input")
            if m and m[0] == "safe":
                todo.append((m[1], m[2], m[2] is None))
                for lead in LEAD:
                    todo.append((m[1], None if m[2] is None else lead + m[2], m[2] is None))
    for _ in range(ctx.n(6000, 200000)):
        base = rng.choice(BASES[:2] + BASES[3:]) if rng.random() < 0.8 else (gen_ref(rng) or "http://a/")
        one = rng.random() < 0.3
        if one:
            base = gen_ref(rng) if rng.random() < 0.8 else base
        rel = gen_ref(rng)
        if not base or (not one and not rel):
            continue
        todo.append((base, None if one else rel, one))
    for base, rel, one in todo:
        n += 1
        distinct.add((base, rel, one))
        f = check_helper(base, rel, one)
        if f:
            failures.append(f)
    # (ii) end to end
    docs = 0
    for _ in range(ctx.n(350, 6000)):
        tag, attr = rng.choice(ELEMS)
        val = rng.choice(URIVALS) if rng.random() < 0.7 else gen_ref(rng)
        extra = ""
        if rng.random() < 0.3:
            extra = '<svg xmlns="http://www.w3.org/2000/svg"><a xlink:href="%s">x</a></svg>' % attr_esc(val).replace("&amp;#", "&#").replace("&amp;colon", "&colon").replace("&amp;Tab", "&Tab")
        v = attr_esc(val).replace("&amp;#", "&#").replace("&amp;colon", "&colon").replace("&amp;Tab", "&Tab")
        markup = '<p>x <%s %s="%s">y</%s></p>%s' % (tag, attr, v, tag, extra)
        fmt = rng.choice(["rss", "atom"])
        embed = rng.choice(["escaped", "cdata", "encoded"] if fmt == "rss" else ["escaped", "cdata", "xhtml"])
        if embed == "xhtml" and any(ord(c) < 32 and c not in "\t\n\r" for c in markup):
            embed = "escaped"
        if any(ord(c) < 32 and c not in "\t\n\r" for c in markup) and embed != "escaped":
            embed = "escaped"
        if any(ord(c) < 32 and c not in "\t\n\r" for c in markup):
            markup = "".join(c for c in markup if ord(c) >= 32 or c in "\t\n\r")
        base = rng.choice(["http://base.example/dir/", "http://base.example/dir/", "", "https://b/x"])
        xmlbase = rng.choice([None, None, "javascript:alert(1)//", "http://xb.example/", "data:text/html,x", " vbscript:x", "rel/"])
        headers = {"content-location": base} if base else {}
        if rng.random() < 0.1:
            headers = {"Content-Location": rng.choice(["javascript:alert(1)", "data:x", base or "http://c/"])}
        doc = build_doc(rng, fmt, embed, markup, base, xmlbase)
        if rng.random() < 0.15:
            doc = doc.replace(b"<title>t</title>", b"<title>t</title><newLocation>%s</newLocation>" % esc(rng.choice(URIVALS)).encode("utf-8"), 1) if fmt == "rss" else doc
        sanitize = rng.random() < 0.7
        resolve = rng.random() < 0.8
        n += 1
        docs += 1
        distinct.add((doc, str(headers), sanitize, resolve))
        failures += check_doc(doc, headers, sanitize, resolve)
    # (iii) the allow-list is a run-time setting: narrowed AFTER the library has been used, schemes that were dropped must be filtered from then on
    for allow in (("http", "https"), ("https",), ("http", "https", "mailto"), ("ftp", "http")):
        with narrowed(allow):
            for _ in range(ctx.n(40, 600)):
                sch = rng.choice(sorted(REF_SCHEMES))
                ref = "%s:%s" % (sch if rng.random() < 0.7 else sch.upper(), rng.choice(["//host.example/p", "x", "///etc/passwd", "a@b.example", "//h/?q=1"]))
                one = rng.random() < 0.4
                n += 1
                distinct.add((ref, one, allow))
                f = check_helper(ref if one else "http://base.example/d/", None if one else ref, one)
                if f:
                    f.key = ["helper", "narrowed-allow-list", "one-arg" if one else "two-arg"]
                    f.witness = dict(f.witness, allow=list(allow))
                    failures.append(f)
            for _ in range(ctx.n(6, 60)):
                sch = rng.choice(sorted(REF_SCHEMES - set(allow)))
                markup = '<p><a href="%s://h.example/x">l</a> <img src="%s:y"></p>' % (sch, sch)
                doc = build_doc(rng, "atom", "escaped", markup, "http://base.example/dir/", rng.choice([None, "%s://xb.example/" % sch]))
                n += 1
                distinct.add((doc, allow))
                for f in check_doc(doc, {"content-location": "http://base.example/dir/"}, True, True):
                    f.key = ["result", "narrowed-allow-list"] + f.key[1:2]
                    f.witness = dict(f.witness, allow=list(allow))
                    failures.append(f)
    return {"evaluations": n, "distinct_nontrivial": len(distinct), "failures": failures,
            "rule": "helper: (base, reference) pairs = scheme {allow-listed, not, near-miss} x case x leading/trailing C0/space/Unicode-space x interior TAB/LF/CR x ':' spelling, "
                    "one- and two-argument forms, bases absolute/relative/opaque/unsafe/invalid; end to end: every (element, URI attribute) of the resolver table "
                    "x obfuscated URI values x {escaped, CDATA, content:encoded, inline XHTML} x RSS/Atom x base/xml:base/Content-Location x sanitize x resolve; "
                    "the allow-list narrowed at run time after the library was used (four narrower lists x URIs of every shipped scheme, helper and end to end); oracle = independent WHATWG scheme states on the returned value / on attribute values decoded by html.parser; distinct = distinct inputs "
                    "(every input carries a scheme-like prefix, so all are non-trivial)",
            "samples": [{"base": "http://a/b/c?q#f", "rel": " JaVa\tScRiPt:alert(1)"}, {"markup": '<a href="&#106;avascript:alert(1)">', "embed": "escaped", "fmt": "rss"}],
            "distribution": {"helper_pairs": len(todo), "documents": docs}}


def replay(w):
    if w.get("allow"):
        with narrowed(w["allow"]):
            return replay({k: v for k, v in w.items() if k != "allow"})
    if "doc" in w:
        fs = check_doc(w["doc"], w["headers"], w["sanitize"], w["resolve"])
        return (bool(fs), fs[0].what if fs else "no URI with a non-allow-listed scheme in the result")
    f = check_helper(w["base"], w["rel"], w["one"])
    return (f is not None, f.what if f else "helper result has no / an allow-listed scheme")


TECHNIQUE = "Lean 4 proof: make_safe_absolute_uri model never returns a URI with a non-allow-listed WHATWG scheme (for every urljoin), Python urlsplit scheme = WHATWG scheme; allow-list table theorems on regenerated tables; differential correspondence + WHATWG-oracle search"
LEVEL_TEXT = ("Kernel-checked: makeSafe_two_arg_scheme (for EVERY join function, every base/reference, every allow-list of well-shaped entries), "
              "pyScheme_eq_whatwg (Python 3.12 urlsplit's scheme extraction equals the WHATWG scheme-start/scheme states on every string), "
              "makeSafe_one_arg_scheme, sanitizer_href_safe (decoded form), resolver_attr_safe, empty_allowlist_disables_filter_only; table theorems "
              "(entry shape, dangerous schemes absent, nothing added relative to the frozen reference) re-proved on the regenerated allow-list each run. "
              "Tie: makeSafe/pyScheme/pyWs run against the real functions on generated pairs (real _urljoin result fed to the model as oracle value).")
LEVEL_NOTE = ("Trusted: Lean kernel + standard axioms; translate.py; the Lean transcriptions of urlsplit's scheme logic and of the WHATWG states (validated by "
              "correspondence / independent oracle); call-site models are three-liners tied only by the end-to-end search (html.parser as attribute decoder).")
