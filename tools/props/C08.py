"""C08 — bozo tells the truth about well-formedness."""
import re
import warnings
import xml.parsers.expat

import vlib
from vlib import Finding
import feedgen
import apilib
from props import C19

LEAN_MODULES = ["FeedVerif.Props.C08", "FeedVerif.Model.ApiDriver"]
CORR_OBLIGATIONS = ["M-api ~ parse(): stage outcomes observed with spies on generated and damaged documents, JSON, binary and header combinations -> key set, bozo, kind of attached exception, parsers run"]
TRUSTED = ["Lean model FeedVerif/Model/Api.lean of parse()'s result assembly; the stages (encoding conversion, DOCTYPE replacement, expat, sgmllib, json) are inputs of that model",
           "pyexpat (namespace mode) on the same bytes is the independent well-formedness verdict the property names",
           "that feedparser's pre-processing (declaration rewrite: C06; DOCTYPE replacement: C12) preserves the well-formedness status of the element content is validated here by the "
           "damage search against raw expat, and proved for the respective models under C06 / C12"]
ASSUMPTIONS = ["documents with an internal DTD subset are C12's subject and excluded from this generator (finding recorded there)"]

DECLS = ['<?xml version="1.0" encoding="utf-8"?>\n', "", '<?xml version="1.0"?>\n', "<?xml version='1.0' encoding='UTF-8'?>", '<?xml version="1.0"\n  encoding="utf-8"?>\n',
         '<?xml\n version="1.0"\n encoding="utf-8"\n?>\n', '<?xml version="1.0" encoding="utf-8" standalone="yes"?>\n', '<?xml version="1.0"\r\n encoding="utf-8"?>\r\n']
DOCTYPES = ["", "", "", '<!DOCTYPE rss PUBLIC "-//Netscape Communications//DTD RSS 0.91//EN" "http://my.netscape.com/publish/formats/rss-0.91.dtd">\n', '<!DOCTYPE feed>\n', "<!DOCTYPE rss SYSTEM 'http://example.org/rss.dtd'>"]
HEADERS = [{"content-type": "application/atom+xml; type=feed; charset=utf-8"}, {"content-type": "text/xml; qs=0.9; charset=utf-8"}, {"content-type": 'application/xml; q=0.5;charset="utf-8"; x=y'},
           None, {}, {"content-type": "application/xml"}, {"content-type": "application/xml; charset=utf-8"}, {"content-type": "application/atom+xml; charset=utf-8"},
           {"content-type": "application/rss+xml"}, {"Content-Type": "text/xml; charset=utf-8"}, {"content-type": "application/rdf+xml; charset=UTF-8"}, {"content-type": "application/xml", "content-location": "http://example.org/f"}]


def expat_verdict(data):
    """None if well-formed (namespace-aware), else the error text"""
    p = xml.parsers.expat.ParserCreate(namespace_separator=" ")
    try:
        p.Parse(data, True)
    except xml.parsers.expat.ExpatError as e:
        return str(e)
    return None


def gen_doc(rng):
    r = rng.random()
    if r < 0.4:
        body = feedgen.vocab_doc(rng)
    elif r < 0.8:
        af = feedgen.abstract_feed(rng, special=True)
        body = feedgen.serialize(af, rng.choice(feedgen.FORMATS[:6]), cdata=rng.random() < 0.3, typed=True)
    else:
        d, _e, _m = C19.gen_case(rng)
        body = d.decode("utf-8")
    body = re.sub(r"^<\?xml[^>]*\?>\s*", "", body)
    if rng.random() < 0.22 and re.match(r"<(rss|feed)\b", body):
        # a DOCTYPE with an internal subset in the layout replace_doctype() supports (one declaration per line, double-quoted values) that declares a few of the
        # general entities of a small shared pool; some of them are used in the content
        names = rng.sample(ENTITY_POOL, rng.randint(1, 3))
        # (white space between the entity value and the closing '>' is part of the grammar: EntityDecl ::= '<!ENTITY' S Name S EntityDef S? '>')
        subset = "".join('<!ENTITY %s "%s"%s>\n' % (nm, rng.choice(["(C)", "text %s" % nm, "&#169;", "&#x2014;", "AT and T", ""]), rng.choice(["", "", "", " ", "  ", "\n", " \n "])) for nm in names)
        dt = "<!DOCTYPE %s [\n%s]>\n" % (re.match(r"<(\w+)", body).group(1), subset)
        span = content_span(body)
        if span:
            tp = text_positions(body, *span)
            for nm in rng.sample(names, rng.randint(0, len(names))):
                if tp:
                    i = rng.choice(tp)
                    body = body[:i] + "&%s;" % nm + body[i:]
                    tp = text_positions(body, *content_span(body))
        return rng.choice(DECLS) + dt + body
    dt = rng.choice(DOCTYPES)
    if dt and not re.match(r"<(rss|feed)\b", body):
        dt = ""
    if dt.startswith("<!DOCTYPE feed") and not body.startswith("<feed"):
        dt = ""
    if dt.startswith("<!DOCTYPE rss") and not body.startswith("<rss"):
        dt = ""
    return rng.choice(DECLS) + dt + body


ENTITY_POOL = ["cpy", "co", "mdash2", "who", "unit", "e1"]


DAMAGES = ["drop-end-tag", "mismatch-end-tag", "bare-amp", "bare-lt", "undefined-entity", "undeclared-prefix", "duplicate-attribute", "text-after-root", "illegal-char", "doctype-in-content",
           "cdata-end-in-text", "unquoted-attribute", "unclosed-comment", "second-root", "pi-xml-in-content"]


def content_span(doc):
    """(start, end) offsets of the element content: after the root start tag .. before the root end tag"""
    m = re.search(r"<(?![?!])[^>]*>", doc)
    e = doc.rfind("</")
    return (m.end(), e) if m and e > m.end() else None


def text_positions(doc, lo, hi):
    """offsets inside character data (outside tags, comments, CDATA) of the element content"""
    out, i, intag = [], lo, False
    while i < hi:
        if doc.startswith("<![CDATA[", i):
            j = doc.find("]]>", i)
            i = (j + 3) if j >= 0 else hi
            continue
        if doc.startswith("<!--", i):
            j = doc.find("-->", i)
            i = (j + 3) if j >= 0 else hi
            continue
        c = doc[i]
        if c == "<":
            intag = True
        elif c == ">":
            intag = False
        elif not intag and c != "&":
            # not inside a reference either
            k = doc.rfind("&", lo, i)
            if k < 0 or ";" in doc[k:i]:
                out.append(i)
        i += 1
    return out


def damage(rng, doc, kind):
    if kind == "undefined-entity" and "<!DOCTYPE" in doc and "[\n<!ENTITY" in doc:
        # internal subset only (no external ID): "Entity Declared" is a well-formedness constraint; reference a pool entity this document does NOT declare
        # (another document of the same process may well have declared it)
        span = content_span(doc)
        tp = text_positions(doc, *span) if span else []
        free = [nm for nm in ENTITY_POOL if "<!ENTITY %s " % nm not in doc]
        if not tp or not free:
            return None
        i = rng.choice(tp)
        return doc[:i] + "&%s;" % rng.choice(free) + doc[i:]
    if kind == "undefined-entity" and "<!DOCTYPE" in doc:
        # with an (unread) external subset "Entity Declared" is a validity constraint, not a well-formedness one: expat may accept the reference,
        # feedparser (which drops the DOCTYPE) rejects it -- both within the XML recommendation, so the combination is outside this check
        return None
    span = content_span(doc)
    if not span:
        return None
    lo, hi = span
    tp = text_positions(doc, lo, hi)
    if kind in ("bare-amp", "bare-lt", "undefined-entity", "illegal-char", "doctype-in-content", "cdata-end-in-text", "unclosed-comment", "pi-xml-in-content"):
        if not tp:
            return None
        i = rng.choice(tp)
        piece = {"bare-amp": rng.choice(["& ", " & ", "&;", "&= "]), "bare-lt": rng.choice(["< ", "<<", "<1"]), "undefined-entity": rng.choice(["&nosuch;", "&nbsp;", "&copy;", "&Auml;"]),
                 "illegal-char": rng.choice(["\x01", "\x0b", "\x1f", "￾", "\x00", "￿"]),
                 "doctype-in-content": rng.choice(["\n<!DOCTYPE html>\n", '\n<!DOCTYPE html PUBLIC "-//W3C//DTD XHTML 1.0 Strict//EN" "http://www.w3.org/TR/xhtml1/DTD/xhtml1-strict.dtd">\n', "\n  <!DOCTYPE x>"]),
                 "cdata-end-in-text": "]]>", "unclosed-comment": "<!-- never closed", "pi-xml-in-content": '<?xml version="1.0"?>'}[kind]
        return doc[:i] + piece + doc[i:]
    ends = [m for m in re.finditer(r"</[^>]+>", doc[lo:hi])]
    starts = [m for m in re.finditer(r"<(?![/!?])([^\s/>]+)([^>]*?)(/?)>", doc[lo:hi])]
    if kind == "drop-end-tag":
        if not ends:
            return None
        m = rng.choice(ends)
        return doc[:lo + m.start()] + doc[lo + m.end():]
    if kind == "mismatch-end-tag":
        if not ends:
            return None
        m = rng.choice(ends)
        return doc[:lo + m.start()] + "</nosuchelement>" + doc[lo + m.end():]
    if kind == "undeclared-prefix":
        if not tp:
            return None
        i = rng.choice(tp)
        return doc[:i] + rng.choice(["<zz:x>t</zz:x>", "<zz:y/>", '<a zz:b="1"/>']) + doc[i:]
    if kind == "duplicate-attribute":
        if not starts:
            return None
        m = rng.choice(starts)
        s = lo + m.start()
        name_end = s + 1 + len(m.group(1))
        return doc[:name_end] + ' dupattr="1" dupattr="2"' + doc[name_end:]
    if kind == "unquoted-attribute":
        if not starts:
            return None
        m = rng.choice(starts)
        name_end = lo + m.start() + 1 + len(m.group(1))
        return doc[:name_end] + " bare=value" + doc[name_end:]
    if kind == "text-after-root":
        return doc + rng.choice(["trailing text", "x", "&amp;", "<![CDATA[x]]>"])
    if kind == "second-root":
        return doc + "<another/>"
    return None


def parse(data, headers):
    import feedparser
    with warnings.catch_warnings():
        warnings.simplefilter("ignore")
        return feedparser.parse(data, response_headers=headers)


def encode_doc(doc, enc):
    """the document in its correctly DECLARED encoding: the XML declaration names `enc` (added when there is none); utf-16 gets a BOM from the codec"""
    if enc == "utf-8":
        return doc.encode("utf-8")
    m = re.match(r"<\?xml[^>]*\?>", doc)
    if m:
        d = m.group(0)
        d2 = re.sub(r"""encoding\s*=\s*(["'])[^"']*\1""", 'encoding="%s"' % enc, d) if "encoding" in d else d.replace("?>", ' encoding="%s"?>' % enc)
        doc = d2 + doc[m.end():]
    else:
        doc = '<?xml version="1.0" encoding="%s"?>\n' % enc + doc
    return doc.encode(enc)


PREAMBLES = [b"X-Cache: hit\nFetched: 2020-01-01\n\n", b"<?xml version='1.0'?><rss version='2.0'><channel><title>an earlier feed</title></channel></rss>\n", b"\x00\x01binary header\xff\n", b"<"]


def judge(doc, headers, kind, history=None, enc="utf-8", preamble=None):
    """history: documents parsed earlier in the same process (recorded in the witness, re-parsed first on replay); preamble: the document is handed over as an open
    binary stream POSITIONED at its first byte, after this leading material (a cache file whose header block has been read): the document is what starts at the position"""
    try:
        data = encode_doc(doc, enc)
    except UnicodeEncodeError:
        return []             # the damage inserted a character the chosen encoding cannot carry: not a document in that encoding
    w = {"doc": doc, "headers": headers, "damage": kind, "history": history, "enc": enc, "preamble": preamble}
    if history and history is not LIVE_HISTORY:
        for h in history:
            try:
                parse(h.encode("utf-8"), headers)
            except Exception:
                pass
    if history is LIVE_HISTORY:
        w["history"] = list(history)
    verdict = expat_verdict(data)
    try:
        if preamble is not None:
            import io
            stream = io.BytesIO(preamble + data)
            stream.seek(len(preamble))
            r = parse(stream, headers)
        else:
            r = parse(data, headers)
    except Exception as e:
        return [Finding(("raises", type(e).__name__), w, "parse raises %s: %s" % (type(e).__name__, e))]
    fs = []
    if bool(r.bozo) != ("bozo_exception" in r):
        fs.append(Finding(("pairing", kind or "well-formed"), w, "bozo=%r but bozo_exception is %s" % (r.bozo, "present" if "bozo_exception" in r else "absent")))
    if verdict is None and r.bozo:
        fs.append(Finding(("false-bozo", kind or "well-formed", type(r.bozo_exception).__name__), w,
                          "a document expat accepts (well-formed, namespace-well-formed, utf-8) parses with bozo set: %r" % (r.bozo_exception,), observed=repr(r.bozo_exception), expected="bozo unset"))
    if verdict is not None and not r.bozo:
        fs.append(Finding(("missed-error", kind or "well-formed"), w, "a document expat rejects (%s) parses with bozo unset" % verdict, observed="bozo unset", expected=verdict))
    if verdict is not None and r.bozo and kind and "bozo_exception" in r:
        import xml.sax
        if not isinstance(r.bozo_exception, (xml.sax.SAXException,)) and type(r.bozo_exception).__name__ != "UndeclaredNamespace":
            fs.append(Finding(("wrong-exception", kind, type(r.bozo_exception).__name__), w,
                              "damaged document: the attached exception %r does not describe the XML problem (%s)" % (r.bozo_exception, verdict)))
    return fs


LIVE_HISTORY = []        # the documents with an internal subset this process has parsed so far (most recent last, at most three kept)


def search(ctx, focus=None):
    rng = ctx.rng
    failures, n, distinct = [], 0, set()
    dist = {"well-formed": 0}
    del LIVE_HISTORY[:]
    for _ in range(ctx.n(160, 3000)):
        doc = gen_doc(rng)
        hdr = rng.choice(HEADERS)
        enc = "utf-8"
        if rng.random() < 0.2 and "[\n<!ENTITY" not in doc:
            # the same kind of document in another correctly declared encoding, one in three longer than the 64 KiB detection prefix with
            # non-ASCII text after it
            enc = rng.choice(["iso-8859-1", "windows-1252", "utf-16", "iso-8859-15"])
            if rng.random() < 0.35:
                m = re.search(r"<(?![?!])[^>]*>", doc)
                if m:
                    doc = doc[:m.end()] + "<!-- %s -->" % ("padding é " * 7000) + doc[m.end():]
            try:
                doc.encode(enc)
            except UnicodeEncodeError:
                doc = doc.encode(enc, "xmlcharrefreplace").decode(enc) if False else "".join(c if ord(c) < 256 and (enc != "windows-1252" or c.encode("windows-1252", "ignore")) else "x" for c in doc)
                try:
                    doc.encode(enc)
                except UnicodeEncodeError:
                    enc = "utf-8"
            if hdr and "charset" in str(hdr).lower():
                hdr = {k: re.sub(r"""(?i)charset\s*=\s*["']?[\w-]+["']?""", "charset=" + enc, v) for k, v in hdr.items()}
        n += 1
        dist["well-formed"] += 1
        if "[\n<!ENTITY" in doc:
            dist["internal-subset"] = dist.get("internal-subset", 0) + 1
        distinct.add((doc, str(hdr)))
        failures += judge(doc, hdr, None, LIVE_HISTORY, enc)
        if rng.random() < 0.2:
            n += 1
            dist["positioned-stream"] = dist.get("positioned-stream", 0) + 1
            failures += judge(doc, hdr, None, LIVE_HISTORY, enc, preamble=rng.choice(PREAMBLES))
        if "[\n<!ENTITY" in doc:
            LIVE_HISTORY.append(doc)
            del LIVE_HISTORY[:-3]
        for kind in (DAMAGES if ctx.thorough else rng.sample(DAMAGES, 5)):
            for _rep in range(2 if ctx.thorough else 1):
                dm = damage(rng, doc, kind)
                if dm is None:
                    continue
                n += 1
                dist[kind] = dist.get(kind, 0) + 1
                distinct.add((dm, str(hdr)))
                failures += judge(dm, hdr, kind, LIVE_HISTORY, enc)
    return {"evaluations": n, "distinct_nontrivial": len(distinct), "failures": failures, "distribution": dist,
            "rule": "well-formed feeds (vocabulary-wide RSS 2.0 / RSS 1.0 / Atom 1.0, abstract feeds with markup-significant text in six formats, namespace cases) x XML declaration layouts "
                    "(none, single-line, single-quoted, multi-line, CRLF, standalone) x DOCTYPE (none, external-ID forms, internal subsets declaring general entities of a small shared pool -- "
                    "so that what one document declares another one references without declaring it, in the same process; the witness records the preceding subset documents) x delivery (bytes; one in five also as a binary stream positioned at the document after other leading material) x headers (none, empty, XML media types with / without charset, charset not the first parameter, any case) x encoding (utf-8; one in five iso-8859-1 / windows-1252 / "
                    "iso-8859-15 / utf-16, correctly declared, a third of those longer than the 64 KiB detection prefix with non-ASCII text after it); "
                    "each also with single-point damages of the element content at random positions {dropped / mismatched end tag, bare &, bare <, undefined entity, undeclared prefix, duplicate "
                    "attribute, unquoted attribute, text / second root after the root, illegal character, DOCTYPE at a line start inside content, ]]> in text, unclosed comment, XML declaration "
                    "inside content}; oracle: pyexpat (namespace mode) on the same bytes: bozo set iff expat rejects, bozo <-> bozo_exception, and the exception is the SAX one",
            "samples": [{"damage": "bare-amp"}]}


def correspondence(ctx):
    rng = ctx.rng
    extra = []
    for _ in range(ctx.n(80, 800)):
        doc = gen_doc(rng)
        kind = rng.choice(DAMAGES + [None, None])
        dm = damage(rng, doc, kind) if kind else doc
        if dm is None:
            dm = doc
        extra.append((dm.encode("utf-8"), rng.choice(HEADERS), rng.random() < 0.85, {}))
    return apilib.corr(ctx, n=ctx.n(150, 2500), extra=extra)


def long_generic_utf_doc(enc):
    """a BOM-led UTF-16 / UTF-32 feed longer than the 64 KiB detection prefix, correctly declared, served with the GENERIC charset name"""
    return ('<?xml version="1.0" encoding="%s"?><rss version="2.0"><channel><title>t</title><!-- %s --><item><title>i</title></item></channel></rss>' % (enc, "pad " * 20000))


def replay(w):
    if w.get("construct") == "long-generic-utf":
        w = {"doc": long_generic_utf_doc(w["enc"]), "headers": {"content-type": "application/xml; charset=" + w["enc"]}, "damage": None, "history": None, "enc": w["enc"]}
    pre = w.get("preamble")
    if isinstance(pre, dict):
        pre = bytes.fromhex(pre["bytes_hex"])
    fs = judge(w["doc"], w["headers"], w.get("damage"), w.get("history") or None, w.get("enc", "utf-8"), preamble=pre)
    return (bool(fs), fs[0].what if fs else "bozo agrees with expat's verdict and is paired with bozo_exception")


TECHNIQUE = "Lean 4 proof on a model of parse()'s result assembly (bozo <-> bozo_exception for every combination of stage outcomes; a SAX failure always surfaces; clean stages leave bozo unset) + spy-based correspondence of that model + damage search against raw pyexpat as the independent verdict"
LEVEL_TEXT = ("Kernel-checked on M-api: bozo_iff_exception (for EVERY combination of stage outcomes bozo is set exactly when an exception is attached and bozo_exception is then a key), "
              "fatal_error_is_bozo (a SAX failure sets bozo whatever the later stages do, and the SAX exception is the one attached unless the loose pass found nothing and the JSON pass failed too), "
              "wellformed_is_clean (encoding known, no conversion complaint, no SAX failure => bozo unset and only the strict parser ran), no_silent_fallback (bozo unset => no parser failed). "
              "Tie: the model predicts keys / bozo / exception kind / parsers for real calls whose stage outcomes were observed with spies.")
LEVEL_NOTE = ("Trusted: Lean kernel + standard axioms; expat as the well-formedness oracle; that the pre-processing keeps the well-formedness status is established by the damage search here and by "
              "the C06 / C12 models, not re-proved.")
