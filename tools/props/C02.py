"""C02 — core feed data is normalised identically whatever the feed format."""
import html
import html.parser
import json
import re
import warnings

import vlib
from vlib import Finding
import feedgen
from oracles import civil

LEAN_MODULES = ["FeedVerif.Props.C02", "FeedVerif.Model.JsonDriver", "FeedVerif.Model.MixinDriver"]
CORR_OBLIGATIONS = ["M-json ~ JSONParser on generated JSON feeds of arbitrary shape (fields present / absent / of the documented types): feed data, entries, version, raised-or-not",
                    "M-mixin (stage 1) ~ the real machine on the ROOT events of the six XML serialisations (version detection) and on the date elements of every format, feed and entry "
                    "context, both back ends (the real _parse_date's answer is passed to the model as a parameter); M-mixin (stage 2) ~ the real machine on title and the text-construct "
                    "elements (push_content / pop_content / pop with content parameters), the answers of looks_like_html, decode_entities, resolve_relative_uris, sanitize_html and "
                    "base64 being passed to the model as parameters"]
TRUSTED = ["Lean model FeedVerif/Model/Json.lean of parsers/json.py (complete: feed, parse_entry, parse_author, parse_attachment); json.load, _parse_date and sanitize_html are parameters",
           "tools/feedgen.py serialisers and the civil-date oracle (independent of feedparser)",
           "the per-field XML normalisation (title / link / id / summary / author / dates / categories / enclosures through the dedicated handlers) is decided by the eight-format differential "
           "search, not by a theorem: the dedicated handlers are outside M-mixin stage 1"]
ASSUMPTIONS = ["HTML-typed comparison: the text content of the returned HTML (tags dropped, references decoded, white space collapsed) equals the original text"]

FORMATS = feedgen.FORMATS
NAMES = ["Jane Doe", "J. R. Hacker", "Ærøskøbing", "李雷", "O'Neil", "John Doe (Jr)", "(The) Editors", "Smith & Sons", "A < B", "x😀y", "Dr. \"Q\""]
OFFSETS = [0, 0, 60, -300, 330, -480, 540, 765, -210, -30, -1, 59, -59, 30, -690, 840]


def abstract_feed(rng, nentries=None):
    af = feedgen.abstract_feed(rng, special=True, nentries=nentries)
    af["updated"] = (feedgen.rand_instant(rng), rng.choice(OFFSETS))
    for e in af["entries"]:
        e["author_name"] = rng.choice(NAMES)
        e["published"] = (feedgen.rand_instant(rng), rng.choice(OFFSETS))
        e["updated"] = (feedgen.rand_instant(rng), rng.choice(OFFSETS))
        if rng.random() < 0.3:
            e["title"] = rng.choice(["  padded title  ", "tab\tin title", "two  spaces", "trailing nl\n", "a &amp; b", "&lt;not a tag&gt;", "5 > 3 < 7", "q \"d\" 's'", "non-BMP 😀 𝒳", "ｆｕｌｌ　width", "Ã© is mojibake for é", "price: Â£5", "½ ¼ ¾", "naïve café", "Ã¤Ã¶Ã¼",
                                     "smart \x93quotes\x94 C1", "euro \x80 sign"])
    return af


class _Text(html.parser.HTMLParser):
    def __init__(self):
        super().__init__(convert_charrefs=True)
        self.out = []

    def handle_data(self, d):
        self.out.append(d)


def text_content(h):
    p = _Text()
    p.feed(h)
    p.close()
    return "".join(p.out)


def ws(s):
    return " ".join(s.split())


def plain_eq(got, want):
    """plain text: character for character, surrounding whitespace aside"""
    return isinstance(got, str) and got.strip() == want.strip()


def html_eq(got, want):
    return isinstance(got, str) and ws(text_content(got)) == ws(want)


def utc(t):
    return tuple(civil.tuple9(t[0]))


def parse(doc):
    import feedparser
    with warnings.catch_warnings():
        warnings.simplefilter("ignore")
        return feedparser.parse(doc.encode("utf-8"), response_headers={"content-type": ("application/json" if doc.lstrip().startswith("{") else "application/xml") + "; charset=utf-8"})


def rand_style(rng, fmt):
    """a serialisation style: child order, and for the namespaced formats the prefix the format's own namespace is bound to"""
    st = {}
    if rng.random() < 0.5:
        st["perm"] = rng.randrange(1000)
    if fmt in ("atom03", "atom10", "rss10") and rng.random() < 0.35:
        st["prefix"] = rng.choice(["a", "atom", "x", "rss", "A"])
    if fmt == "rss10" and rng.random() < 0.3:
        st["dcprefix"] = rng.choice(["d", "dublin", "DC"])
    if fmt == "rss10" and rng.random() < 0.3:
        st["rdfprefix"] = rng.choice(["r", "syntax", "RDF", "rdfns"])
    return st or None


def check(af, fmt, cdata, style=None):
    """findings for one abstract feed in one format"""
    doc = feedgen.serialize(af, fmt, cdata=cdata, typed=True, style=style)
    w = {"af": af, "fmt": fmt, "cdata": cdata, "style": style, "doc": doc}
    caps = feedgen.CAPS[fmt]
    try:
        r = parse(doc)
    except Exception as e:
        return [Finding(("raises", fmt, type(e).__name__), w, "%s serialisation: parse raises %s: %s" % (fmt, type(e).__name__, e))]
    fs = []

    def bad(field, got, want, how="value"):
        if how == "value" and isinstance(got, str) and isinstance(want, str):
            # the two text "repairs" of pop() (mixin.py:600-615) are identified by what they produce, so that any OTHER deviation of the same field keeps its own key
            try:
                re_read = want.encode("iso-8859-1").decode("utf-8")
            except (UnicodeEncodeError, UnicodeDecodeError):
                re_read = None
            if re_read is not None and re_read != want and ws(got) == ws(re_read):
                fs.append(Finding(("text-repair", "latin1-read-as-utf8"), w, "%s: %s is %r, the abstract feed says %r (text whose characters are all below U+0100 and form valid UTF-8 "
                                  "when written as bytes is silently re-decoded)" % (fmt, field, got, want), observed=got, expected=want))
                return
            c1 = {0x80 + i: c for i, c in enumerate("€\x81‚ƒ„…†‡ˆ‰Š‹Œ\x8dŽ\x8f\x90‘’“”•–—˜™š›œ\x9džŸ")}
            if any(0x80 <= ord(ch) <= 0x9f for ch in want) and ws(got) == ws(want.translate(c1)):
                fs.append(Finding(("text-repair", "c1-read-as-cp1252"), w, "%s: %s is %r, the abstract feed says %r (C1 control characters are replaced by their windows-1252 look-alikes)"
                                  % (fmt, field, got, want), observed=got, expected=want))
                return
        fs.append(Finding((field, how, "json" if fmt.startswith("json") else fmt), w, "%s: %s is %r, the abstract feed says %r" % (fmt, field, got, want), observed=got, expected=want))
    if r.bozo:
        bad("bozo", repr(r.get("bozo_exception"))[:200], 0)
        return fs
    if r.get("version") != feedgen.VERSION_OF[fmt]:
        bad("version", r.get("version"), feedgen.VERSION_OF[fmt])
    f = r.feed
    isjson = fmt.startswith("json")
    if not plain_eq(f.get("title"), af["title"]):
        bad("feed.title", f.get("title"), af["title"])
    if f.get("link") != af["link"]:
        bad("feed.link", f.get("link"), af["link"])
    d = f.get("description")
    if not (plain_eq(d, af["description"]) if (isjson or fmt.startswith("atom")) else html_eq(d, af["description"])):
        bad("feed.description", d, af["description"])
    if "feed_updated" in caps:
        got = f.get("updated_parsed")
        if got is None or tuple(got)[:6] != utc(af["updated"])[:6]:
            bad("feed.updated_parsed", got and tuple(got), utc(af["updated"]))
    if len(r.entries) != len(af["entries"]):
        bad("entries.count", len(r.entries), len(af["entries"]))
        return fs
    for i, (e, a) in enumerate(zip(r.entries, af["entries"])):
        if not plain_eq(e.get("title"), a["title"]):
            bad("entry.title", e.get("title"), a["title"])
        if e.get("link") != a["link"]:
            bad("entry.link", e.get("link"), a["link"])
        if "id" in caps and e.get("id") != a["id"]:
            bad("entry.id", e.get("id"), a["id"])
        s = e.get("summary")
        if not (plain_eq(s, a["summary"]) if (isjson or fmt.startswith("atom")) else html_eq(s, a["summary"])):
            bad("entry.summary", s, a["summary"])
        if a.get("content") is not None:
            c = e.get("content")
            c0 = c[0] if isinstance(c, list) and c else (c if isinstance(c, dict) else {})   # (JSON Feed: a single dict -- that shape is the listed probe finding)
            if not html_eq(c0.get("value"), a["content"]):
                bad("entry.content", c0.get("value"), a["content"])
        if "author" in caps or "author_name" in caps:
            ad = e.get("author_detail") or {}
            if ad.get("name") != a["author_name"]:
                bad("entry.author_detail.name", ad.get("name"), a["author_name"])
            if "author" in caps and ad.get("email") != a["author_email"]:
                bad("entry.author_detail.email", ad.get("email"), a["author_email"])
        for k in ("published", "updated"):
            if k in caps:
                got = e.get(k + "_parsed")
                if got is None or tuple(got)[:6] != utc(a[k])[:6]:
                    bad("entry.%s_parsed" % k, got and tuple(got), utc(a[k]), "offset-%s" % ("negative-lt-1h" if -60 < a[k][1] < 0 else "other"))
        if "categories" in caps:
            got = [t.get("term") for t in e.get("tags", [])]
            if got != a["categories"]:
                bad("entry.tags", got, a["categories"])
            if not a["categories"] and "tags" in e:
                bad("entry.tags", e.get("tags"), "<absent>", "empty-key")
        if "enclosures" in caps:
            got = [(x.get("href"), x.get("type"), str(x.get("length"))) for x in e.get("enclosures", [])]
            want = [(x["url"], x["type"], x["length"]) for x in a["enclosures"]]
            if got != want:
                bad("entry.enclosures", got, want)
    seen, out = set(), []
    for x in fs:
        if tuple(x.key) not in seen:
            seen.add(tuple(x.key))
            out.append(x)
    return out


def probe_json_content_shape():
    """documented-but-not-generated: `content` of a JSON item"""
    doc = json.dumps({"version": "https://jsonfeed.org/version/1", "title": "t", "items": [{"id": "1", "content_text": "plain body"}]})
    r = parse(doc)
    c = r.entries[0].get("content") if r.entries else None
    if not (isinstance(c, list) and c and c[0].get("value") == "plain body"):
        return [Finding(("probe", "json-content-is-not-a-list"), {"probe": "json-content", "doc": doc},
                        "JSON Feed: entry.content is a single dict (%r), every XML format gives a list of content dicts, so entry.content[0].value -- the documented access path -- fails for JSON feeds" % (c,),
                        observed=repr(c), expected="[{'value': 'plain body', 'type': ...}]")]
    return []


def search(ctx, focus=None):
    rng = ctx.rng
    failures, n, distinct = [], 0, set()
    dist = {}
    for _ in range(ctx.n(140, 3000)):
        af = abstract_feed(rng)
        for e in af["entries"]:
            if rng.random() < 0.4:
                e["content"] = feedgen.rand_text(rng, True, (3, 10))
        for fmt in FORMATS:
            cdata = rng.random() < 0.35
            style = rand_style(rng, fmt)
            n += 1
            dist[fmt] = dist.get(fmt, 0) + 1
            for k in (style or {}):
                dist["style:" + k] = dist.get("style:" + k, 0) + 1
            distinct.add((json.dumps(af, sort_keys=True, default=str), fmt, cdata, json.dumps(style, sort_keys=True)))
            failures += check(af, fmt, cdata, style)
    failures += probe_json_content_shape()
    return {"evaluations": n, "distinct_nontrivial": len(distinct), "failures": failures, "distribution": dist,
            "rule": "abstract feeds (Unicode text incl. & < > quotes, non-BMP, padded / tabbed / multi-space text; absolute URLs with query strings; instants 1995-2035 x offsets incl. -00:01..-00:59, "
                    "+12:45, -11:30; author names incl. parentheses / ampersand / quotes; 0-4 entries, 0-3 categories, 0-2 enclosures) x the eight serialisations x CDATA-or-escaped; plain "
                    "text is escaped once more where the format's element is HTML-typed; oracle: version names the format, bozo unset, plain-text fields character for character (surrounding "
                    "white space aside), HTML-typed fields by text content, instants as UTC tuples from an independent civil-date oracle, per-format capability matrix",
            "samples": [{"fmt": "rss20"}]}


def correspondence(ctx):
    import jsonlib
    res = jsonlib.corr(ctx)
    # version detection on the root events of the six XML serialisations
    import mixlib
    rng = ctx.rng
    docs = []
    for _ in range(ctx.n(30, 300)):
        af = abstract_feed(rng, nentries=0)
        for fmt in FORMATS[:6]:
            d = feedgen.serialize(af, fmt, style=rand_style(rng, fmt))
            m = re.search(r"<((?:\w+:)?(?:rss|feed|RDF))[^>]*>", d)
            root = m.group(0)
            docs.append((root + "</" + m.group(1) + ">").encode("utf-8"))
    # the date elements of each format in feed and entry context (stage 1.5 of M-mixin: handlers recognised from their source)
    for _ in range(ctx.n(40, 400)):
        t1, t2 = (feedgen.rand_instant(rng), rng.choice(OFFSETS)), (feedgen.rand_instant(rng), rng.choice(OFFSETS))
        k = rng.random()
        if k < 0.4:
            d = '<rss version="2.0"><channel><lastBuildDate>%s</lastBuildDate><item><pubDate>%s</pubDate><expirationDate>%s</expirationDate></item></channel></rss>' % (
                feedgen.d822(t1), rng.choice([feedgen.d822(t2), " " + feedgen.d822(t2) + "\n", "garbage", ""]), feedgen.d3339(t1))
        elif k < 0.8:
            d = '<feed xmlns="http://www.w3.org/2005/Atom"><updated>%s</updated><entry><published>%s</published><updated>%s</updated><%s>%s</%s></entry></feed>' % (
                feedgen.d3339(t1), feedgen.d3339(t2), feedgen.d3339(t1), *(lambda n: (n, feedgen.d3339(t2), n))(rng.choice(["issued", "modified", "created"])))
        else:
            d = ('<rdf:RDF xmlns:rdf="http://www.w3.org/1999/02/22-rdf-syntax-ns#" xmlns="http://purl.org/rss/1.0/" xmlns:%s="http://purl.org/dc/elements/1.1/" xmlns:dcterms="http://purl.org/dc/terms/">'
                 '<item><%s:date>%s</%s:date><dcterms:%s>%s</dcterms:%s></item></rdf:RDF>') % (
                *(lambda p: (p, p, feedgen.d3339(t1), p))(rng.choice(["dc", "d", "DC"])), *(lambda n: (n, feedgen.d3339(t2), n))(rng.choice(["created", "issued", "modified"])))
        docs.append(d.encode("utf-8"))
    # stage 2 of M-mixin: title and the text-construct elements recognised from their source (subtitle / tagline / rights / copyright / info / dc:rights / ...),
    # feed and entry context, typed / untyped / base64, HTML-looking or not, under the per-call options -- the post-processing steps are recorded oracles
    docs += [mixlib.content_doc(rng) for _ in range(ctx.n(150, 2500))]
    r2 = mixlib.corr(ctx, docs, {"content-type": "application/xml; charset=utf-8", "content-location": "http://base.example/dir/"}, loose_p=0.3)
    res["cases"] += r2["cases"]
    res["distinct"] += r2["distinct"]
    res["unmodelled"] = r2["unmodelled"]
    res["disagreements"] += r2["disagreements"]
    res["distribution"]["roots"] = r2["distribution"]
    return res


def replay(w):
    if w.get("probe") == "json-content":
        fs = probe_json_content_shape()
        return (bool(fs), fs[0].what if fs else "entry.content is a list")
    fs = check(w["af"], w["fmt"], w["cdata"], w.get("style"))
    return (bool(fs), fs[0].what if fs else "all compared fields equal the abstract feed")


TECHNIQUE = "Lean 4 proof: complete model of the JSON Feed parser with a normalisation theorem for every abstract feed, version-detection theorems for the six XML formats on the handler machine model + correspondence of both models + eight-format differential search against the generating abstract feed"
LEVEL_TEXT = ("Kernel-checked: on M-json normalised_json (for EVERY abstract feed the JSON serialisation parses to exactly the normalised view: title, link, description, per entry "
              "title / link / id / summary / author name / published / updated / tag terms / enclosures; by induction over the entry list) and json_version; on M-mixin (stage 1) "
              "version_rss / version_atom10 / version_atom03 / version_rss10 (the root events of each XML serialisation set the version that names the format) and date_element_parsed "
              "(for every element whose handlers the translator recognises FROM THEIR SOURCE as a simple date element -- pubDate, published, issued, updated, modified, lastBuildDate, "
              "created, expirationDate, dc:date, dcterms:* -- and every text: the entry's K_parsed is _parse_date(repair(strip(text)))); version_submachine (version and prefix map evolve "
              "as a sub-machine independent of everything else, for every prefix the format's namespace is bound to); atom_entry_title_verbatim (stage 2); "
              "description_after_content_is_summary / content_sets_hasContent / second_description_becomes_content (stage 3: summary vs content); guid_not_permalink_verbatim / "
              "guid_permalink_is_link / alternate_link_is_entry_link (stage 4: the entry's id and link -- a non-permalink guid is stored verbatim, a permalink guid is the link of an entry "
              "that has none, the alternate HTML link's resolved href is the entry's link and the dict is appended to links); category_text_is_a_term / enclosure_is_a_link (stage 5: tags and "
              "enclosures); author_string_from_name_and_email / author_string_from_name (stage 7: the author machinery -- _start_author, name / email / uri children, contributors, "
              "_save_author, _sync_author_detail with the e-mail regex as a recorded oracle and author_detail modelled as THE SAME OBJECT as the last authors entry where the code makes it so). Tie: both models follow the implementation on "
              "generated inputs; the date-element table is regenerated from the handlers' source on every run.")
LEVEL_NOTE = ("Trusted: Lean kernel + standard axioms; json.load, _parse_date, sanitize_html as parameters of M-json; the XML per-field normalisation is proved for version, dates, titles, summary / content, id and link (handlers recognised from / "
              "fingerprinted against their source); every field the property names (title, link, id, summary / content, author name and e-mail, dates, categories, enclosures) goes through handlers that ARE modelled now; "
              "what the theorems do not cover is the publisher / webMaster variants of the author machinery, image / textInput / source contexts and the extension modules -- "
              "covered by the differential search over all eight formats. Open finding: JSON Feed entry.content is a dict, not a list.")
