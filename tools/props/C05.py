"""C05 — relative URIs resolve against the innermost base; xml:base / xml:lang scope is lexical."""
import html.parser
import json
import os
import warnings

import vlib
from vlib import Finding, enc
from oracles.rfc3986 import resolve as rfc_resolve
from oracles.whatwg_scheme import whatwg_scheme
import trace as tr

LEAN_MODULES = ["FeedVerif.Props.C05", "FeedVerif.Model.BaseDriver", "FeedVerif.Model.MixinDriver"]
CORR_OBLIGATIONS = ["M-base.step ~ baseuri / lang / stack depths of the real parser after every start and end tag (both back ends), "
                    "real make_safe_absolute_uri / _urljoin results supplied as oracle values",
                    "M-mixin (stage 4: _start_link / _end_link / pop('link'), _start_guid / _end_guid with resolve_uri as a recorded oracle) ~ the real handler machine on documents with "
                    "link / guid / id elements under nested xml:base: state after every tag, whole result"]
TRUSTED = ["Lean model FeedVerif/Model/Base.lean of mixin.py:231-254, 354-362 (make_safe_absolute_uri and _urljoin are parameters)"]
ASSUMPTIONS = ["urljoin = RFC 3986 is used only by the search oracle and only on the measured deviation-free sublanguage (DESIGN.md, C05 residual)",
               "expat / sgmllib deliver balanced start/end events for well-formed documents (library)"]

REF = json.load(open(os.path.join(vlib.ROOT, "reference", "tables.json")))
REF_SCHEMES = set(dict((n, v) for n, _t, v in REF["Urls"])["uriSchemes"])

REF_RELURIS = sorted(tuple(x) for x in dict((n, v) for n, _t, v in REF["Urls"])["relativeUris"])
REF_ELEMS = set(dict((n, v) for n, _t, v in REF["Sanitizer"])["acceptableElements"])
REF_ATTRS = set(dict((n, v) for n, _t, v in REF["Sanitizer"])["acceptableAttributes"])
_HANDLED = set(dict((n, v) for n, _t, v in REF["Mixin"])["endHandlers"])
# (inline elements named like feed elements -- <source src>, ... -- fire the feed-level END handler in the loose back end when they occur in
#  inline XHTML content: an open finding of C11's territory; keep them out of this property's generator)
SAFE_PAIRS = [(t, a) for t, a in REF_RELURIS if t in REF_ELEMS and a in REF_ATTRS and t not in _HANDLED]
DOCBASE = "http://doc.example/feeds/main.xml"


def pick_markup(rng, r, exp_list, name, getter_value, base, unsafe_ok=False):
    """one element from the documented URI-attribute table carrying reference r"""
    t, a = rng.choice(SAFE_PAIRS)
    void = t in ("img", "input", "area", "source", "link")
    pairs = [(a, r)]
    if rng.random() < 0.4:
        # an element may carry SEVERAL URI attributes at once (img src + longdesc + usemap, input src + usemap, …): each is resolved on its own
        others = [a2 for t2, a2 in SAFE_PAIRS if t2 == t and a2 != a]
        rng.shuffle(others)
        pairs += [(a2, rng.choice(REFS)) for a2 in others[:rng.randint(1, 3)]]
        rng.shuffle(pairs)
    m = '<%s %s%s' % (t, " ".join('%s="%s"' % (a_, attr_esc(r_)) for a_, r_ in pairs), "/>" if void else ">x</%s>" % t)
    for a_, r_ in pairs:
        exp_list.append(("%s %s@%s" % (name, t, a_), (lambda t, a: lambda d: embedded(getter_value(d), t, a))(t, a_), rfc_resolve(base, r_), "embedded"))
    return m
XB = [None, None, None, "http://e1.example/a/b", "sub/", "sub/leaf", "/root/", "/root/x", "?q=1", "", "javascript:x//", "https://s.example/", "../up/", "data:text/plain,x", "//net.example/p/", "/mirror/?u=http://orig.example/dir/", "m/?u=https://orig.example/"]
XL = [None, None, "en", "fr-CA", "", "de"]
REFS = ["g", "./g", "g/", "/g", "//h.example/g", "?y", "g?y", "#s", "g#s", ";x", "g;x", "g;x?y#s", ".", "./", "..", "../", "../g",
        "../..", "../../", "../../g", "http://abs.example/x", "g/h/i", "../../../g", "a/../b", "g?y/./x",
        # relative references that EMBED an absolute URL in their query / fragment (redirector and archive links)
        "?u=http://o.example/x", "g?to=https://o.example/", "#r=http://o.example/", "/abs?next=http://o.example/a/b", "r?to=ftp://f.example/"]


def attr_esc(s):
    return s.replace("&", "&amp;").replace("<", "&lt;").replace(">", "&gt;").replace('"', "&quot;")


def esc(s):
    return s.replace("&", "&amp;").replace("<", "&lt;").replace(">", "&gt;")


def eff_base(cur, xb):
    if xb is None or xb == "":
        return cur
    cand = rfc_resolve(cur, xb)
    sch = whatwg_scheme(cand)
    if sch is None or sch in REF_SCHEMES:
        # a candidate without scheme cannot happen with an absolute cur
        return cand
    return cur


def eff_lang(cur, xl):
    if xl is None:
        return cur
    if xl == "":
        return None
    return xl


def xattrs(xb, xl):
    s = ""
    if xb is not None:
        s += ' xml:base="%s"' % attr_esc(xb)
    if xl is not None:
        s += ' xml:lang="%s"' % attr_esc(xl)
    return s


def gen_doc(rng, fmt):
    """returns (bytes, expectations) -- expectations: list of (path-fn description, getter, expected, kind)"""
    exp = []
    pick = lambda: (rng.choice(XB), rng.choice(XL))
    b0, l0 = DOCBASE, None
    if fmt == "atom":
        fxb, fxl = pick()
        fb, fl = eff_base(b0, fxb), eff_lang(l0, fxl)
        parts = ['<feed xmlns="http://www.w3.org/2005/Atom"%s>' % xattrs(fxb, fxl)]
        r = rng.choice(REFS)
        parts.append('<title>ft</title><link href="%s"/>' % attr_esc(r))
        exp.append(("feed.link", lambda d: d.feed.get("link"), rfc_resolve(fb, r), "uri"))
        exp.append(("feed.title_detail.base", lambda d: d.feed.title_detail.get("base"), fb, "base"))
        exp.append(("feed.title_detail.language", lambda d: d.feed.title_detail.get("language"), fl, "lang"))
        n = rng.randint(1, 3)
        for i in range(n):
            exb, exl = pick()
            eb, el = eff_base(fb, exb), eff_lang(fl, exl)
            parts.append("<entry%s>" % xattrs(exb, exl))
            r1 = rng.choice(REFS)
            order = rng.sample(["title", "link", "content", "summary", "source", "logo"], 6)
            for what in order:
                if what == "title":
                    txb, txl = pick() if rng.random() < 0.3 else (None, None)
                    parts.append("<title%s>t%d</title>" % (xattrs(txb, txl), i))
                    exp.append(("entries[%d].title_detail.base" % i, (lambda i: lambda d: d.entries[i].title_detail.get("base"))(i), eff_base(eb, txb), "base"))
                    exp.append(("entries[%d].title_detail.language" % i, (lambda i: lambda d: d.entries[i].title_detail.get("language"))(i), eff_lang(el, txl), "lang"))
                elif what == "link":
                    parts.append('<link href="%s"/>' % attr_esc(r1))
                    exp.append(("entries[%d].link" % i, (lambda i: lambda d: d.entries[i].get("link"))(i), rfc_resolve(eb, r1), "uri"))
                elif what == "content":
                    cxb, cxl = pick()
                    cb, cl = eff_base(eb, cxb), eff_lang(el, cxl)
                    r2 = rng.choice(REFS)
                    r3 = rng.choice(REFS)
                    mode = rng.choice(["html", "html-div", "xhtml"])
                    inner = '<a href="%s">x</a><img src="%s"/>' % (attr_esc(r2), attr_esc(r3))
                    only_table = rng.random() < 0.5
                    if only_table:
                        inner = pick_markup(rng, r2, exp, "entries[%d].content[0]" % i, (lambda i: lambda d: d.entries[i].content[0].value)(i), cb)
                    if mode == "html":
                        parts.append('<content type="html"%s>%s</content>' % (xattrs(cxb, cxl), esc(inner)))
                    elif mode == "html-div":
                        # markup that is not escaped although declared html ("typepad"): a literal <div>
                        parts.append('<content type="html"%s><div>%s</div></content>' % (xattrs(cxb, cxl), esc(inner)))
                    else:
                        parts.append('<content type="xhtml"%s><div xmlns="http://www.w3.org/1999/xhtml">%s</div></content>' % (xattrs(cxb, cxl), inner))
                    exp.append(("entries[%d].content[0].base" % i, (lambda i: lambda d: d.entries[i].content[0].get("base"))(i), cb, "base"))
                    exp.append(("entries[%d].content[0].language" % i, (lambda i: lambda d: d.entries[i].content[0].get("language"))(i), cl, "lang"))
                    if not only_table:
                        exp.append(("entries[%d].content[0] a@href" % i, (lambda i: lambda d: embedded(d.entries[i].content[0].value, "a", "href"))(i), rfc_resolve(cb, r2), "embedded"))
                        exp.append(("entries[%d].content[0] img@src" % i, (lambda i: lambda d: embedded(d.entries[i].content[0].value, "img", "src"))(i), rfc_resolve(cb, r3), "embedded"))
                elif what == "summary":
                    r4 = rng.choice(REFS)
                    parts.append('<summary type="html">%s</summary>' % esc('<a href="%s">s</a>' % attr_esc(r4)))
                    exp.append(("entries[%d].summary_detail.base" % i, (lambda i: lambda d: d.entries[i].summary_detail.get("base"))(i), eb, "base"))
                    exp.append(("entries[%d].summary a@href" % i, (lambda i: lambda d: embedded(d.entries[i].summary, "a", "href"))(i), rfc_resolve(eb, r4), "embedded"))
                elif what == "source" and rng.random() < 0.5:
                    sxb, _ = pick()
                    sb = eff_base(eb, sxb)
                    r5 = rng.choice(REFS)
                    parts.append('<source%s><title>st</title><link href="%s"/></source>' % (xattrs(sxb, None), attr_esc(r5)))
                    exp.append(("entries[%d].source.link" % i, (lambda i: lambda d: d.entries[i].source.get("link"))(i), rfc_resolve(sb, r5), "uri"))
            parts.append("</entry>")
        r6 = rng.choice(REFS)
        parts.append("<logo>%s</logo>" % esc(r6))
        exp.append(("feed.logo", lambda d: d.feed.get("logo"), rfc_resolve(fb, r6), "uri"))
        parts.append("</feed>")
    else:
        rxb, rxl = pick()
        rb, rl = eff_base(b0, rxb), eff_lang(l0, rxl)
        cxb, cxl = pick()
        cb, cl = eff_base(rb, cxb), eff_lang(rl, cxl)
        parts = ['<rss version="2.0"%s><channel%s>' % (xattrs(rxb, rxl), xattrs(cxb, cxl))]
        r = rng.choice(REFS)
        parts.append("<title>ft</title><link>%s</link><docs>%s</docs>" % (esc(r), esc(r)))
        exp.append(("feed.link", lambda d: d.feed.get("link"), rfc_resolve(cb, r), "uri"))
        exp.append(("feed.docs", lambda d: d.feed.get("docs"), rfc_resolve(cb, r), "uri"))
        exp.append(("feed.title_detail.base", lambda d: d.feed.title_detail.get("base"), cb, "base"))
        for i in range(rng.randint(1, 3)):
            ixb, ixl = pick()
            ib, il = eff_base(cb, ixb), eff_lang(cl, ixl)
            parts.append("<item%s>" % xattrs(ixb, ixl))
            r1, r2, r3 = rng.choice(REFS), rng.choice(REFS), rng.choice(REFS)
            for what in rng.sample(["title", "link", "comments", "description"], 4):
                if what == "title":
                    parts.append("<title>t%d</title>" % i)
                    exp.append(("entries[%d].title_detail.base" % i, (lambda i: lambda d: d.entries[i].title_detail.get("base"))(i), ib, "base"))
                    exp.append(("entries[%d].title_detail.language" % i, (lambda i: lambda d: d.entries[i].title_detail.get("language"))(i), il, "lang"))
                elif what == "link":
                    parts.append("<link>%s</link>" % esc(r1))
                    exp.append(("entries[%d].link" % i, (lambda i: lambda d: d.entries[i].get("link"))(i), rfc_resolve(ib, r1), "uri"))
                elif what == "comments":
                    parts.append("<comments>%s</comments>" % esc(r2))
                    exp.append(("entries[%d].comments" % i, (lambda i: lambda d: d.entries[i].get("comments"))(i), rfc_resolve(ib, r2), "uri"))
                else:
                    dxb, dxl = pick() if rng.random() < 0.3 else (None, None)
                    db, dl = eff_base(ib, dxb), eff_lang(il, dxl)
                    mode = rng.choice(["esc", "cdata", "div"])
                    inner = '<a href="%s">x</a>' % attr_esc(r3)
                    only_table = rng.random() < 0.5
                    if only_table:
                        inner = pick_markup(rng, r3, exp, "entries[%d].summary" % i, (lambda i: lambda d: d.entries[i].summary)(i), db)
                    if mode == "esc":
                        parts.append("<description%s>%s</description>" % (xattrs(dxb, dxl), esc(inner)))
                    elif mode == "cdata":
                        parts.append("<description%s><![CDATA[%s]]></description>" % (xattrs(dxb, dxl), inner))
                    else:
                        parts.append("<description%s><div>%s</div></description>" % (xattrs(dxb, dxl), esc(inner)))
                    exp.append(("entries[%d].summary_detail.base" % i, (lambda i: lambda d: d.entries[i].summary_detail.get("base"))(i), db, "base"))
                    exp.append(("entries[%d].summary_detail.language" % i, (lambda i: lambda d: d.entries[i].summary_detail.get("language"))(i), dl, "lang"))
                    if not only_table:
                        exp.append(("entries[%d].summary a@href" % i, (lambda i: lambda d: embedded(d.entries[i].summary, "a", "href"))(i), rfc_resolve(db, r3), "embedded"))
            parts.append("</item>")
        parts.append("</channel></rss>")
    return "".join(parts).encode("utf-8"), exp


class _AC(html.parser.HTMLParser):
    def __init__(self):
        super().__init__(convert_charrefs=True)
        self.found = []

    def handle_starttag(self, tag, attrs):
        self.found.append((tag, dict(attrs)))

    handle_startendtag = handle_starttag


def embedded(value, tag, attr):
    p = _AC()
    p.feed(value)
    p.close()
    for t, a in p.found:
        if t == tag and attr in a:
            return a[attr]
    return "<no %s@%s in %r>" % (tag, attr, value)


def check_doc(doc, fmt, loose, exp=None, spec=None):
    r, _log = tr.traced_parse(doc, {"content-location": DOCBASE}, loose=loose)
    fs = []
    if isinstance(r, Exception):
        return fs
    w = {"doc": doc, "fmt": fmt, "loose": loose, "expect": [(name, e, kind) for name, _g, e, kind in exp]}
    for name, getter, e, kind in exp:
        try:
            got = getter(r)
        except Exception as ex:
            got = "<%s: %s>" % (type(ex).__name__, ex)
        if got != e:
            field = name.split(".")[-1].split(" ")[-1]
            if kind == "embedded":
                field = "attr"
            fs.append(Finding((fmt, kind, field, "loose" if loose else "strict"), w,
                              "%s = %r, expected %r (%s back end)" % (name, got, e, "loose" if loose else "strict"),
                              observed=got, expected=e, oracle="RFC 3986 resolution (tools/oracles/rfc3986.py) against the lexically computed base chain"))
    return fs


GETTERS = {}


def correspondence(ctx):
    import feedparser.urls as U
    rng = ctx.rng
    lines, expl, meta = [], [], []
    dist = {"docs": 0, "start": 0, "end": 0, "xmlbase": 0, "xmllang": 0, "strict": 0, "loose": 0, "maxdepth": 0}
    for _ in range(ctx.n(150, 2500)):
        fmt = rng.choice(["atom", "rss"])
        doc, _exp = gen_doc(rng, fmt)
        if rng.random() < 0.15:
            # unbalanced / damaged variants: the model must follow the real machine there too
            cut = rng.randrange(len(doc) // 2, len(doc))
            doc = doc[:cut]
        loose = rng.random() < 0.4
        docbase = rng.choice([DOCBASE, DOCBASE, ""])
        r, log = tr.traced_parse(doc, {"content-location": docbase} if docbase else {}, loose=loose)
        dist["docs"] += 1
        dist["loose" if loose else "strict"] += 1
        for rec in log:
            if rec["k"] == "start":
                pre = rec["pre"]
                if pre["nbase"] == 0 and pre["depth"] == 0:
                    lines.append("base reset %s %s" % (enc(pre["baseuri"]), enc(pre["lang"])))
                    expl.append("%s %s 0 0" % (enc(pre["baseuri"]), enc(pre["lang"])))
                    meta.append({"doc": doc, "loose": loose, "at": "parser start"})
                xb = rec["norm"].get("xml:base", rec["norm"].get("base"))
                xl = rec["norm"].get("xml:lang", rec["norm"].get("lang"))
                cur = pre["baseuri"]
                b = (xb or "") or cur
                try:
                    s2 = U.make_safe_absolute_uri(cur, b)
                    s1 = U.make_safe_absolute_uri(U._urljoin(cur, b))
                except Exception:
                    continue
                if "post" not in rec:
                    continue
                lines.append("base start %s %s %s %s" % (enc(xb), enc(xl), enc(s2), enc(s1)))
                post = rec["post"]
                expl.append("%s %s %d %d" % (enc(post["baseuri"]), enc(post["lang"]), post["nbase"], post["nlang"]))
                meta.append({"doc": doc, "loose": loose, "at": "start " + rec["tag"]})
                dist["start"] += 1
                dist["xmlbase"] += xb is not None
                dist["xmllang"] += xl is not None
                dist["maxdepth"] = max(dist["maxdepth"], post["nbase"])
            elif rec["k"] == "end" and "post" in rec:
                lines.append("base stop")
                post = rec["post"]
                expl.append("%s %s %d %d" % (enc(post["baseuri"]), enc(post["lang"]), post["nbase"], post["nlang"]))
                meta.append({"doc": doc, "loose": loose, "at": "end " + rec["tag"]})
                dist["end"] += 1
    got = vlib.run_driver(lines)
    dis, seen = [], set()
    for g, e, m, l in zip(got, expl, meta, lines):
        if g != e and m["doc"] not in seen:
            seen.add(m["doc"])
            if len(dis) < 20:
                dis.append({"doc": m["doc"], "loose": m["loose"], "at": m["at"], "line": l,
                            "model": g, "impl": e})
    res = {"cases": len(lines), "distinct": len(set(zip(lines, expl))), "unmodelled": 0, "disagreements": dis, "distribution": dist,
           "samples": [{"line": lines[i], "impl": expl[i]} for i in range(min(3, len(lines)))]}
    # the element-level URIs of link / guid elements: M-mixin stage 4 on documents whose links and ids sit under nested xml:base
    import mixlib
    return mixlib.content_corr(ctx, ctx.n(120, 1500), into=res)


def allowlist_history_case(rng, token, fixed=None):
    """the verdict on an xml:base depends on the scheme allow-list IN EFFECT (feedparser.urls.ACCEPTABLE_URI_SCHEMES, documented as settable): the same document under
    the same allow-list must resolve the same whether or not it was parsed under another allow-list before.  Unique document bases keep the reference run free of any history."""
    import feedparser
    import feedparser.urls as U
    default = tuple(U.ACCEPTABLE_URI_SCHEMES)
    scheme = fixed["scheme"] if fixed else rng.choice([x for x in ("ftp", "sftp", "rtsp", "gopher", "https") if x in default])
    xb = "%s://files%s.example/pub/" % (scheme, token)
    doc = ('<feed xmlns="http://www.w3.org/2005/Atom"><title>t</title><link href="top/l"/><entry xml:base="%s"><title>e</title><link href="rel/x"/><id>rel/id</id>'
           '<content type="html">&lt;a href="rel/y"&gt;l&lt;/a&gt;</content></entry><entry><title>f</title><link href="rel/z"/></entry></feed>' % xb).encode()
    narrow = tuple(x for x in default if x != scheme)
    lists = {"default": default, "narrow": narrow, "empty": ()}
    fk, sk = (fixed["first"], fixed["second"]) if fixed else rng.choice([("default", "narrow"), ("narrow", "default"), ("default", "empty"), ("empty", "narrow")])
    first, second = lists[fk], lists[sk]
    fs = []
    for loose in (False, True):
        def run(base, lst):
            saved = U.ACCEPTABLE_URI_SCHEMES
            try:
                U.ACCEPTABLE_URI_SCHEMES = lst
                r, _log = tr.traced_parse(doc, {"content-location": base, "content-type": "application/xml; charset=utf-8"}, loose=loose)
            finally:
                U.ACCEPTABLE_URI_SCHEMES = saved
            return r
        b1, b2 = "http://h%sa.example/dir/" % token, "http://h%sb.example/dir/" % token
        ref = run(b1, second)
        run(b2, first)
        hist = run(b2, second)
        if isinstance(ref, Exception) or isinstance(hist, Exception):
            continue
        canon = lambda r, b: repr((dict(r.feed), [dict(e) for e in r.entries])).replace(b, "BASE/")
        a, h = canon(ref, b1), canon(hist, b2)
        if a != h:
            i = next((k for k in range(min(len(a), len(h))) if a[k] != h[k]), 0)
            fs.append(Finding(("history", "allow-list-change", "loose" if loose else "strict"),
                              {"doc": doc, "kind": "allowlist-history", "first": fk, "second": sk, "scheme": scheme, "token": token, "loose": loose},
                              "the same document under the same scheme allow-list resolves differently after a parse under ANOTHER allow-list (xml:base %s): fresh ...%s..., with history ...%s..." % (xb, a[max(0, i - 40):i + 60], h[max(0, i - 40):i + 60]),
                              observed=h[max(0, i - 40):i + 80], expected=a[max(0, i - 40):i + 80]))
    return fs


def search(ctx, focus=None):
    rng = ctx.rng
    failures, n, distinct = [], 0, set()
    for j in range(ctx.n(12, 120)):
        n += 1
        tok = "%d%04d" % (j, rng.randrange(10000))
        distinct.add(("hist", tok))
        failures += allowlist_history_case(rng, tok)
    for _ in range(ctx.n(500, 12000)):
        fmt = rng.choice(["atom", "rss"])
        doc, exp = gen_doc(rng, fmt)
        loose = rng.random() < 0.4
        n += 1
        distinct.add((doc, loose))
        failures += check_doc(doc, fmt, loose, exp)
    return {"evaluations": n, "distinct_nontrivial": len(distinct), "failures": failures,
            "rule": "ALLOW-LIST HISTORIES: a document with an xml:base of an allow-listed scheme parsed under allow-list A and then under B (default / without that scheme / ()), compared with a history-free parse under B (unique document bases); "
                    "Atom / RSS documents with an absolute document base (Content-Location); xml:base in {absent, absolute, relative, path-absolute, "
                    "query-only, parent-relative, network-path, empty, unsafe javascript:/data:} and xml:lang in {absent, en, fr-CA, '', de} drawn independently "
                    "at feed/channel, entry/item, title, content/description, source level; children in random order so URI fields occur before and after "
                    "nested overrides and closed children; 1-3 entries; references from RFC 3986 5.4 (deviation-free sublanguage); both back ends; every "
                    "URI field, *_detail.base/.language, content[i].base/.language and embedded a@href/img@src compared with RFC 3986 resolution against the "
                    "lexically computed chain; distinct = distinct (document, back end)",
            "samples": [{"doc": gen_doc(vlib.random.Random(1), "atom")[0].decode()[:400]}]}


def replay(w):
    if w.get("kind") == "allowlist-history":
        fs = [f for f in allowlist_history_case(None, w["token"] + "r", fixed=w) if f.witness["loose"] == w["loose"]]
        return (bool(fs), fs[0].what if fs else "the allow-list in effect decides, whatever was parsed before")
    doc, fmt, loose = w["doc"], w["fmt"], w["loose"]
    # expectations are stored with the witness; getters are rebuilt from the names
    exp = []
    for name, e, kind in w["expect"]:
        exp.append((name, _getter_from_name(name), e, kind))
    fs = check_doc(doc, fmt, loose, exp)
    return (bool(fs), fs[0].what if fs else "all URI / base / language fields as expected")


def _getter_from_name(name):
    if " " in name:
        path, sel = name.split(" ")
        tag, attr = sel.split("@")
        g = _getter_from_name(path + (".value" if "content[" in path else ""))
        return lambda d: embedded(g(d), tag, attr)
    def get(d):
        cur = d
        for part in name.replace("]", "").replace("[", ".").split("."):
            if part.isdigit():
                cur = cur[int(part)]
            else:
                cur = cur.get(part) if part in ("link", "logo", "docs", "comments", "base", "language") else cur[part]
        return cur
    return get


TECHNIQUE = "Lean 4 proof: stack-discipline theorem (every balanced block restores base URI, language and both stacks, by induction on nesting) + effective-base characterisation + on the handler machine model: a link element's href is the join of the picked reference against the base in effect inside the element; per-event correspondence with both real back ends; RFC 3986 oracle search"
LEVEL_TEXT = ("Kernel-checked on M-base for arbitrary make_safe_absolute_uri / _urljoin: balanced_restores (any depth, any xml:base / xml:lang values), "
              "pop_undoes_push, inv_of_absolute_root, sibling_sees_enclosing, effective_base, unsafe_xmlbase_ignored, no_xmlbase_keeps_base, effective_lang; "
              "empty_docbase_leak_counterexample shows why the property's 'absolute base' hypothesis is needed. On M-mixin (stage 4, handlers hand-modelled and guarded by source "
              "fingerprints): handler_sees_inner_base (the state a start handler runs in carries exactly M-base's state after this start tag), link_href_resolved / link_href_is_join "
              "(whatever of url / uri / href a link element carries, the stored href is _urljoin(current base, that value)); base_submachine (for EVERY event sequence in the model's "
              "domain the base URI and base stack of the handler machine are M-base run on the tag events alone) and end_handler_sees_own_base (after any balanced children the END "
              "handler -- where pop() resolves the element-level URI and embedded markup -- runs with the base the START handler saw), via balanced_restores_base; Props/C02 guid_not_permalink_verbatim (a guid with "
              "isPermaLink=false is NOT joined). Tie: the model is stepped on the event "
              "stream of the real strict and loose parsers (recorded by subclassing) and must reproduce baseuri, lang and stack depths after every tag.")
LEVEL_NOTE = ("Trusted: Lean kernel + standard axioms; event recording by subclassing (tools/trace.py); the field clauses (which fields are resolved against "
              "which base) are proved for link / guid / id and the text constructs' element-level URIs (contentOutput), tied by the search only for the other URI fields (enclosures, "
              "image / textinput / source, the extension modules); urljoin = RFC 3986 on the measured sublanguage (oracle side only).")
