"""C03 — sanitized markup contains only allow-listed elements and attributes."""
import base64
import json
import warnings

import vlib
from vlib import Finding, enc, dec
import sanlib
from sanlib import REF_ELEMS, REF_ATTRS, REF_MATHML_E, REF_MATHML_A, REF_SVG_E, REF_SVG_A, REF_SVG_E_L, REF_SVG_A_L

LEAN_MODULES = ["FeedVerif.Props.C03", "FeedVerif.Model.SanDriver", "FeedVerif.Model.MixinDriver"]
CORR_OBLIGATIONS = ["M-mixin (stage 2) ~ the real pop() on title and the text-construct elements: content type, value and *_detail after the guess / resolver / sanitizer steps, whose answers (and the per-call options) are passed to the model as parameters",
                    "M-san.step + serializePiece ~ HTMLSanitizer callbacks (pieces emitted and unacceptablestack/mathmlOK/svgOK after every sgmllib callback)"]
TRUSTED = ["Lean model FeedVerif/Model/San.lean of sanitizer.py:736-838 and html.py:149-290 (filter + serializer over the callback sequence)",
           "sgmllib + feedparser's regex overrides (the tokenizer) are third-party and not modelled: the model starts at the callbacks",
           "sanitize_style / make_safe_absolute_uri / html.unescape enter as oracle values per attribute (they have their own models: C14, C04)"]
ASSUMPTIONS = ["tools/oracles/html5tok.py approximates a browser's tokenizer (WHATWG tokenization + element-name based text modes)",
               "the statement about the HTML5 tokenization of the OUTPUT additionally needs text and comment pieces to be inert; that hypothesis is false for three open findings"]

HTML_ELEMS = sorted(REF_ELEMS) + ["script", "style", "applet", "iframe", "object", "embed", "base", "meta", "link", "frame", "frameset", "xmp", "plaintext", "noembed",
                                  "noframes", "html", "head", "body", "title", "template", "marquee", "bgsound", "layer", "ilayer", "blink", "isindex", "param", "foo", "x-y", "svg", "math"]
EVENT_ATTRS = ["onclick", "onerror", "onload", "onmouseover", "onfocus", "onblur", "onabort", "onanimationend", "onbegin", "onend", "onrepeat", "ontoggle", "onpointerdown",
               "onwheel", "oncopy", "onbeforeunload", "onhashchange", "onmessage", "ONCLICK", "OnError", "on", "onx"]
OTHER_ATTRS = sorted(REF_ATTRS) + ["formaction", "srcdoc", "background", "dynsrc", "lowsrc", "ping", "xmlns", "xlink:href", "xml:base", "xml:lang", "data-x", "aria-label", "is",
                                   "style", "href", "src", "action", "poster", "foo", "allowfullscreen", "sandbox", "http-equiv", "content", "charset", "fill", "viewBox", "xlink:actuate"]
SVG_ELEMS = sorted(REF_SVG_E) + ["script", "foreignObject", "handler", "listener", "use", "image", "style", "a", "iframe", "feImage", "animate", "set", "tref"]
MATH_ELEMS = sorted(REF_MATHML_E) + ["annotation-xml", "maction", "script", "mglyph", "malignmark"]
VALUES = ["&#34; onerror=alert(1) x=&#34;", "&#39; onclick=alert(1) y=&#39;", "&#34;", "a&#39;b", "&#x22; onload=x &#x22;", "&quot; onerror=alert(1) &quot;", "x", "javascript:alert(1)", "http://a/b?c=1&d=2", "a b", "", "1", "#frag", "&amp;", "a&b", "a<b", "a>b", 'a"b', "a'b", "&lt;script&gt;", "&#60;", "&quot;", "\n", "x\ty",
          "color: red", "width: expression(alert(1))", "background: url(javascript:x)", "é", "data:text/html,<script>alert(1)</script>", "`", "{{x}}", "a=b", "a/>", "--", "]]>"]
SEEDS = ['<img alt="&#34; onerror=alert(1) x=&#34;" src="x">', "<b title='&#39; onclick=alert(1) y=&#39;'>x</b>", '<<foo>img src=x onerror=alert(1)>', "<p '\n><script>alert(1)</script>", '<!--><script>alert(1)</script>-->', '<img src=x onerror=alert(1)//', '<scr<script>ipt>alert(1)</scr</script>ipt>',
         '<a href="jav&#x09;ascript:alert(1)">x</a>', '<svg><script>alert(1)</script></svg>', '<math><mtext><img src=x onerror=alert(1)></mtext></math>', '<![CDATA[<script>alert(1)</script>]]>',
         '<?xml-stylesheet href="x"?><b>', '<!DOCTYPE html><b>', '<!ELEMENT x><script>alert(1)</script>', '<style>@import "x";</style><b>', '<b/onclick=alert(1)>x', '<b onclick=alert(1)>x</b>',
         '<iframe src=javascript:alert(1)></iframe>', '<object data=x></object>', '<form action=javascript:alert(1)><input type=submit></form>', '<a href=x onmouseover=alert(1)>y</a>',
         '<!-- --!><script>alert(1)</script>', '<!---><script>alert(1)</script>', '<!-- x --><b>', '<textarea><script>alert(1)</script></textarea>', '<title><script>alert(1)</script></title>',
         '<noscript><p title="</noscript><img src=x onerror=alert(1)>">', '<svg><style><img src=x onerror=alert(1)></style></svg>', '<p title="><script>alert(1)</script>">', "<p title='><script>alert(1)</script>'>",
         '<img src="x" alt="`"onerror=alert(1)">', '<div style="x:expression(alert(1))">', '<script', '<script>alert(1)', '</script><script>alert(1)</script>', '<b><i></b></i><script>x</script>',
         '<a href="&#106;avascript:alert(1)">x</a>', '<svg><a xlink:href="javascript:alert(1)">x</a></svg>', '<isindex action=javascript:alert(1) type=image>', '<input onfocus=alert(1) autofocus>',
         '<b>&lt;script&gt;alert(1)&lt;/script&gt;</b>', '&lt;script&gt;alert(1)&lt;/script&gt;', '<img src=x:x onerror="alert(1)"', '< script>alert(1)</ script>', '<\x00script>alert(1)</script>',
         '<svg xmlns="http://www.w3.org/2000/svg" onload="alert(1)"/>', '<math xmlns="http://www.w3.org/1998/Math/MathML" href="javascript:alert(1)">x</math>', "<p\n'><img src=x onerror=alert(1)>"]


def gen_tree(rng, depth=0, ctx="html"):
    vocab = {"html": HTML_ELEMS, "svg": SVG_ELEMS, "math": MATH_ELEMS}[ctx]
    tag = rng.choice(vocab)
    if rng.random() < 0.1:
        tag = "".join(c.upper() if rng.random() < 0.5 else c for c in tag)
    attrs = []
    for _ in range(rng.choice([0, 0, 1, 1, 2, 3])):
        r = rng.random()
        k = rng.choice(EVENT_ATTRS) if r < 0.3 else rng.choice(OTHER_ATTRS) if r < 0.8 else rng.choice(sorted(REF_SVG_A)) if r < 0.9 else rng.choice(sorted(REF_MATHML_A))
        v = rng.choice(VALUES)
        q = rng.choice(['"', '"', "'", ""])
        if q == "" and (not v or any(c in v for c in " \t\n>\"'`=<")):
            q = '"'
        if q == '"':
            v = v.replace('"', "&quot;")
        if q == "'":
            v = v.replace("'", "&#39;")
        attrs.append("%s%s%s%s%s" % (k, rng.choice(["=", "=", " = ", "= "]), q, v, q) if rng.random() < 0.9 else k)
    inner = ""
    if depth < 3:
        for _ in range(rng.choice([0, 1, 1, 2])):
            r = rng.random()
            if r < 0.45:
                sub = "svg" if tag.lower() == "svg" else "math" if tag.lower() == "math" else ctx
                inner += gen_tree(rng, depth + 1, sub)
            elif r < 0.8:
                inner += rng.choice(["text", "a &amp; b", "&lt;b&gt;", "&#60;x", "&copy;", "&foo;", "&#128;", "x < y", "1 > 0", "alert(1)", "é", " ", "\n", "]]>", "&", "&#x;", "&#xD800;"])
            elif r < 0.9:
                inner += rng.choice(["<!-- c -->", "<!--x--y-->", "<!-->", "<!--->", "<!-- --!>", "<?pi?>", "<!DOCTYPE x>", "<![CDATA[z]]>", "<!x>", "<!-- unterminated"])
            else:
                inner += rng.choice(SEEDS)
    form = rng.random()
    a = (" " + " ".join(attrs)) if attrs else ""
    if form < 0.7:
        return "<%s%s>%s</%s>" % (tag, a, inner, tag)
    if form < 0.8:
        return "<%s%s/>" % (tag, a)
    if form < 0.9:
        return "<%s%s>%s" % (tag, a, inner)
    return "<%s%s>%s</%s>" % (tag, a, inner, rng.choice(vocab))


def damage(rng, m):
    if not m:
        return m
    k = rng.random()
    i = rng.randrange(len(m))
    if k < 0.3:
        return m[:i]
    if k < 0.5:
        return m[:i] + rng.choice("<>\"'/!-=& \n\x00`") + m[i:]
    if k < 0.7:
        return m[:i] + m[i + 1:]
    if k < 0.85:
        return m[:i] + rng.choice(["<", "<!--", "-->", "<![CDATA[", "]]>", "<?", "<!", "</", "&#", "&"]) + m[i:]
    j = rng.randrange(len(m))
    a, b = min(i, j), max(i, j)
    return m[:a] + m[b:] + m[a:b]


PAYLOADS = ["<script>alert(1)</script>", "<img src=x onerror=alert(1)>", "<iframe src=x></iframe>", '<b onclick="x()">y</b>', "<style>*{color:red}</style>", "<svg onload=alert(1)>",
            '<a href="javascript:alert(1)">j</a>', "<object data=x></object>"]
WRAPPERS = ["<!--%s-->", "<!--%s--!>", "<!-%s->", "<!%s>", "<!DOCTYPE %s>", "<!ENTITY %s>", "<!ATTLIST %s>", "<?%s?>", "<?%s>", "<?xml %s?>", "<![if %s]>", "<![if gte mso 9%s]>", "<![endif%s]>",
            "<![else%s]>", "<![cdata[%s]]>", "<![CDATA[%s]]>", "<![include[%s]]>", "<![ignore[%s]]>", "<![temp[%s]]>", "<![rcdata[%s]]>", "<![%s]>", "<![ %s ]]>", "<![if !IE]>%s<![endif]>",
            "<!--[if IE]>%s<![endif]-->", "<!%s", "<![if %s", "<?%s", "<!--%s", "<![cdata[%s", "</%s>", "<%s"]


def gen_smuggle(rng):
    """markup inside every kind of non-element construct (comment, declaration, marked section with each keyword _markupbase knows, processing
    instruction; terminated, mis-terminated, unterminated), optionally preceded by something that ends the construct early for an HTML5 tokenizer"""
    pay = rng.choice(PAYLOADS) if rng.random() < 0.75 else gen_tree(rng, 2)
    pre = rng.choice(["", "", ">", " >", "x>", "-->", "->", "]>", "]]>", "?>", '">', "'>", "\n>", "!>"])
    m = rng.choice(WRAPPERS) % (pre + pay)
    return rng.choice(["", "Hello ", "<p>", "<svg>", "<b>x</b>"]) + m + rng.choice(["", " tail", "</p>", "<i>after</i>"])


def gen_markup(rng):
    r = rng.random()
    if r < 0.15:
        m = rng.choice(SEEDS)
    elif r < 0.3:
        m = gen_smuggle(rng)
    else:
        m = "".join(gen_tree(rng) for _ in range(rng.choice([1, 1, 2])))
    if rng.random() < 0.35:
        m = damage(rng, m)
    if rng.random() < 0.1:
        m = damage(rng, m)
    return m


def correspondence(ctx):
    rng = ctx.rng
    lines, exp, meta = [], [], []
    dist = {"runs": 0, "callbacks": 0, "unmodelled_runs": 0}
    kinds = {}
    for _ in range(ctx.n(700, 12000)):
        m = gen_markup(rng)
        typ = rng.choice(["text/html", "application/xhtml+xml"])
        try:
            ev, _out = sanlib.record_sanitizer(m, typ)
        except Exception:
            continue
        ls, ex, modelled = sanlib.lines_for(ev, typ)
        dist["runs"] += 1
        if not modelled:
            dist["unmodelled_runs"] += 1
        for e in ev:
            kinds[e["kind"]] = kinds.get(e["kind"], 0) + 1
        for l, e in zip(ls, ex):
            lines.append(l)
            exp.append(e)
            meta.append((m, typ))
        dist["callbacks"] += len(ls) - 1
    dist.update({"cb_" + k: v for k, v in kinds.items()})
    got = vlib.run_driver(lines)
    dis, seen = [], set()
    for g, e, m, l in zip(got, exp, meta, lines):
        if g != e and m not in seen:
            seen.add(m)
            if len(dis) < 20:
                dis.append({"markup": m[0], "type": m[1], "line": l[:200],
                            "model": dec(g.split()[1]) if g.startswith("P ") else g, "impl": dec(e.split()[1]) if e.startswith("P ") else e})
    res = {"cases": len(lines), "distinct": len(set(zip(lines, exp))), "unmodelled": dist["unmodelled_runs"], "disagreements": dis, "distribution": dist,
            "samples": [{"markup": meta[1][0][:200], "type": meta[1][1]}]}
    import mixlib
    return mixlib.content_corr(ctx, ctx.n(60, 800), into=res)


# ------------------------------------------------------------------ search
CONTEXTS = [("", ""), ("<div>", "</div>"), ("<p>before ", " after</p><p>"), ("<svg>", "</svg>")]


def allowed_tag(name, attrs, insvg_or_math):
    """is this start tag within the documented allow-lists? returns None if fine else a reason"""
    n = name.lower()
    if n in REF_ELEMS:
        ok_attrs = REF_ATTRS | REF_SVG_A_L | REF_MATHML_A if insvg_or_math else REF_ATTRS
    elif n in REF_MATHML_E:
        ok_attrs = REF_MATHML_A | REF_ATTRS
    elif n in REF_SVG_E_L:
        ok_attrs = REF_SVG_A_L | REF_ATTRS
    else:
        return "element <%s> is on no allow-list" % name
    for k, _v in attrs:
        kl = k.lower()
        if kl not in ok_attrs and kl not in ("xmlns", "xmlns:xlink"):
            return "attribute %s on <%s> is on no allow-list" % (k, name)
    return None


def piece_kind(events, out, pos):
    """kind of the output piece in which offset `pos` of the sanitizer output falls"""
    off = 0
    for ev in events:
        n = len(ev["pieces"])
        if off <= pos < off + n:
            return ev["kind"]
        off += n
    return "?"


def judge(out, where, witness, events=None, strip_off=0):
    from oracles import html5tok
    fs = []
    for pre, suf in CONTEXTS:
        toks = html5tok.tokenize(pre + out + suf)
        depth = 1 if pre == "<svg>" else 0
        for t in toks:
            if t.kind == "starttag":
                inside = len(pre) <= t.pos < len(pre) + len(out)
                if inside:
                    why = allowed_tag(t.name, t.attrs, depth > 0)
                    if why:
                        kind = piece_kind(events, out, t.pos - len(pre) + strip_off) if events else "?"
                        key = ("live", kind) if kind in ("text", "comment") else ("live", kind, "element" if "element" in why else "attribute")
                        fs.append(Finding(key, witness,
                                          "%s: %s (output %r%s)" % (where, why, out[:300], " in context %r" % pre if pre else ""), observed=out,
                                          oracle="tools/oracles/html5tok.py"))
                if t.name in ("svg", "math") and not t.self_closing:
                    depth += 1
            elif t.kind == "endtag" and t.name in ("svg", "math") and depth:
                depth -= 1
    seen, res = set(), []
    for f in fs:
        if tuple(f.key) not in seen:
            seen.add(tuple(f.key))
            res.append(f)
    return res


def check_direct(markup, typ):
    from feedparser.sanitizer import sanitize_html
    w = {"markup": markup, "type": typ, "via": "direct"}
    try:
        ev, raw = sanlib.record_sanitizer(markup, typ)
        out = sanitize_html(markup, "utf-8", typ)
    except Exception as e:
        return [Finding(("raises", type(e).__name__), w, "sanitize_html raises %s: %s" % (type(e).__name__, e))]
    # judged on the concatenation of the emitted pieces (sanitize_html only strips it and folds CRLF afterwards)
    return judge(raw, "sanitize_html(%s)" % typ, w, ev, 0)


def esc(s):
    return s.replace("&", "&amp;").replace("<", "&lt;").replace(">", "&gt;")


def embed_doc(rng, markup):
    """a feed carrying the markup in one of the embedding modes; returns (bytes, description)"""
    mode = rng.choice(["rss-escaped", "rss-cdata", "atom-html", "atom-cdata", "atom-base64", "atom-xhtml", "atom-title-html", "rss-title", "json"])
    legal = "".join(c for c in markup if ord(c) >= 32 or c in "\t\n\r")
    if mode == "rss-escaped":
        d = '<rss version="2.0"><channel><title>t</title><item><description>%s</description></item></channel></rss>' % esc(legal)
    elif mode == "rss-cdata":
        d = '<rss version="2.0"><channel><title>t</title><item><description><![CDATA[%s]]></description></item></channel></rss>' % legal.replace("]]>", "]]&gt;")
    elif mode == "rss-title":
        d = '<rss version="2.0"><channel><title>%s</title><item><title>%s</title></item></channel></rss>' % (esc(legal), esc(legal))
    elif mode == "atom-html":
        d = '<feed xmlns="http://www.w3.org/2005/Atom"><title>t</title><entry><content type="html">%s</content><summary type="html">%s</summary></entry></feed>' % (esc(legal), esc(legal))
    elif mode == "atom-title-html":
        d = '<feed xmlns="http://www.w3.org/2005/Atom"><title type="html">%s</title><subtitle type="html">%s</subtitle><rights type="html">%s</rights><entry><title type="html">%s</title></entry></feed>' % ((esc(legal),) * 4)
    elif mode == "atom-cdata":
        d = '<feed xmlns="http://www.w3.org/2005/Atom"><title>t</title><entry><content type="html"><![CDATA[%s]]></content></entry></feed>' % legal.replace("]]>", "]]&gt;")
    elif mode == "atom-base64":
        d = '<feed xmlns="http://www.w3.org/2005/Atom"><title>t</title><entry><content type="text/html" mode="base64">%s</content></entry></feed>' % base64.b64encode(legal.encode("utf-8")).decode()
    elif mode == "atom-xhtml":
        d = '<feed xmlns="http://www.w3.org/2005/Atom"><title>t</title><entry><content type="xhtml"><div xmlns="http://www.w3.org/1999/xhtml">%s</div></content></entry></feed>' % legal
    else:
        d = json.dumps({"version": "https://jsonfeed.org/version/1", "title": "t", "items": [{"id": "1", "content_html": markup}]})
    return d.encode("utf-8"), mode


SAN_FIELDS = ("title", "summary", "subtitle", "rights", "info", "content")


_CP1252 = {128: "\u20ac", 130: "\u201a", 131: "\u0192", 132: "\u201e", 133: "\u2026", 134: "\u2020", 135: "\u2021", 136: "\u02c6", 137: "\u2030", 138: "\u0160",
           139: "\u2039", 140: "\u0152", 142: "\u017d", 145: "\u2018", 146: "\u2019", 147: "\u201c", 148: "\u201d", 149: "\u2022", 150: "\u2013", 151: "\u2014",
           152: "\u02dc", 153: "\u2122", 154: "\u0161", 155: "\u203a", 156: "\u0153", 158: "\u017e", 159: "\u0178"}


def rand_env(rng):
    """everything the caller may set WITHOUT turning sanitization off: the other per-call options, the other module switches, sanitize_html=True spelled out"""
    if rng.random() < 0.5:
        return None
    return {"kw": rng.choice([{}, {"resolve_relative_uris": False}, {"resolve_relative_uris": True}, {"sanitize_html": True}, {"optimistic_encoding_detection": False},
                              {"sanitize_html": True, "resolve_relative_uris": False}]),
            "RESOLVE_RELATIVE_URIS": rng.choice([1, 1, 0]), "OPTIMISTIC_ENCODING_DETECTION": rng.choice([1, 0])}


def check_parse(doc, mode, loose, env=None):
    """parse the carrier document; judge every HTML-typed documented field; the piece kind of an offending token is
    recovered by re-recording the sanitizer call whose return value the field carries (spy on sanitize_html)"""
    import unittest.mock as mock
    import feedparser
    import feedparser.api as api
    import feedparser.mixin as mixin
    import feedparser.parsers.json as pjson
    w = {"doc": doc, "mode": mode, "loose": loose, "via": "parse", "env": env}
    calls = []
    kw = (env or {}).get("kw", {})
    saved_flags = (feedparser.RESOLVE_RELATIVE_URIS, feedparser.OPTIMISTIC_ENCODING_DETECTION)
    real = mixin.sanitize_html

    def spy(src, encoding, typ):
        out = real(src, encoding, typ)
        calls.append((src, typ, out))
        return out
    saved = api._XML_AVAILABLE
    try:
        if loose:
            api._XML_AVAILABLE = False
        if env:
            feedparser.RESOLVE_RELATIVE_URIS, feedparser.OPTIMISTIC_ENCODING_DETECTION = env["RESOLVE_RELATIVE_URIS"], env["OPTIMISTIC_ENCODING_DETECTION"]
        with mock.patch.object(mixin, "sanitize_html", spy), mock.patch.object(pjson, "sanitize_html", spy), warnings.catch_warnings():
            warnings.simplefilter("ignore")
            try:
                r = feedparser.parse(doc, **kw)
            except Exception:
                return []
    finally:
        api._XML_AVAILABLE = saved
        feedparser.RESOLVE_RELATIVE_URIS, feedparser.OPTIMISTIC_ENCODING_DETECTION = saved_flags
    fs = []

    def norm(x):
        return "".join(x.split())

    def judge_value(val, where):
        for src, typ, out in calls:
            if out == val or norm(out) == norm(val) or norm(out.translate(_CP1252)) == norm(val):
                try:
                    ev, raw = sanlib.record_sanitizer(src, typ)
                except Exception:
                    break
                # judge the concatenation of the pieces of THAT call (the field carries it stripped / CRLF-folded)
                fs.extend(judge(raw, where, w, ev, 0))
                return
        fs.extend(judge(val, where, w, None, 0))

    def visit(d, path):
        for k in SAN_FIELDS:
            det = dict.get(d, k + "_detail") if k != "content" else None
            if isinstance(det, dict) and det.get("type") in ("text/html", "application/xhtml+xml") and isinstance(det.get("value"), str):
                judge_value(det["value"], "%s.%s (%s, %s)" % (path, k, mode, det.get("type")))
        c = dict.get(d, "content")
        if isinstance(c, list):
            for i, item in enumerate(c):
                if isinstance(item, dict) and item.get("type") in ("text/html", "application/xhtml+xml") and isinstance(item.get("value"), str):
                    judge_value(item["value"], "%s.content[%d] (%s, %s)" % (path, i, mode, item.get("type")))
        elif isinstance(c, dict) and isinstance(c.get("value"), str) and c.get("type") in ("html", "text/html"):
            judge_value(c["value"], "%s.content (%s)" % (path, mode))
    visit(r.feed, "feed")
    for i, e in enumerate(r.entries):
        visit(e, "entries[%d]" % i)
    seen, res = set(), []
    for f in fs:
        if tuple(f.key) not in seen:
            seen.add(tuple(f.key))
            res.append(f)
    return res


def search(ctx, focus=None):
    rng = ctx.rng
    failures, n, distinct = [], 0, set()
    todo = []
    if focus:
        for d in focus.get("disagreements", []):
            if d.get("markup") is not None:
                todo.append(d["markup"])
                for _ in range(30):
                    todo.append(damage(rng, d["markup"]))
    for m in SEEDS:
        todo.append(m)
    for _ in range(ctx.n(2500, 80000)):
        todo.append(gen_markup(rng))
    for m in todo:
        for typ in (("text/html", "application/xhtml+xml") if rng.random() < 0.3 else (rng.choice(["text/html", "application/xhtml+xml"]),)):
            n += 1
            distinct.add((m, typ))
            failures += check_direct(m, typ)
    for _ in range(ctx.n(300, 8000)):
        m = gen_markup(rng)
        doc, mode = embed_doc(rng, m)
        loose = rng.random() < 0.3
        n += 1
        distinct.add((doc, loose))
        failures += check_parse(doc, mode, loose, rand_env(rng))
    return {"evaluations": n, "distinct_nontrivial": len(distinct), "failures": failures,
            "rule": "tag soup: trees over HTML5 / SVG / MathML vocabularies (allow-listed and not) x attributes (every kind of on* handler, allow-listed, URI, style, "
                    "namespace) x value/quote styles x text/reference/comment/declaration/CDATA/PI children x {well-nested, unclosed, self-closed, mismatched} x "
                    "the caller's other settings (resolve_relative_uris / optimistic_encoding_detection arguments, the module switches RESOLVE_RELATIVE_URIS / OPTIMISTIC_ENCODING_DETECTION, "
                    "sanitize_html=True spelled out) x damage (truncation, inserted <, <!--, ]]>, quotes, NUL, deleted/moved spans) + dangerous payloads wrapped in every non-element construct (comments, declarations, "
                    "marked sections with each keyword, PIs; terminated / mis-terminated / unterminated, with early terminators) + %d literal attack seeds; direct sanitize_html (both types) and "
                    "via parse() in 9 embeddings (escaped, CDATA, base64, inline XHTML, title/subtitle/rights, JSON content_html) x both back ends; the output is "
                    "tokenized by an independent HTML5 tokenizer on its own and inside 3 surrounding contexts (div, paragraph flow, svg); every start tag / attribute must be on the frozen "
                    "reference allow-lists; finding key = (kind of the emitted piece the offending token starts in, element|attribute)" % len(SEEDS),
            "samples": [{"markup": SEEDS[0]}, {"markup": SEEDS[2]}]}


def replay(w):
    if w.get("via") == "parse":
        fs = check_parse(w["doc"], w["mode"], w["loose"], w.get("env"))
    else:
        fs = check_direct(w["markup"], w["type"])
    return (bool(fs), fs[0].what if fs else "output tokenizes to allow-listed elements and attributes only")


TECHNIQUE = "Lean 4 proof: for every allow-list table and every callback sequence the sanitizer filter emits only allow-listed tags/attributes with escaped values; allow-list table theorems on regenerated tables; per-callback correspondence with the real HTMLSanitizer; HTML5-tokenizer oracle search"
LEVEL_TEXT = ("Kernel-checked on M-san: san_pieces_safe (for EVERY table, callback sequence and state: each emitted tag piece has an allow-listed element and "
              "allow-listed attributes for its class with values free of <, >, \"), escapeAttr_ok, script_text_dropped, text_suppressed, pi_decl_dropped (processing instructions, declarations and marked sections emit nothing in any state), "
              "shipped_pieces_safe (instantiated with the regenerated tables); table theorems no_dangerous_elements, no_event_handler_attributes, "
              "unacceptable_disjoint, allowlists_subset_reference re-proved on every run. Tie: the model is stepped on the callback sequence sgmllib delivers to "
              "the real sanitizer and must reproduce every emitted piece and the three counters.")
LEVEL_NOTE = ("Trusted: Lean kernel + standard axioms; sgmllib's tokenization (not modelled) -- the property's statement about the HTML5 tokenization of the OUTPUT "
              "crosses that boundary and is decided end to end by the search with tools/oracles/html5tok.py; three open findings live exactly there (raw '<' in "
              "text pieces, raw tail after a failed tag parse, early-closing comments).")
