"""C06 — declared character encodings are honoured (RFC 3023) and text round-trips."""
import codecs
import encodings.aliases
import re
import warnings

import vlib
from vlib import Finding, enc, dec

LEAN_MODULES = ["FeedVerif.Props.C06", "FeedVerif.Model.EncDriver"]
CORR_OBLIGATIONS = ["M-enc.decide (sniff + parse_content_type + RFC 3023 table + trial order + error selection) ~ encodings.convert_to_utf8",
                    "M-enc.rewriteDecl ~ the XML-declaration rewrite of convert_to_utf8"]
TRUSTED = ["Lean model FeedVerif/Model/Enc.lean of encodings.py:75-334; codecs are the parameter `decodes` (the harness supplies which names decode the data)",
           "chardet is not installed in this sandbox: the lazy_chardet_encoding candidate is modelled as absent",
           "the harness's own copy of the declaration-encoding regex and BOM table (used to compute the model's inputs)"]
ASSUMPTIONS = ["Python codecs decode/encode correctly and round-trip text of their repertoire (library)",
               "media types are compared case-sensitively by the code; generators use lower-case media types"]

HARNESS_RE_PI = re.compile(rb'^<\?[^>]*?encoding\s*=\s*[\'"]([^>]*?)[\'"][^>]*\?>')


def py_sniff(data):
    if data[:4] == b"\x00\x00\xfe\xff":
        return "utf-32be", 4
    if data[:4] == b"\xff\xfe\x00\x00":
        return "utf-32le", 4
    if data[:2] == b"\xfe\xff" and data[2:4] != b"\x00\x00":
        return "utf-16be", 2
    if data[:2] == b"\xff\xfe" and data[2:4] != b"\x00\x00":
        return "utf-16le", 2
    if data[:3] == b"\xef\xbb\xbf":
        return "utf-8", 3
    for sig, name in ((b"\x4c\x6f\xa7\x94", "cp037"), (b"\x00\x3c\x00\x3f", "utf-16be"), (b"\x3c\x00\x3f\x00", "utf-16le"),
                      (b"\x00\x00\x00\x3c", "utf-32be"), (b"\x3c\x00\x00\x00", "utf-32le")):
        if data[:4] == sig:
            return name, 0
    return "", 0


SKIP = {"rot_13", "base64_codec", "bz2_codec", "hex_codec", "quopri_codec", "uu_codec", "zlib_codec", "idna", "punycode", "unicode_escape",
        "raw_unicode_escape", "undefined", "mbcs", "oem", "utf_7", "unicode_internal", "tactis", "charmap", "utf_8_sig", "utf_16", "utf_32"}


def all_codecs():
    names = sorted(set(encodings.aliases.aliases.values()) - SKIP)
    out = []
    for n in names:
        try:
            ci = codecs.lookup(n)
            if not getattr(ci, "_is_text_encoding", True):
                continue
            "<a>".encode(n).decode(n)
        except Exception:
            continue
        out.append(n)
    return out


CODECS = all_codecs()
_REP = {}
BLOCKS = [(0xA1, 0x17F), (0x370, 0x3FF), (0x400, 0x4FF), (0x5D0, 0x5EA), (0x621, 0x64A), (0xE01, 0xE3A), (0x3041, 0x3096), (0x30A1, 0x30FA),
          (0x4E00, 0x9FA5), (0xAC00, 0xD7A3), (0x2010, 0x2027), (0x1F600, 0x1F64F), (0x10400, 0x1044F)]


def repertoire(codec, rng):
    if codec not in _REP:
        chars = []
        import random
        r = random.Random(codec)
        for _ in range(4000):
            lo, hi = r.choice(BLOCKS)
            ch = chr(r.randrange(lo, hi + 1))
            try:
                if ch.encode(codec).decode(codec) == ch and ch.isprintable() and not ch.isspace():
                    chars.append(ch)
            except Exception:
                pass
            if len(chars) >= 40:
                break
        _REP[codec] = chars
    return _REP[codec]


def family(codec):
    n = codecs.lookup(codec).name
    if n.startswith("utf-16") or n.startswith("utf-32"):
        return "utf16/32"
    try:
        if "<".encode(codec) != b"<":
            return "ebcdic-like"
    except Exception:
        return "other"
    if n in ("utf-8", "ascii"):
        return n
    if n.startswith("iso2022") or n == "hz":
        return "stateful"
    return "ascii-compatible"


def same_codec(a, b):
    try:
        na, nb = codecs.lookup(a).name, codecs.lookup(b).name
    except LookupError:
        return False
    if na == nb:
        return True
    fam = {"utf-16": ("utf-16", "utf-16-le", "utf-16-be"), "utf-32": ("utf-32", "utf-32-le", "utf-32-be")}
    for k, v in fam.items():
        if nb == k and na in v:
            return True
    if nb == "gb2312" and na == "gb18030":
        return True
    return False


DECL_LAYOUTS = ['<?xml version="1.0" encoding="%s"?>', "<?xml version='1.0' encoding='%s'?>", '<?xml version="1.0"\n  encoding="%s"\n?>',
                '<?xml version="1.0"\r\n\tencoding="%s" standalone="yes"?>', '<?xml  version = "1.0"  encoding="%s"  ?>', '<?xml version="1.0" encoding="%s"?>\n']


def decl_of(decl_label, layout=0):
    decl = DECL_LAYOUTS[layout] % decl_label if decl_label is not None else ""
    if decl_label == "":
        decl = '<?xml version="1.0"?>'
    return decl


def make_doc(text, codec, decl_label, bom=b"", layout=0, cdata=False):
    """cdata=True: the text is written as a CDATA section (it may then quote markup, e.g. the document's own XML declaration)"""
    decl = decl_of(decl_label, layout)
    t = "<![CDATA[%s]]>" % text if cdata else text
    s = '%s<rss version="2.0"><channel><title>%s</title><item><title>i %s</title></item></channel></rss>' % (decl, t, t)
    return bom + s.encode(codec)


BOMS = {"utf-8": codecs.BOM_UTF8, "utf-16-le": codecs.BOM_UTF16_LE, "utf-16-be": codecs.BOM_UTF16_BE, "utf-32-le": codecs.BOM_UTF32_LE, "utf-32-be": codecs.BOM_UTF32_BE}


def gen_case(rng, force_codecs=None):
    """returns dict(doc, headers, expect) describing one labelled feed"""
    codec = rng.choice(CODECS) if rng.random() < 0.7 else rng.choice(["utf-8", "utf_16_le", "utf_16_be", "utf_32_le", "utf_32_be", "latin_1", "cp1252", "gb2312", "gb2312", "big5", "shift_jis", "koi8_r", "cp037", "cp500"])
    if force_codecs:
        codec = rng.choice(force_codecs)
    rep = repertoire(codec, rng)
    ascii_only = not rep or rng.random() < 0.2
    text = "plain text" if ascii_only else "t" + "".join(rng.choice(rep) for _ in range(rng.randint(1, 12)))
    if not ascii_only and rng.random() < 0.12:
        # long payload, dense in multi-unit characters (for UTF-16 mostly surrogate pairs): whatever window, chunk or prefix length the
        # implementation may use, some character straddles its end
        pool = [c for c in rep if len(c.encode(codec)) >= (4 if family(codec) == "utf16/32" and "16" in codecs.lookup(codec).name else 2)] or rep
        n = rng.choice([120, 250, 500, 1000, 2100, 4200, 9000])
        text = "t" + "".join(rng.choice(pool) if rng.random() < 0.7 else rng.choice("ab c") for _ in range(n)).strip()
        text = " ".join(text.split())
    cname = codecs.lookup(codec).name
    try:
        # pop() "repairs" text whose Latin-1 bytes happen to be valid UTF-8 (a documented heuristic, C02's subject): avoid it here
        text.encode("iso-8859-1").decode("utf-8")
        if not text.isascii():
            return None
    except (UnicodeEncodeError, UnicodeDecodeError):
        pass
    if cname == "gb2312":
        # documented upgrade to gb18030: a few code points differ between the two Python codecs
        try:
            if text.encode("gb2312").decode("gb18030") != text:
                return None
        except Exception:
            return None
    label = rng.choice([codec, cname, codec.upper(), cname.upper(), cname.replace("-", "_"), cname.title()]) if rng.random() < 0.6 else codec
    channel = rng.choice(["decl", "http-app", "http-text", "both", "bom", "signature", "disagree-app", "disagree-text", "text-nocharset", "nonxml", "bogus-http", "bogus-decl", "app-nocharset"])
    fam = family(codec)
    headers, decl, bom = {}, None, b""
    other = rng.choice(["iso-8859-1", "utf-8", "windows-1252", "koi8-r"])
    expect = {"text": text, "codec": codec, "clean": True, "exc": None}
    if channel == "decl":
        decl = label
    elif channel == "app-nocharset":
        # application/*xml without a charset parameter: the XML declaration decides (RFC 3023), with or without a BOM in front of it
        headers = {"content-type": rng.choice(["application/xml", "application/atom+xml", "application/rss+xml"])}
        decl = label
        if cname in BOMS and rng.random() < 0.5:
            bom = BOMS[cname]
            if fam == "utf16/32":
                decl = rng.choice([cname[:6], cname[:6].upper(), label])
    elif channel == "http-app":
        headers = {"content-type": rng.choice(["application/xml", "application/atom+xml", "application/rss+xml", "application/xml-dtd"]) + "; charset=" + label}
        decl = "" if rng.random() < 0.5 else None
        if fam == "ebcdic-like" or (fam == "utf16/32" and decl == ""):
            pass
    elif channel == "http-text":
        headers = {"content-type": rng.choice(["text/xml", "text/xml-external-parsed-entity", "text/rdf+xml"]) + '; charset="%s"' % label}
        decl = rng.choice([None, "", other]) if fam not in ("utf16/32", "ebcdic-like") else None
    elif channel == "both":
        headers = {"content-type": "application/xml; charset=" + label}
        decl = label
    elif channel == "bom":
        if cname not in BOMS:
            return None
        bom = BOMS[cname]
        decl = rng.choice([None, ""])
        if cname.startswith("utf-16") or cname.startswith("utf-32"):
            decl = rng.choice([None, "", cname[:6], cname[:6].upper(), "utf%s" % cname[4:6]])
    elif channel == "signature":
        if fam != "utf16/32":
            return None
        decl = rng.choice(["", cname[:6], cname, "UTF-%s" % cname[4:6]])
    elif channel == "disagree-app":
        headers = {"content-type": "application/xml; charset=" + label}
        decl = other if fam not in ("utf16/32", "ebcdic-like") else None
    elif channel == "disagree-text":
        headers = {"content-type": "text/xml; charset=" + label}
        decl = other if fam not in ("utf16/32", "ebcdic-like") else None
    elif channel == "text-nocharset":
        if fam in ("utf16/32", "ebcdic-like", "stateful"):
            return None
        headers = {"content-type": "text/xml"}
        decl = label
        # documented: text/*xml without charset is us-ascii, declaration ignored
        try:
            make_doc(text, codec, decl).decode("ascii")
            expect.update(codec="ascii")
        except UnicodeDecodeError:
            expect.update(clean=False, exc="CharacterEncodingOverride")
    elif channel == "nonxml":
        # text/* honours the charset parameter; other non-XML types fall back to the declaration (charset ignored)
        if fam in ("utf16/32", "ebcdic-like", "stateful"):
            return None
        if rng.random() < 0.5:
            headers = {"content-type": rng.choice(["text/plain", "text/html"]) + "; charset=" + label}
            decl = rng.choice([None, label])
        else:
            headers = {"content-type": rng.choice(["application/octet-stream", "image/png"])}
            decl = label
        expect.update(clean=False, exc="NonXMLContentType")
    elif channel == "bogus-http":
        if fam not in ("utf-8", "ascii") and not (ascii_only and fam == "ascii-compatible"):
            return None
        headers = {"content-type": "application/xml; charset=x-no-such-codec"}
        decl = None
        expect.update(clean=False, exc="CharacterEncodingOverride", codec="utf-8")
        text_ok = True
    elif channel == "bogus-decl":
        if fam not in ("utf-8", "ascii") and not (ascii_only and fam == "ascii-compatible"):
            return None
        decl = "x-no-such-codec"
        expect.update(clean=False, exc="CharacterEncodingOverride", codec="utf-8")
    if headers and "; charset=" in headers.get("content-type", "") and rng.random() < 0.3:
        # other media-type parameters BEFORE the charset (RFC 5023's type=feed, qs=, version=, profile=): the charset parameter counts wherever it stands
        headers = dict(headers, **{"content-type": headers["content-type"].replace("; charset=", "; %s; charset=" % rng.choice(["type=feed", "qs=0.9", 'version="1.0"', "profile=x", "type=entry; q=1"]), 1)})
    layout = rng.randrange(len(DECL_LAYOUTS)) if rng.random() < 0.4 else 0
    cdata = False
    if decl and rng.random() < 0.12 and "]]>" not in text:
        # the text QUOTES the document's own XML declaration, byte for byte (a post about feed encodings): it is character data like any other
        text = text + " " + decl_of(decl, layout).strip() + " quoted"
        expect["text"] = text.replace("\r\n", "\n")          # XML line-end normalisation applies inside CDATA too
        cdata = True
    try:
        doc = make_doc(text, codec, decl, bom, layout, cdata)
    except Exception:
        return None
    if channel in ("bogus-http", "bogus-decl"):
        try:
            doc.decode("utf-8")
        except UnicodeDecodeError:
            return None
    if fam == "ebcdic-like" and channel in ("http-app", "http-text", "disagree-app", "disagree-text", "nonxml") and decl is None:
        pass
    return {"doc": doc, "headers": headers, "expect": expect, "channel": channel, "family": fam, "label": label, "decl": decl}


def run_convert(headers, data):
    import feedparser.encodings as E
    result = {}
    out = E.convert_to_utf8(headers, data, result)
    exc = result.get("bozo_exception")
    return result.get("encoding"), type(exc).__name__ if exc is not None else "none", result.get("content-type"), out


def model_line(headers, data):
    bom, skip = py_sniff(data)
    d = data[skip:]
    tempdata = d
    m = None
    try:
        if bom:
            tempdata = d.decode(bom).encode("utf-8")
        m = HARNESS_RE_PI.match(tempdata)
    except UnicodeDecodeError:
        m = None
    try:
        xml = m.groups()[0].decode("utf-8").lower() if m else ""
    except UnicodeDecodeError:
        return None          # the real code raises here (C01 finding); outside the model
    ct = headers.get("content-type") or ""
    # which names decode the (BOM-stripped) data
    names = {xml, bom, "utf-8", "windows-1252", "iso-8859-2", "us-ascii", "iso-8859-1", "gb18030"}
    if ";" in ct:
        for chunk in ct.split(";")[1:]:
            k, _, v = chunk.partition("=")
            if k.strip().lower() == "charset":
                names.add(v.strip().strip("\"'"))
    ok = []
    for nme in names:
        if not nme:
            continue
        try:
            # "decodes" = decodes to TEXT: a few codecs (utf-7, unicode_escape) hand back lone surrogates, which are no characters (fix: ffd5db4)
            d.decode(nme).encode("utf-8")
            ok.append(nme)
        except (UnicodeError, LookupError):
            pass
        except ValueError:
            return None      # e.g. NUL inside a codec name: outside the model (C01's subject)
    head = ["%x" % b for b in data[:4]] + ["-"] * (4 - len(data[:4]))
    looks_json = bool(d) and d.lstrip().startswith(b"{")
    return "enc decide %s %s %d %d %s %d %s" % (" ".join(head), enc(xml), bool(headers), "content-type" in headers, enc(ct), looks_json,
                                                 " ".join(enc(n) for n in sorted(ok)))


JUNK = [b"", b"\x00", b"\xff\xfe", b"\xfe\xff\x00\x00", b"\xff\xfe\x00\x00", b"{\"a\":1}", b"  {\"version\":1}", b"<?xml version='1.0' encoding='utf-16'?><a/>",
        b"\xef\xbb\xbf<?xml version='1.0' encoding=\"u16\"?><a/>", b"<?xml encoding='GB2312'?><a/>", b"\x80\x81\x82", b"<a>\xe9</a>", b"\x4c\x6f\xa7\x94", b"<?xml\nversion='1.0'\nencoding='utf-8'\n?><a/>",
        b"<?xml version='1.0' encoding='iso-8859-1' standalone='yes'?>\n<a>\xe9</a>", b"\x8f\x90\x9d\x81", b"<?xml version='1.0'?><?xml-stylesheet href='x'?><a/>", b"<!-- c --><a/>",
        # data that its declared codec decodes to a LONE SURROGATE
        b"<?xml version='1.0' encoding='utf-7'?><a>x+2AA-y</a>", b"<?xml version='1.0' encoding='unicode_escape'?><a>x\\ud800y</a>", b"<a>+3/8-</a>", b"<a>\\udfff</a>"]
HDRS = [{}, {"content-type": "application/xml"}, {"content-type": "text/xml"}, {"content-type": "text/plain"}, {"content-type": "application/json"}, {"content-type": ""},
        {"content-length": "5"}, {"content-type": "application/atom+xml;charset=UTF-8;x=y"}, {"content-type": "text/xml; charset='gb2312'"}, {"content-type": "application/feed+json; charset=utf-16"},
        {"content-type": "application/xml; Charset = \"koi8-r\" "}, {"content-type": "image/svg+xml"}, {"content-type": "text/x+xml"}, {"content-type": "application/+xml"}, {"content-type": ";charset=utf-8"},
        {"content-type": "application/xml; charset=utf-7"}, {"content-type": "text/xml; charset=raw_unicode_escape"}]


def correspondence(ctx):
    rng = ctx.rng
    lines, exp, meta = [], [], []
    dist = {"decide": 0, "rewrite": 0, "err_none": 0, "err_Override": 0, "err_NonXML": 0, "err_Unknown": 0}
    cases = []
    for _ in range(ctx.n(1500, 25000)):
        c = gen_case(rng)
        if c:
            cases.append((c["headers"], c["doc"]))
    for j in JUNK:
        for h in HDRS:
            cases.append((h, j))
    for i, c in enumerate(boundary_cases(ctx.thorough)):
        if ctx.thorough or i % 3 == 0:
            cases.append((c["headers"], c["doc"]))
    for _ in range(ctx.n(300, 5000)):
        c = gen_case(rng)
        if c:
            cases.append((rng.choice(HDRS), c["doc"]))
            d = bytearray(c["doc"])
            if d:
                d[rng.randrange(len(d))] = rng.randrange(256)
            cases.append((c["headers"], bytes(d)))
    for headers, data in cases:
        try:
            encn, errn, ctype, out = run_convert(headers, data)
        except Exception as e:
            encn, errn, ctype, out = "raises", type(e).__name__, "", b""
        ml = model_line(headers, data)
        if ml is None:
            dist["unmodelled"] = dist.get("unmodelled", 0) + 1
            continue
        lines.append(ml)
        exp.append("%s %s %s" % (enc(encn), errn, enc(ctype)))
        meta.append({"headers": headers, "data": data})
        dist["decide"] += 1
        dist["err_" + {"none": "none", "CharacterEncodingOverride": "Override", "NonXMLContentType": "NonXML", "CharacterEncodingUnknown": "Unknown"}.get(errn, "none")] += 1
        if encn and encn != "raises":
            _bom, skip = py_sniff(data)
            try:
                text = data[skip:].decode(encn)
            except Exception:
                continue
            is_json = ctype in ("application/feed+json", "application/json") and (ctype != (headers.get("content-type") or "").split(";")[0].strip() or ctype in ("application/feed+json", "application/json"))
            lines.append("enc rewrite %d %s" % (is_json, enc(text)))
            try:
                exp.append(enc(out.decode("utf-8")))
            except Exception:
                exp.append("undecodable-output")
            meta.append({"headers": headers, "data": data, "what": "rewrite"})
            dist["rewrite"] += 1
    got = vlib.run_driver(lines)
    dis = []
    for g, e, m in zip(got, exp, meta):
        if g != e and len(dis) < 20:
            dis.append({"input": m, "model": g if len(g) < 200 else g[:200], "impl": e if len(e) < 200 else e[:200]})
    return {"cases": len(lines), "distinct": len(set(lines)), "unmodelled": dist.get("unmodelled", 0), "disagreements": dis, "distribution": dist,
            "samples": [{"line": lines[0][:200], "impl": exp[0]}]}


# ------------------------------------------------------------------ search
def check_case(c):
    import feedparser
    w = {"doc": c["doc"], "headers": c["headers"], "expect": c["expect"], "channel": c["channel"], "family": c["family"]}
    ex = c["expect"]
    with warnings.catch_warnings():
        warnings.simplefilter("ignore")
        try:
            r = feedparser.parse(c["doc"], response_headers=c["headers"])
        except Exception as e:
            return None      # totality is C01's subject
    # EBCDIC code pages: the finding is "the '<?xm' marker maps every EBCDIC page to cp037, so the DECLARATION of another page is mis-read"; it is the same
    # mechanism whether there are no headers at all or an application/*xml type without charset (in both the declaration is what labels the feed)
    key = (c["channel"], c["family"]) if c["family"] != "ebcdic-like" else ("decl" if c["channel"] == "app-nocharset" else c["channel"], c["family"], codecs.lookup(c["expect"]["codec"]).name)
    got_exc = type(r.get("bozo_exception")).__name__ if r.bozo else None
    title = r.feed.get("title")
    encn = r.get("encoding")
    def bad(kind, msg):
        return Finding(key + (kind,), w, "channel=%s codec=%s label=%r decl=%r headers=%r: %s" % (c["channel"], ex["codec"], c["label"], c["decl"], c["headers"], msg),
                       observed={"encoding": encn, "bozo_exception": got_exc, "title": title}, expected=ex)
    if ex["clean"]:
        if r.bozo:
            return bad("bozo", "correctly labelled feed reported bozo=%r (%s: %s), encoding %r" % (r.bozo, got_exc, r.get("bozo_exception"), encn))
        if title != ex["text"]:
            return bad("text", "text did not round-trip: title %r, expected %r (encoding reported %r)" % (title, ex["text"], encn))
        if not same_codec(encn, ex["codec"]):
            return bad("name", "encoding reported as %r, expected %r (or its byte-order-specific name)" % (encn, ex["codec"]))
        try:
            if codecs.lookup(ex["codec"]).name == "gb2312" and encn != "gb18030":
                return bad("gb2312-not-upgraded", "a gb2312 feed is documented to be read as gb18030 whatever the spelling of the label; encoding reported as %r" % (encn,))
        except LookupError:
            pass
    else:
        if got_exc != ex["exc"]:
            return bad("exc", "expected bozo_exception %s, got %s (%s)" % (ex["exc"], got_exc, r.get("bozo_exception")))
        if title != ex["text"]:
            return bad("text", "feed text %r, expected %r although the document is decodable (encoding reported %r)" % (title, ex["text"], encn))
        if ex["exc"] == "CharacterEncodingOverride":
            try:
                _b, skip = py_sniff(c["doc"])
                c["doc"][skip:].decode(encn)
            except Exception:
                return bad("name", "Override reported but encoding %r does not decode the document" % (encn,))
    return None


def boundary_cases(thorough):
    """deterministic alignment sweep: a multi-unit character (UTF-16 surrogate pair, 2-4 byte sequence of a multi-byte codec) placed so that it straddles
    byte offset B of the document, for every power of two B a sniffing window / chunk / prefix could end at, labelled through each channel that makes
    the implementation look for the declaration"""
    wide = {"utf_16_le": "😀", "utf_16_be": "😀", "utf_32_le": "😀", "utf_8": "😀", "shift_jis": "あ", "gb18030": "😀", "big5": "中", "euc_kr": "한"}
    bounds = [2 ** k for k in ((6, 7, 8, 9, 10, 11, 12, 13, 14, 16) if thorough else (8, 9, 10, 11, 12, 13, 16))]
    for codec, ch in wide.items():
        cname = codecs.lookup(codec).name
        fam = family(codec)
        w = len(ch.encode(codec))
        for B in bounds:
            for shift in range(1, w):                        # the boundary falls after `shift` bytes of the character
                for channel in ("app-nocharset", "decl", "http-app"):
                    for with_bom in ((False, True) if cname in BOMS else (False,)):
                        bom = BOMS[cname] if with_bom else b""
                        label = cname[:6] if fam == "utf16/32" else cname
                        decl = label if channel != "http-app" else ""
                        headers = {} if channel == "decl" else {"content-type": "application/xml" + ("; charset=" + cname if channel == "http-app" else "")}
                        head = make_doc("", codec, decl, bom).split("</title>".encode(codec))[0]      # everything up to the first title's text
                        unit = len("a".encode(codec))
                        pad = B - shift - len(head)
                        if pad < 0 or pad % unit:
                            continue
                        text = "a" * (pad // unit) + ch * 3 + " z"
                        doc = make_doc(text, codec, decl, bom)
                        assert doc[B - shift:B - shift + w] == ch.encode(codec), (codec, B, shift)
                        yield {"doc": doc, "headers": headers, "expect": {"text": text, "codec": codec, "clean": True, "exc": None}, "channel": channel, "family": fam,
                               "label": label, "decl": decl}


def search(ctx, focus=None):
    rng = ctx.rng
    failures, n, distinct = [], 0, set()
    dist = {}
    for c in boundary_cases(ctx.thorough):
        n += 1
        distinct.add((c["doc"], str(c["headers"])))
        dist["boundary/" + c["family"]] = dist.get("boundary/" + c["family"], 0) + 1
        f = check_case(c)
        if f:
            failures.append(f)
    force = None
    if focus and focus.get("disagreements"):
        # steer the generator towards the codecs / labels named in the disagreeing correspondence inputs
        force = []
        for d in focus["disagreements"]:
            inp = d.get("input", {})
            blob = (str(inp.get("headers")) + " " + str(inp.get("data", b"")[:200])).lower()
            for cn in CODECS:
                if cn.replace("_", "-") in blob or cn in blob or codecs.lookup(cn).name in blob:
                    force.append(cn)
        force = sorted(set(force)) or None
    for _ in range(ctx.n(1500, 40000)):
        c = gen_case(rng, force if (force and rng.random() < 0.8) else None)
        if not c:
            continue
        n += 1
        distinct.add((c["doc"], str(c["headers"])))
        k = c["channel"] + "/" + c["family"]
        dist[k] = dist.get(k, 0) + 1
        f = check_case(c)
        if f:
            failures.append(f)
    return {"evaluations": n, "distinct_nontrivial": len(distinct), "failures": failures, "distribution": dist,
            "rule": "%d Python text codecs x label channels {declaration, HTTP charset with application/*xml and text/*xml, both, BOM only, '<?xm' signature, "
                    "disagreeing channels, other media-type parameters before the charset, text/xml without charset, application/*xml without charset, non-XML media types, bogus names} x label spellings (alias, canonical, upper case, "
                    "underscore) x payloads drawn from each codec's repertoire (one in eight declared documents quotes its own XML declaration in a CDATA section) (non-ASCII in 80%% of cases; one in eight 120-9000 characters long and dense in multi-unit characters / surrogate pairs); oracle: text round-trips, encoding names the codec "
                    "(or byte-order-specific / gb18030), bozo unset, or the documented exception class; plus a deterministic alignment sweep (a surrogate pair / multi-byte "
                    "sequence straddling every power-of-two byte offset 2^8..2^16, each split point, x {declaration only, application/xml without charset, HTTP charset} x BOM or not, "
                    "for UTF-16/32, UTF-8, Shift_JIS, GB18030, Big5, EUC-KR); distinct = distinct (document, headers)" % len(CODECS),
            "samples": [{"channel": "bom", "codec": "utf_16_le", "decl": None}, {"channel": "http-text", "codec": "koi8_r", "decl": "iso-8859-1"}]}


def long_stateful_doc(codec):
    """a correctly labelled feed in an escape-sequence encoding, longer than the 64 KiB detection prefix (deterministic)"""
    import random
    rng = random.Random("long/" + codec)
    rep = repertoire(codec, rng)
    text = "t" + "".join(rng.choice(rep) for _ in range(40000))          # no ASCII inside: the prefix boundary falls where an escape sequence is in force
    return make_doc(text, codec, None), text


def replay(w):
    if w.get("construct") == "long-stateful":
        doc, text = long_stateful_doc(w["codec"])
        w = {"doc": doc, "headers": {"content-type": "application/rss+xml; charset=" + w["codec"]}, "expect": {"text": text, "codec": w["codec"], "clean": True, "exc": None},
             "channel": "http-app", "family": "stateful"}
    c = {"doc": w["doc"], "headers": w["headers"], "expect": w["expect"], "channel": w["channel"], "family": w["family"], "label": "?", "decl": "?"}
    f = check_case(c)
    return (f is not None, f.what if f else "feed decoded as labelled")


TECHNIQUE = "Lean 4 proof of the RFC 3023 decision table, trial order and error selection for arbitrary codec behaviour + sniffing and declaration-rewrite theorems; differential correspondence with convert_to_utf8; codec x channel oracle search"
LEVEL_TEXT = ("Kernel-checked on M-enc for an arbitrary `decodes` predicate: rfc3023_application / rfc3023_text / text_xml_ignores_declaration / rfc3023_no_headers "
              "(the documented precedence per media class, BOM included), correctly_labelled_clean, override_iff, override_reports_used_codec, unknown_iff, "
              "nonxml_still_decoded, gb2312_upgraded, generic_name_normalised, sniff_boms / sniff_signatures, decl_rewrite_only_decl / decl_rewrite_prepends. Tie: "
              "the model (which sniffs the BOM and parses the Content-Type itself) is run against convert_to_utf8 on labelled feeds, junk and byte-mutated documents.")
LEVEL_NOTE = ("Trusted: Lean kernel + standard axioms; Python codecs (parameter `decodes`, supplied per case by the harness); chardet absent; the harness's own "
              "declaration regex; text round-trip itself is a codec fact, checked end to end by the search only.")
