#!/venv/bin/python
"""./check <Cxx> <quick|thorough>   |   ./check <Cxx> --replay <file>

Verdict logic (DESIGN.md §3.4), uniform for all properties:
  1. regenerate tables from /repo, `lake build` the property's Props modules, audit axioms, hygiene
  2. correspondence: model (Lean driver) vs implementation on corpus + generated cases
  3. failing-input search on the real implementation with an independent oracle
  4. verdict:
     - concrete failure whose key is not an open known finding  -> VIOLATION (replay = the input)
     - broken proof stage or correspondence disagreement        -> intensified search; concrete
       failure -> VIOLATION with it; none -> VIOLATION ... no-failing-input-found
     - else KNOWN-FINDING lines for open findings whose stored witness still fails; exit 0
  5. evidence/<Cxx>.json
exit 2 = infrastructure problem (timeout, driver crash), never a VIOLATION.
"""
import importlib
import json
import os
import sys
import time
import traceback

sys.path.insert(0, os.path.dirname(os.path.abspath(__file__)))
import vlib
from vlib import ROOT, Ctx, Finding, InfraError, jsonable


def write_replay(prop, payload):
    d = os.path.join(ROOT, "replays", prop)
    os.makedirs(d, exist_ok=True)
    n = 0
    while os.path.exists(os.path.join(d, "%d.json" % n)):
        n += 1
    p = os.path.join(d, "%d.json" % n)
    payload = dict(payload)
    payload["property"] = prop
    payload["rerun"] = "./check %s --replay %s" % (prop, os.path.relpath(p, ROOT))
    with open(p, "w") as f:
        json.dump(jsonable(payload), f, indent=1, ensure_ascii=False)
    return os.path.relpath(p, ROOT)


def main():
    if len(sys.argv) < 3:
        print(__doc__)
        return 2
    prop = sys.argv[1]
    mod = importlib.import_module("props." + prop)
    if sys.argv[2] == "--replay":
        rp = json.load(open(sys.argv[3]))
        if rp.get("kind") == "obligation":
            print("replay names an obligation, not an input: %s" % rp.get("obligation"))
            print("re-run ./check %s quick to re-check it" % prop)
            return 0
        fails, detail = mod.replay(vlib.unjson(rp["witness"]))
        print("replay %s: %s -- %s" % (sys.argv[3], "STILL FAILS" if fails else "passes", detail))
        return 1 if fails else 0

    tier = sys.argv[2]
    assert tier in ("quick", "thorough"), tier
    seed = int(os.environ.get("VERIF_SEED", "0") or 0)
    ctx = Ctx(prop, tier, seed)
    t0 = time.time()
    out_lines = []
    violations = []          # (replay path, suffix)

    # ---- 1. proof stage
    lean = vlib.lean_stage(mod.LEAN_MODULES, recheck=(tier == "thorough"))
    print("[%s] proof stage: %s (%d theorems, %.1fs)%s" % (
        prop, "ok" if lean.ok else "BROKEN", len(lean.theorems), lean.wall,
        "" if lean.ok else " -- " + " | ".join(lean.problems)))
    if lean.changed_tables:
        print("[%s] regenerated tables changed: %s" % (prop, ", ".join(lean.changed_tables)))

    # ---- 2. correspondence
    corr = {"cases": 0, "distinct": 0, "disagreements": [], "distribution": {}, "unmodelled": 0, "samples": []}
    corr_broken = None
    if hasattr(mod, "correspondence"):
        try:
            corr = mod.correspondence(ctx)
        except InfraError as e:
            if lean.ok:
                raise
            corr_broken = "correspondence could not run (model does not build): %s" % e
        print("[%s] correspondence: %d cases, %d distinct, %d unmodelled, %d disagreements" % (
            prop, corr.get("cases", 0), corr.get("distinct", 0), corr.get("unmodelled", 0), len(corr.get("disagreements", []))))

    # ---- 3. search
    srch = mod.search(ctx, focus=None)
    failures = list(srch.get("failures", []))
    print("[%s] search: %d evaluations, %d distinct non-trivial, %d failing" % (
        prop, srch.get("evaluations", 0), srch.get("distinct_nontrivial", 0), len(failures)))

    # ---- known findings: replay stored witnesses
    known = vlib.load_known(prop)
    open_keys = {}
    known_lines = []
    for k in known:
        fails, detail = mod.replay(vlib.unjson(k["witness"]))
        if k["status"] == "open":
            open_keys[tuple(k["key"])] = k
            if fails:
                known_lines.append("KNOWN-FINDING: property=%s %s -- %s" % (prop, "/".join(k["key"]), k["what"]))
            else:
                print("[%s] note: open finding %s no longer reproduces (%s)" % (prop, "/".join(k["key"]), detail))
        else:  # fixed: must pass; if it fails again it is an ordinary violation
            if fails:
                failures.append(Finding(k["key"], k["witness"], "regression of fixed finding: " + k["what"], observed=detail))

    new = [f for f in failures if tuple(f.key) not in open_keys]

    # ---- 4. verdict
    broken = []
    if not lean.ok:
        broken += ["proof: " + p for p in lean.problems]
    if corr_broken:
        broken.append(corr_broken)
    for d in corr.get("disagreements", [])[:3]:
        broken.append("correspondence: model and implementation differ on %s" % json.dumps(jsonable(d), ensure_ascii=False)[:300])

    if not new and broken:
        # intensified search seeded with the disagreeing inputs
        print("[%s] proof stage / correspondence broken -> intensified failing-input search" % prop)
        ctx2 = Ctx(prop, "thorough", seed + 7919)
        ctx2.scale = 1          # the intensified search of a quick run uses the unscaled thorough counts
        focus = {"disagreements": corr.get("disagreements", []), "problems": lean.problems,
                 "changed_tables": lean.changed_tables}
        try:
            srch2 = mod.search(ctx2, focus=focus)
            new = [f for f in srch2.get("failures", []) if tuple(f.key) not in open_keys]
            srch["evaluations"] = srch.get("evaluations", 0) + srch2.get("evaluations", 0)
        except InfraError:
            raise
    seen = set()
    for f in new:
        if tuple(f.key) in seen:
            continue
        seen.add(tuple(f.key))
        rp = write_replay(prop, {"kind": "input", "key": f.key, "witness": f.witness, "what": f.what,
                                 "observed": f.observed, "expected": f.expected, "oracle": f.oracle,
                                 "broken_obligations": broken})
        violations.append((rp, ""))
        print("[%s] failing input: key=%s -- %s" % (prop, "/".join(f.key), f.what))
    if not new and broken:
        rp = write_replay(prop, {"kind": "obligation", "obligation": broken,
                                 "disagreements": corr.get("disagreements", [])[:5],
                                 "build_log_tail": lean.build_log[-3000:] if not lean.ok else "",
                                 "note": "the theorem(s) / correspondence named here no longer check against the working tree; "
                                         "the intensified search found no concrete failing input"})
        violations.append((rp, " no-failing-input-found"))

    # ---- 5. evidence
    obligations = list(lean.theorems) + ["correspondence:" + n for n in getattr(mod, "CORR_OBLIGATIONS", [])]
    discharged = (len(lean.theorems) if lean.ok else 0) + (
        len(getattr(mod, "CORR_OBLIGATIONS", [])) if not corr.get("disagreements") and not corr_broken else 0)
    ev = {
        "property_id": prop, "tier": tier, "seed": seed, "level": "proof",
        "coverage": {
            "obligations": len(obligations), "discharged": discharged,
            "obligation_names": obligations,
            "checker_cmd": lean.build_cmd + " && lake env lean <#print axioms of every theorem> && hygiene grep",
            "trusted_base": getattr(mod, "TRUSTED", []) + [
                "Lean 4.33 kernel; axioms allowed: propext, Classical.choice, Quot.sound (audited per theorem: %s)"
                % json.dumps({k: v for k, v in list(lean.axioms.items())[:50]}),
                "tools/translate.py (tables read from the imported working tree)",
                "correspondence harness + generators (what they do not generate, the tie does not see)",
            ],
            "evaluations": int(srch.get("evaluations", 0)) + int(corr.get("cases", 0)),
            "distinct_nontrivial": int(srch.get("distinct_nontrivial", 0)),
            "rule": srch.get("rule", ""),
            "samples": (srch.get("samples", []) + corr.get("samples", []))[:12] or ["(none)"],
            "correspondence": {k: corr.get(k) for k in ("cases", "distinct", "unmodelled", "distribution")}
                              | {"disagreements": len(corr.get("disagreements", []))},
            "search": {k: srch.get(k) for k in ("evaluations", "distinct_nontrivial", "distribution") if k in srch},
            "known_findings_replayed": len(known),
            "exhaustive": bool(srch.get("exhaustive", False)),
        },
        "assumptions": getattr(mod, "ASSUMPTIONS", []),
        "wall_s": round(time.time() - t0, 2),
        "violations": len(violations),
    }
    os.makedirs(os.path.join(ROOT, "evidence"), exist_ok=True)
    with open(os.path.join(ROOT, "evidence", prop + ".json"), "w") as f:
        json.dump(jsonable(ev), f, indent=1, ensure_ascii=False)

    for l in known_lines:
        print(l)
    for rp, suffix in violations:
        print("VIOLATION property=%s replay=%s%s" % (prop, rp, suffix))
    print("[%s] %s tier done in %.1fs: %s" % (prop, tier, time.time() - t0, "VIOLATION" if violations else "ok"))
    return 1 if violations else 0


if __name__ == "__main__":
    try:
        sys.exit(main())
    except InfraError as e:
        print("INFRASTRUCTURE ERROR: %s" % e)
        sys.exit(2)
    except Exception:
        traceback.print_exc()
        print("INFRASTRUCTURE ERROR (exception in check machinery)")
        sys.exit(2)
