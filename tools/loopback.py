"""Loopback HTTP fixtures for C17: a scripted well-behaved server (http.server) and a raw-socket server for
transport faults.  Everything binds 127.0.0.1 on an ephemeral port inside the harness process."""
import http.server
import socket
import socketserver
import threading


class Scripted:
    """GET /<id> -> the scripted response (status, headers list, body, optional redirect chain handled by ids)"""

    def __init__(self):
        self.table = {}
        outer = self

        class H(http.server.BaseHTTPRequestHandler):
            protocol_version = "HTTP/1.1"

            def log_message(self, *a):
                pass

            def do_GET(self):
                spec = outer.table.get(self.path.split("?")[0])
                if spec is None:
                    self.send_response(404)
                    self.send_header("Content-Length", "0")
                    self.end_headers()
                    return
                status, headers, body = spec
                self.send_response_only(status)
                names = {k.lower() for k, _ in headers}
                for k, v in headers:
                    self.send_header(k, v)
                if "content-length" not in names and "transfer-encoding" not in names:
                    self.send_header("Content-Length", str(len(body)))
                if "connection" not in names:
                    self.send_header("Connection", "close")
                self.end_headers()
                self.wfile.write(body)
                self.close_connection = True
        self.httpd = socketserver.ThreadingTCPServer(("127.0.0.1", 0), H)
        self.httpd.daemon_threads = True
        self.port = self.httpd.server_address[1]
        self.thread = threading.Thread(target=self.httpd.serve_forever, kwargs={"poll_interval": 0.05}, daemon=True)
        self.thread.start()

    def url(self, path):
        return "http://127.0.0.1:%d%s" % (self.port, path)

    def close(self):
        self.httpd.shutdown()
        self.httpd.server_close()


class Raw:
    """accepts one connection per call to serve(): reads the request head, writes `payload` (bytes), then closes
    (optionally with RST, optionally stalling instead of closing)"""

    def __init__(self):
        self.sock = socket.socket()
        self.sock.bind(("127.0.0.1", 0))
        self.sock.listen(8)
        self.port = self.sock.getsockname()[1]
        self.script = None
        self.alive = True
        self.thread = threading.Thread(target=self._loop, daemon=True)
        self.thread.start()

    def _loop(self):
        import struct
        import time
        while self.alive:
            try:
                self.sock.settimeout(0.2)
                conn, _ = self.sock.accept()
            except (socket.timeout, OSError):
                continue
            script = self.script or {}
            try:
                conn.settimeout(1.0)
                if not script.get("no_read"):
                    buf = b""
                    while b"\r\n\r\n" not in buf and len(buf) < 65536:
                        d = conn.recv(4096)
                        if not d:
                            break
                        buf += d
                payload = script.get("payload", b"")
                if payload:
                    conn.sendall(payload)
                if script.get("stall"):
                    time.sleep(script["stall"])
                if script.get("rst"):
                    conn.setsockopt(socket.SOL_SOCKET, socket.SO_LINGER, struct.pack("ii", 1, 0))
            except OSError:
                pass
            finally:
                try:
                    conn.close()
                except OSError:
                    pass

    def url(self, path="/"):
        return "http://127.0.0.1:%d%s" % (self.port, path)

    def close(self):
        self.alive = False
        try:
            self.sock.close()
        except OSError:
            pass


def closed_port():
    s = socket.socket()
    s.bind(("127.0.0.1", 0))
    p = s.getsockname()[1]
    s.close()
    return p
