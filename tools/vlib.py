"""Shared machinery for the checks: Lean stage (translator + lake build + axiom audit + hygiene),
model driver, line-protocol encoding, known findings, evidence and replay files, verdict."""
import fcntl
import json
import os
import random
import re
import subprocess
import sys
import time

ROOT = os.path.dirname(os.path.dirname(os.path.abspath(__file__)))
LEAN = os.path.join(ROOT, "lean")
REPO = os.environ.get("VERIF_REPO", "/repo")
PY = "/venv/bin/python"
ALLOWED_AXIOMS = {"propext", "Classical.choice", "Quot.sound"}
HYGIENE_RE = re.compile(r"\bsorry\b|\badmit\b|^\s*axiom\s|native_decide|bv_decide|implemented_by|\bunsafe\s|maxHeartbeats\s+0")

if REPO not in sys.path:
    sys.path.insert(0, REPO)


# ------------------------------------------------------------------ protocol
def enc(s):
    if s is None:
        return "-"
    if s == "":
        return "_"
    return ".".join("%x" % ord(c) for c in s)


def dec(f):
    if f == "-":
        return None
    if f == "_":
        return ""
    return "".join(chr(int(h, 16)) for h in f.split("."))


# ------------------------------------------------------------------ lean stage
class LeanResult:
    def __init__(self):
        self.ok = True
        self.problems = []       # human-readable reasons the proof stage is broken
        self.theorems = []       # names audited
        self.axioms = {}         # theorem -> [axioms]
        self.build_cmd = ""
        self.build_log = ""
        self.changed_tables = []
        self.wall = 0.0


def _lock():
    f = open(os.path.join(LEAN, ".verif.lock"), "w")
    fcntl.flock(f, fcntl.LOCK_EX)
    return f


def strip_comments(src):
    # remove /- ... -/ (nested) and -- ... comments
    out, i, depth, n = [], 0, 0, len(src)
    while i < n:
        if src.startswith("/-", i):
            depth += 1
            i += 2
        elif depth and src.startswith("-/", i):
            depth -= 1
            i += 2
        elif depth:
            if src[i] == "\n":
                out.append("\n")
            i += 1
        elif src.startswith("--", i):
            while i < n and src[i] != "\n":
                i += 1
        elif src[i] == '"' and i > 0 and src[i - 1] == "'" and i + 1 < n and src[i + 1] == "'":
            out.append("Q")          # the character literal '"'
            i += 1
        elif src[i] == '"':
            j = i + 1
            while j < n and src[j] != '"':
                j += 2 if src[j] == "\\" else 1
            out.append('""')
            i = j + 1
        else:
            out.append(src[i])
            i += 1
    return "".join(out)


def hygiene():
    hits = []
    for dp, _dn, fn in os.walk(LEAN):
        if ".lake" in dp:
            continue
        for f in fn:
            if not f.endswith(".lean"):
                continue
            p = os.path.join(dp, f)
            code = strip_comments(open(p, encoding="utf-8").read())
            for ln, line in enumerate(code.split("\n"), 1):
                if HYGIENE_RE.search(line):
                    hits.append("%s:%d: %s" % (os.path.relpath(p, ROOT), ln, line.strip()[:120]))
    return hits


def theorem_names(module):
    """(namespace-qualified) names of all `theorem`s declared in a Props module."""
    path = os.path.join(LEAN, *module.split(".")) + ".lean"
    code = strip_comments(open(path, encoding="utf-8").read())
    names, ns = [], []
    for line in code.split("\n"):
        m = re.match(r"\s*namespace\s+(\S+)", line)
        if m:
            ns.append(m.group(1))
            continue
        m = re.match(r"\s*end\s+(\S+)", line)
        if m and ns and ns[-1] == m.group(1):
            ns.pop()
            continue
        m = re.match(r"\s*(?:private\s+|protected\s+)?theorem\s+([^\s:({\[]+)", line)
        if m:
            names.append(".".join(ns + [m.group(1)]))
    return names


def lean_stage(modules, timeout=1500, recheck=False):
    """translator -> lake build <modules> -> #print axioms audit -> hygiene grep [-> leanchecker, the independent re-checker of the compiled
    .olean files, in the thorough tier]."""
    r = LeanResult()
    t0 = time.time()
    lock = _lock()
    try:
        p = subprocess.run([PY, os.path.join(ROOT, "tools", "translate.py"), "--repo", REPO],
                           capture_output=True, text=True, timeout=300)
        if p.returncode != 0:
            r.ok = False
            r.problems.append("translator failed: " + (p.stderr.strip().splitlines() or ["?"])[-1])
            r.build_log = p.stderr
            return r
        try:
            r.changed_tables = json.loads(p.stdout.strip().splitlines()[-1])["changed"]
        except Exception:
            r.changed_tables = []
        cmd = ["lake", "build"] + modules
        r.build_cmd = "cd lean && " + " ".join(cmd)
        p = subprocess.run(cmd, cwd=LEAN, capture_output=True, text=True, timeout=timeout)
        r.build_log = p.stdout + p.stderr
        if p.returncode != 0:
            r.ok = False
            errs = [l for l in r.build_log.splitlines() if l.startswith("error:")]
            r.problems.append("lake build failed: " + "; ".join(errs[:4]))
        # axiom audit (only meaningful when the build succeeded)
        for m in modules:
            r.theorems += theorem_names(m)
        if r.ok and r.theorems:
            src = "".join("import %s\n" % m for m in modules)
            src += "".join("#print axioms %s\n" % t for t in r.theorems)
            ax = os.path.join(LEAN, ".axioms_%d.lean" % os.getpid())
            open(ax, "w").write(src)
            try:
                p = subprocess.run(["lake", "env", "lean", ax], cwd=LEAN, capture_output=True, text=True, timeout=600)
            finally:
                os.unlink(ax)
            out = p.stdout + p.stderr
            if p.returncode != 0:
                r.ok = False
                r.problems.append("axiom audit failed: " + out.strip()[:300])
            for m in re.finditer(r"'([^']+)' depends on axioms: \[([^\]]*)\]", out.replace("\n", " ")):
                r.axioms[m.group(1)] = [a.strip() for a in m.group(2).split(",") if a.strip()]
            for m in re.finditer(r"'([^']+)' does not depend on any axioms", out):
                r.axioms[m.group(1)] = []
            for t in r.theorems:
                if t not in r.axioms:
                    r.ok = False
                    r.problems.append("no axiom report for theorem " + t)
                else:
                    bad = [a for a in r.axioms[t] if a not in ALLOWED_AXIOMS]
                    if bad:
                        r.ok = False
                        r.problems.append("theorem %s depends on non-standard axioms %s" % (t, bad))
        h = hygiene()
        if h:
            r.ok = False
            r.problems.append("hygiene: " + "; ".join(h[:5]))
        if recheck and r.ok:
            props = [m for m in modules if ".Props." in m]
            p = subprocess.run(["lake", "env", "leanchecker"] + props, cwd=LEAN, capture_output=True, text=True, timeout=timeout)
            r.build_cmd += " && lake env leanchecker " + " ".join(props)
            if p.returncode != 0:
                r.ok = False
                r.problems.append("leanchecker rejected the compiled modules: " + (p.stdout + p.stderr).strip()[-300:])
    except subprocess.TimeoutExpired as e:
        raise InfraError("lean stage timed out: %s" % e)
    finally:
        lock.close()
        r.wall = time.time() - t0
    return r


class InfraError(Exception):
    pass


def run_driver(lines, timeout=2400):
    """pipe protocol lines to the Lean model driver, return the output lines"""
    if not lines:
        return []
    data = "\n".join(lines) + "\n"
    p = subprocess.run(["lake", "env", "lean", "--run", "Main.lean"], cwd=LEAN, input=data,
                       capture_output=True, text=True, timeout=timeout)
    out = p.stdout.split("\n")
    if out and out[-1] == "":
        out.pop()
    if p.returncode != 0 or len(out) != len(lines):
        raise InfraError("model driver failed (rc=%s, %d/%d lines): %s" % (p.returncode, len(out), len(lines), p.stderr[-500:]))
    return out


# ------------------------------------------------------------------ findings
class Finding:
    """a concrete failure of the property on the real implementation"""
    def __init__(self, key, witness, what, observed=None, expected=None, oracle=None):
        self.key = [str(k) for k in key]
        self.witness = witness
        self.what = what
        self.observed = observed
        self.expected = expected
        self.oracle = oracle


def load_known(prop):
    p = os.path.join(ROOT, "known_findings.json")
    if not os.path.exists(p):
        return []
    return [k for k in json.load(open(p)) if k["property"] == prop]


# ------------------------------------------------------------------ context
class Ctx:
    def __init__(self, prop, tier, seed):
        self.prop, self.tier, self.seed = prop, tier, seed
        self.rng = random.Random((hash(prop) & 0xFFFF) * 1000003 + seed) if False else random.Random("%s/%d" % (prop, seed))
        self.t0 = time.time()
        self.thorough = tier == "thorough"

    # the thorough tier is "as deep as we have built": the per-property base counts are scaled so that each thorough run takes a few minutes
    THOROUGH_SCALE = {"C01": 4, "C02": 4, "C03": 3, "C04": 5, "C05": 3, "C06": 5, "C10": 2, "C11": 2, "C14": 4, "C15": 2, "C16": 3, "C17": 3, "C18": 3, "C19": 4}

    def n(self, quick, thorough):
        if not self.thorough:
            return quick
        scale = self.scale if getattr(self, "scale", None) is not None else self.THOROUGH_SCALE.get(self.prop, 1)
        return int(thorough * scale * float(os.environ.get("VERIF_THOROUGH_SCALE", "1")))


def jsonable(x):
    if isinstance(x, bytes):
        return {"bytes_hex": x.hex()}
    if isinstance(x, (list, tuple)):
        return [jsonable(i) for i in x]
    if isinstance(x, dict):
        return {str(k): jsonable(v) for k, v in x.items()}
    if isinstance(x, (str, int, float, bool)) or x is None:
        return x
    return repr(x)


def unjson(x):
    if isinstance(x, dict) and set(x) == {"bytes_hex"}:
        return bytes.fromhex(x["bytes_hex"])
    if isinstance(x, list):
        return [unjson(i) for i in x]
    if isinstance(x, dict):
        return {k: unjson(v) for k, v in x.items()}
    return x
