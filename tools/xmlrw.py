"""Infoset-preserving XML rewriting for C10 (independent of feedparser): a document is tokenised with expat
(no namespace processing, ordered attributes) into infoset tokens, then serialised again with random
syntactic choices.  Rewrite kinds:

  attr-order   shuffle the attributes of a start tag
  quote        ' vs " around attribute values
  tag-ws       whitespace inside tags (between attributes, around '=', before '>' / '/>')
  comment      comments between elements          comment-in-text   comments inside character data
  pi           processing instructions between elements
  empty-elem   <a/> vs <a></a>
  cdata        CDATA sections vs escaped text
  charref      character references vs literal characters (text and attribute values)
  prefix       consistent renaming of namespace prefixes (see rename_prefixes)
"""
import re
import xml.parsers.expat

KINDS = ["attr-order", "quote", "tag-ws", "comment", "comment-in-text", "pi", "empty-elem", "cdata", "charref"]


class Unsupported(Exception):
    pass


def tokenize(doc):
    """doc: bytes (utf-8) -> list of tokens
    ("decl", version, encoding, standalone) ("start", name, [(k, v)...]) ("end", name) ("text", s) ("comment", s) ("pi", target, data)"""
    toks = []
    p = xml.parsers.expat.ParserCreate()
    p.ordered_attributes = True
    p.buffer_text = False

    def text(s):
        if toks and toks[-1][0] == "text":
            toks[-1] = ("text", toks[-1][1] + s)
        else:
            toks.append(("text", s))

    def start(name, attrs):
        toks.append(("start", name, [(attrs[i], attrs[i + 1]) for i in range(0, len(attrs), 2)]))

    def doctype(*a):
        raise Unsupported("doctype")
    p.XmlDeclHandler = lambda v, e, s: toks.append(("decl", v, e, s))
    p.StartElementHandler = start
    p.EndElementHandler = lambda name: toks.append(("end", name))
    p.CharacterDataHandler = text
    p.CommentHandler = lambda s: toks.append(("comment", s))
    p.ProcessingInstructionHandler = lambda t, d: toks.append(("pi", t, d))
    p.StartDoctypeDeclHandler = doctype
    p.Parse(doc, True)
    return toks


def infoset(toks):
    """the comparison form: comments / PIs dropped, adjacent text merged, attributes as sorted tuples"""
    out = []
    for t in toks:
        if t[0] in ("comment", "pi", "decl"):
            continue
        if t[0] == "text":
            if out and out[-1][0] == "text":
                out[-1] = ("text", out[-1][1] + t[1])
            else:
                out.append(t)
        elif t[0] == "start":
            out.append(("start", t[1], tuple(sorted(t[2]))))
        else:
            out.append(t)
    return out


def _ref(rng, c):
    o = ord(c)
    return rng.choice(["&#%d;" % o, "&#x%x;" % o, "&#x%X;" % o, "&#%04d;" % o])


NAMED = {"&": "&amp;", "<": "&lt;", ">": "&gt;", '"': "&quot;", "'": "&apos;"}


def _char(rng, c, charref, must):
    """one literal character of text / attribute value; `must`: characters that cannot be written literally here"""
    if c in must:
        if c in NAMED and (not charref or rng.random() < 0.5):
            return NAMED[c]
        return _ref(rng, c)
    if charref and rng.random() < 0.12:
        if c in NAMED and rng.random() < 0.3:
            return NAMED[c]
        return _ref(rng, c)
    return c


def render_text(rng, s, kinds):
    cdata, charref, cit = "cdata" in kinds, "charref" in kinds, "comment-in-text" in kinds
    out = []
    i = 0
    while i < len(s):
        j = min(len(s), i + rng.randint(1, 12)) if (cdata or cit) else len(s)
        run = s[i:j]
        if cdata and rng.random() < 0.5 and "\r" not in run and "]]>" not in run:
            out.append("<![CDATA[%s]]>" % run)
        else:
            for k, c in enumerate(run):
                must = {"&", "<", "\r"}
                if c == ">" and s[max(0, i + k - 2):i + k] == "]]":
                    must = must | {">"}
                out.append(_char(rng, c, charref, must))
        i = j
        if cit and i < len(s) and rng.random() < 0.4:
            out.append("<!--c%d-->" % rng.randrange(100))
    return "".join(out)


def render_attr(rng, v, kinds):
    q = rng.choice(['"', "'"]) if "quote" in kinds else '"'
    must = {"&", "<", "\t", "\n", "\r", q}
    return q + "".join(_char(rng, c, "charref" in kinds, must) for c in v) + q


def _ws(rng, kinds, need=False):
    if "tag-ws" in kinds:
        return rng.choice([" ", "  ", "\n", "\t", " \n  "] + ([] if need else [""]))
    return " " if need else ""


def _misc(rng, kinds):
    out = []
    if "comment" in kinds and rng.random() < 0.25:
        out.append("<!-- %s -->" % rng.choice(["note", "a < b & c", "<item>ghost</item>", "x - y", ""]))
    if "pi" in kinds and rng.random() < 0.25:
        out.append("<?%s %s?>" % (rng.choice(["app", "xml-stylesheet", "php"]), rng.choice(["", 'href="s.xsl" type="text/xsl"', "echo 1 < 2 & 3;"])))
    return "".join(out)


def render(toks, rng, kinds):
    """serialise tokens with the syntactic freedoms in `kinds` (a set); returns bytes (utf-8)"""
    out = []
    i = 0
    n = len(toks)
    seen_root = False
    depth = 0
    while i < n:
        t = toks[i]
        if t[0] == "decl":
            out.append('<?xml version="%s"%s%s?>' % (t[1], ' encoding="%s"' % t[2] if t[2] else "", "" if t[3] == -1 else ' standalone="%s"' % ("yes" if t[3] else "no")))
            out.append("\n")
        elif t[0] == "start":
            attrs = list(t[2])
            if "attr-order" in kinds:
                rng.shuffle(attrs)
            s = "<" + t[1]
            for k, v in attrs:
                s += _ws(rng, kinds, True) + k + _ws(rng, kinds) + "=" + _ws(rng, kinds) + render_attr(rng, v, kinds)
            empty = i + 1 < n and toks[i + 1][0] == "end"
            # the original form is not recorded by expat: without the rewrite kind, always use start/end pairs for childless elements
            if empty and "empty-elem" in kinds and rng.random() < 0.5:
                out.append(s + _ws(rng, kinds) + "/>")
                i += 2
                out.append(_misc(rng, kinds))
                continue
            out.append(s + _ws(rng, kinds) + ">")
            depth += 1
            seen_root = True
            out.append(_misc(rng, kinds))
        elif t[0] == "end":
            depth -= 1
            out.append("</" + t[1] + _ws(rng, kinds) + ">")
            out.append(_misc(rng, kinds))
        elif t[0] == "text":
            if depth > 0:
                out.append(render_text(rng, t[1], kinds))
            else:
                out.append(t[1] if not t[1].strip() else "")
        elif t[0] == "comment":
            out.append("<!--%s-->" % t[1])
        elif t[0] == "pi":
            out.append("<?%s %s?>" % (t[1], t[2]))
        i += 1
    return "".join(out).encode("utf-8")


def baseline(toks):
    """the plain serialisation (no freedoms used): the reference spelling of the infoset"""
    import random
    return render(toks, random.Random(0), set())


# ---------------------------------------------------------------------------------------------- prefix renaming
def declared_prefixes(toks):
    """{prefix: set of uris} over the whole document ('' = default namespace)"""
    d = {}
    for t in toks:
        if t[0] == "start":
            for k, v in t[2]:
                if k == "xmlns":
                    d.setdefault("", set()).add(v)
                elif k.startswith("xmlns:"):
                    d.setdefault(k[6:], set()).add(v)
    return d


def rename_prefixes(toks, mapping):
    """consistently rename non-default prefixes: mapping old -> new (both non-empty, new ones fresh). Element names,
    attribute names and xmlns:* declarations are renamed; attribute VALUES are left alone (QNames in content are not
    part of the infoset's namespace information)."""
    def rn(name):
        if ":" in name:
            p, l = name.split(":", 1)
            if p in mapping:
                return mapping[p] + ":" + l
        return name
    out = []
    for t in toks:
        if t[0] == "start":
            attrs = []
            for k, v in t[2]:
                if k.startswith("xmlns:") and k[6:] in mapping:
                    attrs.append(("xmlns:" + mapping[k[6:]], v))
                else:
                    attrs.append((rn(k), v))
            out.append(("start", rn(t[1]), attrs))
        elif t[0] == "end":
            out.append(("end", rn(t[1])))
        else:
            out.append(t)
    return out
