"""Correspondence of M-json (lean/FeedVerif/Model/Json.lean) with feedparser.parsers.json.JSONParser."""
import io
import json
import time
import warnings

import vlib
from vlib import enc


def tok(v):
    if v is None:
        return ["n"]
    if v is True:
        return ["t"]
    if v is False:
        return ["f"]
    if isinstance(v, int):
        return ["i%d" % v]
    if isinstance(v, str):
        return ["s" + enc(v)]
    if isinstance(v, list):
        out = ["a%d" % len(v)]
        for x in v:
            out += tok(x)
        return out
    if isinstance(v, dict):
        out = ["o%d" % len(v)]
        for k, x in v.items():
            out += [enc(k)] + tok(x)
        return out
    raise TypeError(v)


def show_j(v):
    return " ".join(tok(v))


def show_r(v):
    """canonical text of a value in the real result, mirroring JsonDriver.showR; which Python values are 'JSON values
    stored as they came' cannot be told from the value alone, so the comparison is made on a normal form: see norm()"""
    raise NotImplementedError


def norm_model(s):
    """model output -> normal form: J(x) wrappers of strings become S…, so that a copied JSON string and a computed string compare equal
    (Python cannot tell them apart)"""
    import re
    s = re.sub(r"J\(s([0-9a-f._]+)\)", r"S\1", s)
    s = s.replace("J(n)", "None").replace("=D-", "=None")
    return s


def show_py(v):
    if v is None:
        return "None"
    if isinstance(v, time.struct_time):
        return "D" + ",".join(str(x) for x in tuple(v))
    if isinstance(v, str):
        return "S" + enc(v)
    if isinstance(v, dict):
        return "{" + ";".join(enc(k) + "=" + show_py(dict.__getitem__(v, k)) for k in dict.keys(v)) + "}"
    if isinstance(v, list):
        # a JSON array copied as it came is indistinguishable from a built list: print both the same way
        return "[" + ";".join(show_py(x) for x in v) + "]"
    if isinstance(v, bool) or isinstance(v, int):
        return "J(" + show_j(v) + ")"
    raise TypeError(type(v))


def norm_lists(s):
    """J(a… ) / J(o…) wrappers (JSON arrays / objects copied as they came) cannot be normalised textually: the generator keeps
    copied values scalar, except where the code iterates them"""
    return s


SCALARS = [None, True, False, 0, 7, -3, "", "x", "some text", "http://example.org/a?b=1&c=2", "mailto:jane@example.org", "2004-01-01T19:48:21Z", "not a date", "<b>bold</b> &amp; <script>x</script>",
           "日本語 😀", "name", "url", "title", "tags"]
DATES = ["2004-01-01T19:48:21Z", "2010-02-07T14:04:00-05:00", "Thu, 01 Jan 2004 19:48:21 GMT", "not a date", "", "2004-02-30T00:00:00Z"]


def rand_scalar(rng):
    return rng.choice(SCALARS)


def rand_author(rng):
    k = rng.random()
    if k < 0.9:
        a = {}
        if rng.random() < 0.8:
            a["name"] = rng.choice(["Jane", "Jane", "", "J & K", "李雷", 5, None])
        if rng.random() < 0.5:
            a["url"] = rng.choice(["mailto:jane@example.org", "http://example.org/~jane", "mailto:jane@example.org", "http://example.org/~jane", "", "mailto:"]) if rng.random() < 0.9 else rng.choice([5, None])
        if rng.random() < 0.2:
            a["avatar"] = "http://example.org/a.png"
        return a
    return rng.choice(["a name here", "plain", 5, None, True, ["name"], ["x"], [], "url of sorts", {}])


def rand_item(rng):
    if rng.random() < 0.04:
        return rng.choice(["x", "some title", "zzz", 5, None, ["id"], ["zz"], [], "tags"])
    e = {}
    for k in ("id", "title", "url", "summary", "external_url"):
        if rng.random() < 0.6:
            e[k] = rand_scalar(rng)
    r = rng.random()
    if r < 0.3:
        e["content_text"] = rand_scalar(rng)
    elif r < 0.6:
        e["content_html"] = rng.choice(["<p>hi</p>", "<script>x</script>ok", "plain", "", "<p>hi</p>", "<b onclick='x'>b</b>"]) if rng.random() < 0.93 else rng.choice([5, None])
    if r > 0.5 and rng.random() < 0.3:
        e["content_text"] = "both"
    for k in ("date_published", "date_modified"):
        if rng.random() < 0.5:
            e[k] = rng.choice(DATES + [5, None, 0])
    if rng.random() < 0.5:
        e["tags"] = rng.choice([["a", "b"], [], ["x", 5, None], ["dup", "dup"], ["one"], ["c&d", "x<y"]]) if rng.random() < 0.9 else rng.choice(["ab", {"k": 1}, 5, None])
    if rng.random() < 0.5:
        e["author"] = rand_author(rng)
    if rng.random() < 0.5:
        atts = []
        for _ in range(rng.randint(0, 3)):
            a = {"url": rng.choice(["http://example.org/a.mp3", "http://example.org/b.mp4", 5]), "mime_type": rng.choice(["audio/mpeg", "video/mp4", None])}
            if rng.random() < 0.5:
                a["size_in_bytes"] = rng.choice([123, "123"])
            if rng.random() < 0.05:
                a.pop(rng.choice(list(a)))
            atts.append(a)
        e["attachments"] = atts if rng.random() < 0.93 else rng.choice(["url", 5, {"url": 1}])
    return e


def rand_feed(rng):
    if rng.random() < 0.06:
        return rng.choice([[], "x", 5, None, True, {}, [1, 2]])
    d = {}
    if rng.random() < 0.93:
        d["version"] = rng.choice(["https://jsonfeed.org/version/1", "https://jsonfeed.org/version/1.1"]) if rng.random() < 0.9 else rng.choice(["x", "", 5, None, ["v"]])
    for k in ("title", "icon", "home_page_url", "description", "feed_url", "favicon"):
        if rng.random() < 0.6:
            d[k] = rand_scalar(rng)
    if rng.random() < 0.5:
        d["author"] = rand_author(rng)
    if rng.random() < 0.93:
        d["items"] = [rand_item(rng) for _ in range(rng.randint(0, 3))] if rng.random() < 0.95 else rng.choice(["ab", {"k": 1}, 5, None, "title"])
    return d


def collect_strings(v, out):
    if isinstance(v, str):
        out.add(v)
    elif isinstance(v, list):
        for x in v:
            collect_strings(x, out)
    elif isinstance(v, dict):
        for x in v.values():
            collect_strings(x, out)


def run_real(data):
    from feedparser.parsers.json import JSONParser
    p = JSONParser("", None, "utf-8")
    failed = 0
    with warnings.catch_warnings():
        warnings.simplefilter("ignore")
        try:
            p.feed(io.StringIO(json.dumps(data)))
        except Exception:
            failed = 1
    return "%s|%d|%s|%s" % (p.version or "-", failed, show_py(p.feeddata), show_py(list(p.entries)))


def line_for(data):
    from feedparser.datetimes import _parse_date
    from feedparser.sanitizer import sanitize_html
    strs = set()
    collect_strings(data, strs)
    tabs = []
    with warnings.catch_warnings():
        warnings.simplefilter("ignore")
        for s in sorted(strs):
            if s:
                t = _parse_date(s)
                tabs.append("D%s=%s" % (enc(s), ",".join(str(x) for x in tuple(t)) if t else "-"))
                h = sanitize_html(s, "utf-8", "application/json")
                if h != s:
                    tabs.append("H%s=%s" % (enc(s), enc(h)))
    return "json feed " + " ".join(tabs + tok(data))


def has_copied_container(data):
    """a JSON array / object copied into the result as it came (only via the plain field copies and author name / attachment fields)"""
    def scal(v):
        return not isinstance(v, (list, dict))
    if not isinstance(data, dict):
        return False
    ok = all(scal(data.get(k)) for k in ("title", "icon", "home_page_url", "description"))
    items = data.get("items")
    if isinstance(items, list):
        for e in items:
            if isinstance(e, dict):
                ok = ok and all(scal(e.get(k)) for k in ("title", "id", "url", "summary", "external_url", "content_text", "date_published", "date_modified"))
    return not ok


def corr(ctx, n=None):
    rng = ctx.rng
    lines, exp, metas = [], [], []
    dist = {"ok": 0, "failed": 0, "non-object": 0}
    for _ in range(n or ctx.n(400, 6000)):
        data = rand_feed(rng)
        if has_copied_container(data):
            continue
        e = run_real(data)
        lines.append(line_for(data))
        exp.append(e)
        metas.append(data)
        dist["failed" if e.split("|")[1] == "1" else "ok"] += 1
        if not isinstance(data, dict):
            dist["non-object"] += 1
    got = vlib.run_driver(lines) if lines else []
    dis = []
    for g, e, m in zip(got, exp, metas):
        if norm_model(g) != e and len(dis) < 20:
            dis.append({"json": json.dumps(m)[:600], "model": norm_model(g)[:500], "impl": e[:500]})
    return {"cases": len(lines), "distinct": len(set(lines)), "unmodelled": 0, "disagreements": dis, "distribution": dist,
            "samples": [{"json": json.dumps(metas[0])[:300]}] if metas else []}
