#!/usr/bin/env python3
"""tools/seedmatrix.py [Cxx-X ...]: run every archived seeded change (/verif/seeded/<id>/patch.diff) against its property's
quick check on a scratch application to /repo (applied with git apply, undone with git checkout), record in
seeded/<id>/meta.json which stage raised the alarm, and print a table.  /repo is left clean; evidence files are restored."""
import json
import os
import re
import shutil
import subprocess
import sys

ROOT = os.path.dirname(os.path.dirname(os.path.abspath(__file__)))
REPO = os.environ.get("VERIF_REPO", "/repo")


def sh(cmd, cwd=None, **kw):
    return subprocess.run(cmd, shell=True, cwd=cwd, capture_output=True, text=True, **kw)


def main():
    ids = sys.argv[1:] or sorted(os.listdir(os.path.join(ROOT, "seeded")))
    assert sh("git diff --quiet", cwd=REPO).returncode == 0, "/repo not clean"
    rows = []
    for sid in ids:
        d = os.path.join(ROOT, "seeded", sid)
        patch = os.path.join(d, "patch.diff")
        if not os.path.exists(patch):
            continue
        prop = sid.split("-")[0]
        ev = os.path.join(ROOT, "evidence", prop + ".json")
        bak = ev + ".seedmatrix.bak"
        if os.path.exists(ev):
            shutil.copy(ev, bak)
        a = sh("git apply %s" % patch, cwd=REPO)
        if a.returncode != 0:
            rows.append((sid, "patch does not apply", ""))
            print("%-8s PATCH DOES NOT APPLY to the current tree (re-base it; keep the original as patch_orig.diff)" % sid, flush=True)
            mp = os.path.join(d, "meta.json")
            if os.path.exists(mp):
                m = json.load(open(mp))
                m["detected_by"] = {"check": "./check %s quick" % prop, "verdict": "not run: patch does not apply to the current tree", "stages": [], "violation_lines": 0}
                json.dump(m, open(mp, "w"), indent=1)
            continue
        try:
            r = sh("./check %s quick" % prop, cwd=ROOT, timeout=1800)
        finally:
            sh("git checkout -- .", cwd=REPO)
            if os.path.exists(bak):
                shutil.move(bak, ev)
        out = r.stdout + r.stderr
        # attribution: every concrete input the mutated run reported must PASS on the clean tree (otherwise the alarm is the clean tree's, not the change's)
        clean_fail = []
        for rp in re.findall(r"^VIOLATION property=\S+ replay=(\S+)", out, re.M)[:6]:
            rr = sh("./check %s --replay %s" % (prop, rp), cwd=ROOT, timeout=600)
            if "STILL FAILS" in rr.stdout:
                clean_fail.append(rp)
        stages = []
        if clean_fail:
            stages.append("ATTENTION: %d reported input(s) fail on the CLEAN tree too (%s)" % (len(clean_fail), clean_fail[0]))
        if re.search(r"proof stage: BROKEN", out):
            stages.append("proof obligation (regenerated table / theorem no longer checks)")
        m = re.search(r"correspondence: .* (\d+) disagreements", out)
        if m and int(m.group(1)) > 0:
            stages.append("correspondence (%s disagreements)" % m.group(1))
        fails = re.findall(r"failing input: key=(\S+)", out)
        if fails:
            stages.append("failing-input search (%s)" % ", ".join(sorted(set(fails))[:3]))
        viol = re.findall(r"^VIOLATION .*$", out, re.M)
        verdict = "detected" if (r.returncode == 1 and viol) else ("NOT detected (exit %d)" % r.returncode)
        if clean_fail and len(clean_fail) == len(re.findall(r"^VIOLATION property=\S+ replay=(\S+)", out, re.M)[:6]):
            verdict = "NOT attributable (every reported input fails on the clean tree)"
        if viol and all(v.endswith("no-failing-input-found") for v in viol):
            verdict += " (no concrete input)"
        meta_p = os.path.join(d, "meta.json")
        meta = json.load(open(meta_p)) if os.path.exists(meta_p) else {}
        if meta.get("superseded"):
            # a later fix: commit made this change harmless (its demo passes on HEAD + patch): the check must stay quiet
            verdict = "superseded (%s): check %s" % (meta["superseded"], "quiet, as it must be" if r.returncode == 0 else "alarms (exit %d)" % r.returncode)
        meta["detected_by"] = {"check": "./check %s quick" % prop, "verdict": verdict, "stages": stages, "violation_lines": len(viol)}
        json.dump(meta, open(meta_p, "w"), indent=1)
        rows.append((sid, verdict, "; ".join(stages)))
        print("%-8s %-28s %s" % (sid, verdict, "; ".join(stages)[:160]), flush=True)
    assert sh("git diff --quiet", cwd=REPO).returncode == 0
    # the table is always rebuilt from every meta.json, so partial reruns keep the other rows
    with open(os.path.join(ROOT, "seeded", "MATRIX.md"), "w") as f:
        f.write("| seeded change | what it breaks | verdict of `./check <property> quick` | raised by |\n|---|---|---|---|\n")
        for sid in sorted(os.listdir(os.path.join(ROOT, "seeded"))):
            mp = os.path.join(ROOT, "seeded", sid, "meta.json")
            if not os.path.exists(mp):
                continue
            m = json.load(open(mp))
            d = m.get("detected_by") or {}
            f.write("| %s | %s | %s | %s |\n" % (sid, (m.get("summary") or "").split(". ")[0][:160].replace("|", "/"), d.get("verdict", "not run"), "; ".join(d.get("stages", [])).replace("|", "/")))


if __name__ == "__main__":
    main()
