#!/venv/bin/python
"""Writes MANIFEST.json from the per-property metadata in tools/props/*.py (kept valid at all times)."""
import importlib, json, os, sys
sys.path.insert(0, os.path.dirname(os.path.abspath(__file__)))
ROOT = os.path.dirname(os.path.dirname(os.path.abspath(__file__)))
ALL = ["C%02d" % i for i in range(1, 21)]
checks, na = [], []
for pid in ALL:
    try:
        m = importlib.import_module("props." + pid)
    except ModuleNotFoundError:
        na.append({"property_id": pid, "reason": "check not built yet in this round (the design covers it; see DESIGN.md section 5)"})
        continue
    checks.append({
        "property_id": pid,
        "quick_cmd": "./check %s quick" % pid,
        "thorough_cmd": "./check %s thorough" % pid,
        "evidence_file": "evidence/%s.json" % pid,
        "replay_cmd_template": "./check %s --replay {path}" % pid,
        "engine": "lean4-model+correspondence",
        "level_claimed": {"category": "proof", "text": m.LEVEL_TEXT, "design_ref": "DESIGN.md section 5, %s" % pid},
        "level_note": m.LEVEL_NOTE,
        "technique": m.TECHNIQUE,
    })
man = {
    "version": 1,
    "setup_cmd": "./setup.sh",
    "hooks": {"guard": "FEEDPARSER_VERIF", "enable": "no instrumentation hooks exist: all observation is by subclassing / patching from the harness process",
              "baseline_off_cmd": "cd /repo && /venv/bin/python -m pytest -ra -q -p no:cacheprovider --timeout=900 --continue-on-collection-errors",
              "source_commits": [], "add_only": True},
    "engines": [{"name": "lean4-model+correspondence", "path": "tools/check.py", "serves_properties": [c["property_id"] for c in checks],
                 "kind_free_text": "Lean 4 theorems about executable models (lean/FeedVerif), tables regenerated from /repo by tools/translate.py, "
                                   "model-vs-implementation correspondence through a line-protocol driver (lean/Main.lean), and a failing-input search "
                                   "with independent oracles that supplies replays"}],
    "checks": checks,
    "not_applicable": na,
    "notes": "fix: commits in /repo and open findings are listed in known_findings.json; DESIGN.md section 8 records which checks catch which seeded changes.",
}
json.dump(man, open(os.path.join(ROOT, "MANIFEST.json"), "w"), indent=1)
print("checks:", [c["property_id"] for c in checks], "not yet:", [n["property_id"] for n in na])
