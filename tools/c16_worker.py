"""Worker process for C16 (always a FRESH interpreter: the library is imported here for the first time).
Reads one job (JSON) on stdin, writes one JSON answer on stdout.

modes
  sequence  {"docs": [hex, ...]}                          parse the documents one after the other; answers their summaries
  schedule  {"a": hex, "b": hex, "segments": [n1, n2, ...], "warm": [hex, ...]}
            two threads parse a and b; the baton passes from A to B after n1 traced feedparser lines of A, back after n2 lines of B, ...
            (a single preemption is segments = [k]); "warm" documents are parsed first (sequentially) to warm the library up
  inventory {"docs": [hex, ...]}                          digest every module-level / class-level object under feedparser before and after parsing; answers the changed names
  coldlines {"doc": hex}                                  indices (in A's traced line sequence) of lines executed by the first parse of doc but not by a second one
"""
import hashlib
import json
import re
import sys
import threading
import types
import warnings

warnings.simplefilter("ignore")


def plain(x):
    if isinstance(x, dict):
        return {str(k): plain(dict.__getitem__(x, k)) for k in dict.keys(x)}
    if isinstance(x, (list, tuple)):
        return [plain(i) for i in x]
    if isinstance(x, (str, int, float, bool)) or x is None:
        return x
    return repr(x)


def summary(r):
    return {"feed": plain(r.feed), "entries": plain(r.entries), "encoding": r.get("encoding"), "version": r.get("version"), "namespaces": plain(dict(r.get("namespaces", {}))),
            "bozo": bool(r.bozo), "bozo_class": type(r.get("bozo_exception")).__name__ if r.bozo else None}


def parse(doc):
    import feedparser
    try:
        return summary(feedparser.parse(doc, response_headers={"content-type": "application/xml; charset=utf-8"}))
    except Exception as e:
        return {"raises": type(e).__name__ + ": " + str(e)[:200]}


# ------------------------------------------------------------------------------------------------ inventory
def digest(obj, depth=0, seen=None):
    seen = seen if seen is not None else set()
    if depth > 6:
        return "…"
    if isinstance(obj, (str, bytes, int, float, bool, type(None))):
        return repr(obj)
    if id(obj) in seen:
        return "<cycle>"
    if isinstance(obj, (list, tuple)):
        seen = seen | {id(obj)}
        return type(obj).__name__ + "[" + ",".join(digest(x, depth + 1, seen) for x in obj) + "]"
    if isinstance(obj, (set, frozenset)):
        return "set{" + ",".join(sorted(digest(x, depth + 1, seen) for x in obj)) + "}"
    if isinstance(obj, dict):
        seen = seen | {id(obj)}
        return "dict{" + ",".join("%s:%s" % (digest(k, depth + 1, seen), digest(v, depth + 1, seen)) for k, v in obj.items()) + "}"
    if isinstance(obj, re.Pattern):
        return "re(%r,%d)" % (obj.pattern, obj.flags)
    if isinstance(obj, (types.FunctionType, types.MethodType, staticmethod, classmethod)):
        f = getattr(obj, "__func__", obj)
        return "fn(%s.%s,%s,%s)" % (getattr(f, "__module__", "?"), getattr(f, "__qualname__", "?"), digest(getattr(f, "__defaults__", None), depth + 1, seen),
                                    digest(getattr(f, "__kwdefaults__", None), depth + 1, seen))
    if isinstance(obj, type):
        return "class(%s.%s)" % (obj.__module__, obj.__qualname__)
    if isinstance(obj, types.ModuleType):
        return "module(%s)" % obj.__name__
    return "%s@%x" % (type(obj).__name__, id(obj))


def inventory():
    out = {}
    for name, mod in sorted(sys.modules.items()):
        if not (name == "feedparser" or name.startswith("feedparser.")) or mod is None:
            continue
        for k, v in sorted(vars(mod).items()):
            if k.startswith("__") and k not in ("__all__",):
                continue
            out["%s.%s" % (name, k)] = hashlib.sha1(digest(v).encode("utf-8", "replace")).hexdigest()
            if isinstance(v, type) and v.__module__.startswith("feedparser"):
                for ck, cv in sorted(vars(v).items()):
                    # (__slotnames__ is a cache copyreg puts on any class the first time an instance is deep-copied or pickled)
                    if ck in ("__dict__", "__weakref__", "__doc__", "__module__", "__qualname__", "__slotnames__"):
                        continue
                    out["%s.%s.%s" % (name, k, ck)] = hashlib.sha1(digest(cv).encode("utf-8", "replace")).hexdigest()
    # sgmllib is patched by feedparser.sgml at import: its module-level patterns count as feedparser's state too
    import sgmllib
    for k, v in sorted(vars(sgmllib).items()):
        if isinstance(v, re.Pattern):
            out["sgmllib.%s" % k] = hashlib.sha1(digest(v).encode()).hexdigest()
    return out


# ------------------------------------------------------------------------------------------------ baton scheduler
class Baton:
    def __init__(self, segments):
        self.segments = list(segments)
        self.turn = "A"
        self.cond = threading.Condition()
        self.alive = {"A": True, "B": True}
        self.budget = self.segments.pop(0) if self.segments else None
        self.stalls = 0
        self.progress = 0

    def trace_for(self, me):
        other = "B" if me == "A" else "A"

        def tr(frame, ev, arg):
            if "feedparser" not in frame.f_code.co_filename:
                return None
            if ev == "line":
                self.step(me, other)
            return tr
        return tr

    def wait_turn(self, me):
        with self.cond:
            while self.turn != me and self.alive["B" if me == "A" else "A"]:
                before = self.progress
                if not self.cond.wait(timeout=0.3) and self.progress == before:
                    self.stalls += 1          # the other thread made no progress: it is blocked on something this one holds (e.g. an import lock) -- run on
                    self.turn = me
                    break

    def step(self, me, other):
        with self.cond:
            self.progress += 1
            if self.budget is not None:
                self.budget -= 1
                if self.budget <= 0 and self.alive[other]:
                    self.budget = self.segments.pop(0) if self.segments else None
                    self.turn = other
                    self.cond.notify_all()
        self.wait_turn(me)

    def finish(self, me):
        with self.cond:
            self.alive[me] = False
            self.turn = "B" if me == "A" else "A"
            self.cond.notify_all()


def run_schedule(a, b, segments):
    import feedparser  # noqa: importing the library is not part of a parse() call (and its module-level lines must not be counted)
    baton = Baton(segments)
    res = {}

    def worker(me, doc):
        baton.wait_turn(me)
        sys.settrace(baton.trace_for(me))
        try:
            res[me] = parse(doc)
        finally:
            sys.settrace(None)
            baton.finish(me)
    ta = threading.Thread(target=worker, args=("A", a))
    tb = threading.Thread(target=worker, args=("B", b))
    ta.start()
    tb.start()
    ta.join(60)
    tb.join(60)
    return {"A": res.get("A", {"raises": "thread did not finish"}), "B": res.get("B", {"raises": "thread did not finish"}), "stalls": baton.stalls}


def trace_lines(doc):
    import feedparser  # noqa: module-level code is not part of a parse() call
    seen = []

    def tr(frame, ev, arg):
        if "feedparser" not in frame.f_code.co_filename:
            return None
        if ev == "line":
            seen.append((frame.f_code.co_filename.rsplit("/", 1)[-1], frame.f_lineno))
        return tr
    sys.settrace(tr)
    try:
        parse(doc)
    finally:
        sys.settrace(None)
    return seen


def main():
    job = json.load(sys.stdin)
    H = bytes.fromhex
    mode = job["mode"]
    if mode == "sequence":
        out = [parse(H(d)) for d in job["docs"]]
    elif mode == "schedule":
        for d in job.get("warm", []):
            parse(H(d))
        out = run_schedule(H(job["a"]), H(job["b"]), job["segments"])
    elif mode == "schedules":
        for d in job.get("warm", []):
            parse(H(d))
        out = [run_schedule(H(j["a"]), H(j["b"]), j["segments"]) for j in job["jobs"]]
    elif mode == "inventory":
        import feedparser  # noqa: first import
        before = inventory()
        for d in job["docs"]:
            parse(H(d))
        after = inventory()
        changed = sorted(k for k in set(before) | set(after) if before.get(k) != after.get(k))
        # positive control: an explicit registration must show up
        import feedparser.datetimes as dt
        dt.registerDateHandler(lambda s: None)
        ctl = inventory()
        out = {"changed": changed, "objects": len(before), "control_detected": ctl.get("feedparser.datetimes._date_handlers") != after.get("feedparser.datetimes._date_handlers")}
    elif mode == "coldlines":
        first = trace_lines(H(job["doc"]))
        second = set(trace_lines(H(job["doc"])))
        # statement boundaries only: the first event of each run of events on one line (a comprehension yields one event per element)
        out = {"n": len(first), "cold": [i + 1 for i, x in enumerate(first) if x not in second and (i == 0 or first[i - 1] != x)][:400]}
    else:
        out = {"error": "bad mode"}
    json.dump(out, sys.stdout)


if __name__ == "__main__":
    main()
