#!/bin/sh
# tools/soak.sh <nseeds> [tier] : run every registered check with seeds 1..n on the clean tree; print every alarm
N="${1:-8}"; T="${2:-quick}"
cd "$(dirname "$0")/.." || exit 2
./setup.sh >/dev/null 2>&1
CHECKS=$(python3 -c "import json;print(' '.join(c['property_id'] for c in json.load(open('MANIFEST.json'))['checks']))")
for s in $(seq 1 "$N"); do
  for c in $CHECKS; do
    out=$(VERIF_SEED=$s ./check "$c" "$T" 2>&1); rc=$?
    if [ $rc -ne 0 ]; then echo "ALARM seed=$s check=$c rc=$rc"; echo "$out" | grep -v "^KNOWN" | tail -6 | cut -c1-600; fi
  done
  echo "seed $s done"
done
