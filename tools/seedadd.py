#!/venv/bin/python
"""tools/seedadd.py <Cxx> <A|B|...>: confirm a sub-agent's seeded change in its scratch worktree
(/tmp/mut/<Cxx>) and archive it under /verif/seeded/<Cxx>-<X>/ (patch.diff, demo.py, meta.json)."""
import json, os, shutil, subprocess, sys
pid, x = sys.argv[1], sys.argv[2]
wt = sys.argv[3] if len(sys.argv) > 3 else "/tmp/mut/%s" % pid
as_letter = sys.argv[4] if len(sys.argv) > 4 else x       # archive under another letter (second round: A/B of /tmp/mut2 become C/D)
md = os.path.join(wt, "_mutation")
env = dict(os.environ, PYTHONPATH=wt)
def sh(cmd, **kw):
    return subprocess.run(cmd, shell=True, cwd=wt, env=env, capture_output=True, text=True, **kw)
assert sh("git diff --quiet -- feedparser").returncode == 0, "worktree not clean"
d0 = sh("/venv/bin/python _mutation/demo_%s.py" % x)
assert d0.returncode == 0, "demo fails on clean tree: " + d0.stdout[-500:] + d0.stderr[-500:]
a = sh("git apply _mutation/%s.diff" % x)
assert a.returncode == 0, a.stderr
try:
    d1 = sh("/venv/bin/python _mutation/demo_%s.py" % x)
    suite = sh("/venv/bin/python -m pytest -q -p no:cacheprovider --timeout=900 --continue-on-collection-errors 2>&1 | tail -1")
finally:
    sh("git checkout -- feedparser")
ok_demo = d1.returncode != 0
tail = suite.stdout.strip()
ok_suite = "4296 passed, 8 skipped, 1 error" in tail
print("demo clean rc=0; demo mutated rc=%d; suite: %s" % (d1.returncode, tail))
if not (ok_demo and ok_suite):
    print("NOT CONFIRMED"); sys.exit(1)
notes = json.load(open(os.path.join(md, "notes.json")))[x]
dst = "/verif/seeded/%s-%s" % (pid, as_letter)
os.makedirs(dst, exist_ok=True)
shutil.copy(os.path.join(md, "%s.diff" % x), os.path.join(dst, "patch.diff"))
shutil.copy(os.path.join(md, "demo_%s.py" % x), os.path.join(dst, "demo.py"))
meta = {"property": pid, "summary": notes.get("summary"), "needs": notes.get("needs"), "files": notes.get("files"),
        "confirmed": {"worktree": wt, "demo_clean_rc": 0, "demo_mutated_rc": d1.returncode, "suite_with_patch": tail,
                      "ran": ["demo on clean worktree", "git apply patch", "demo (must fail)", "pinned pytest suite", "git checkout"]},
        "demo_output_mutated": (d1.stdout + d1.stderr)[-800:],
        "detected_by": None}
json.dump(meta, open(os.path.join(dst, "meta.json"), "w"), indent=1)
print("archived", dst)
