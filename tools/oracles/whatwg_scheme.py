"""Independent oracle: the scheme a WHATWG-conformant URL parser assigns to a string
(URL Standard, "basic URL parser": input preprocessing + scheme start state + scheme state).
Shares no code with feedparser or with the Lean model.  Returns the lower-cased scheme or None."""

ASCII_ALPHA = set("abcdefghijklmnopqrstuvwxyzABCDEFGHIJKLMNOPQRSTUVWXYZ")
ASCII_ALNUM = ASCII_ALPHA | set("0123456789")


def whatwg_scheme(inp):
    # 1. remove any leading and trailing C0 control or space
    i, j = 0, len(inp)
    while i < j and ord(inp[i]) <= 0x20:
        i += 1
    while j > i and ord(inp[j - 1]) <= 0x20:
        j -= 1
    s = inp[i:j]
    # 2. remove all ASCII tab or newline
    s = "".join(ch for ch in s if ch not in "\t\n\r")
    # scheme start state
    if not s or s[0] not in ASCII_ALPHA:
        return None          # no scheme state: relative reference
    buf = [s[0].lower()]
    # scheme state
    for ch in s[1:]:
        if ch in ASCII_ALNUM or ch in "+-.":
            buf.append(ch.lower())
        elif ch == ":":
            return "".join(buf)
        else:
            return None
    return None              # EOF before ':'
