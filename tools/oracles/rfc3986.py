"""Independent oracle: RFC 3986 section 5.2 reference resolution (5.2.2 transform, 5.2.3 merge,
5.2.4 remove_dot_segments, 5.3 recomposition).  Written from the RFC text; shares nothing with
urllib.parse, feedparser or the Lean models."""
import re

_URI = re.compile(r"^(?:([^:/?#]+):)?(?://([^/?#]*))?([^?#]*)(?:\?([^#]*))?(?:#(.*))?$", re.S)   # RFC 3986 appendix B


def split(u):
    m = _URI.match(u)
    return m.group(1), m.group(2), m.group(3), m.group(4), m.group(5)


def remove_dot_segments(path):
    inp, out = path, []
    while inp:
        if inp.startswith("../"):
            inp = inp[3:]
        elif inp.startswith("./"):
            inp = inp[2:]
        elif inp.startswith("/./"):
            inp = inp[2:]
        elif inp == "/.":
            inp = "/"
        elif inp.startswith("/../"):
            inp = inp[3:]
            if out:
                out.pop()
        elif inp == "/..":
            inp = "/"
            if out:
                out.pop()
        elif inp in (".", ".."):
            inp = ""
        else:
            m = re.match(r"/?[^/]*", inp)
            out.append(m.group(0))
            inp = inp[m.end():]
    return "".join(out)


def merge(bauth, bpath, rpath):
    if bauth is not None and bpath == "":
        return "/" + rpath
    i = bpath.rfind("/")
    return bpath[: i + 1] + rpath if i >= 0 else rpath


def resolve(base, ref):
    bs, ba, bp, bq, _bf = split(base)
    rs, ra, rp, rq, rf = split(ref)
    if rs is not None:
        ts, ta, tp, tq = rs, ra, remove_dot_segments(rp), rq
    else:
        if ra is not None:
            ta, tp, tq = ra, remove_dot_segments(rp), rq
        else:
            if rp == "":
                tp = bp
                tq = rq if rq is not None else bq
            else:
                if rp.startswith("/"):
                    tp = remove_dot_segments(rp)
                else:
                    tp = remove_dot_segments(merge(ba, bp, rp))
                tq = rq
            ta = ba
        ts = bs
    out = ""
    if ts is not None:
        out += ts + ":"
    if ta is not None:
        out += "//" + ta
    out += tp
    if tq is not None:
        out += "?" + tq
    if rf is not None:
        out += "#" + rf
    return out
