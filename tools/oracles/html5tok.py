"""Independent oracle: an HTML tokenizer written from the WHATWG HTML Standard,
section 13.2.5 "Tokenization" (plus the small part of 13.2.6 "Tree construction" that
feeds back into the tokenizer: text-mode switching and the "in foreign content" test
that decides what `<![CDATA[` means).

It shares no code with feedparser, sgmllib, html.parser or the Lean model.  The only
stdlib data it uses is the named character reference table `html.entities.html5`.

Public API
----------
    Token                      NamedTuple(kind, name, attrs, self_closing, data, pos)
    tokenize(text, initial_state="data", *, last_start_tag=None,
             normalize_newlines=True, svg_script_data=False) -> list[Token]
    tags(text, initial_state="data", **kw) -> list[(kind, name, attrs)]   start/end tags only
    live_elements(text, contexts=True) -> set[str]
    CONTEXTS                   the embedding contexts used by live_elements

Token fields
------------
    kind          "starttag" | "endtag" | "text" | "comment" | "doctype"
    name          tag name, ASCII-lower-cased (only A-Z are folded, as the standard says;
                  U+212A KELVIN SIGN etc. are NOT folded); "" for non-tag tokens
    attrs         list of (name, value) in source order; names ASCII-lower-cased, values
                  with character references decoded; of duplicate names only the first is
                  kept.  End tags keep whatever attributes were written on them (the
                  standard calls that a parse error but the token still has them).
    self_closing  True iff the tag was closed by "/>" via the self-closing start tag state
    data          text (adjacent character tokens are coalesced into one text token),
                  comment data, or for doctype the raw source between "<!DOCTYPE" and ">"
    pos           offset in the ORIGINAL `text` where the token starts ("<" for markup,
                  the first contributing source character for text)

Deliberate deviations / approximations (everything else follows the standard's states)
---------------------------------------------------------------------------------------
 1. DOCTYPE: the DOCTYPE sub-states are collapsed into "consume up to the next '>' (or
    EOF) and emit one doctype token".  Token boundaries are identical to the standard's,
    because every DOCTYPE sub-state (including the quoted identifier states) ends the
    token at the first '>'.
 2. Script data: the escaped / double-escaped sub-states are not implemented; script data
    is "everything up to the next ASCII-case-insensitive `</script` followed by
    whitespace, '/' or '>'".  (Differs from the standard only for
    `<!-- <script> ... </script> ... -->` inside a script element.)
 3. Tree-builder feedback is approximated by element name (a tokenizer alone has no tree):
      HTML content:  textarea,title -> RCDATA; style,xmp,iframe,noembed,noframes,noscript
      -> RAWTEXT (i.e. scripting enabled); script -> script data; plaintext -> PLAINTEXT.
      The self-closing flag does not prevent the switch (it is ignored on HTML elements).
      Foreign content: a small stack of svg / math roots and of integration points
      (svg foreignObject/desc/title; math mi/mo/mn/ms/mtext; annotation-xml with an HTML
      encoding) is kept.  While the top of that stack is a foreign entry the tokenizer is
      "in foreign content": no text-mode switching, `<![CDATA[ ... ]]>` is a CDATA
      section (content emitted as text).  Start tags from the standard's "break-out" list
      (b, big, blockquote, body, br, center, code, dd, div, dl, dt, em, embed, h1-h6,
      head, hr, i, img, li, listing, menu, meta, nobr, ol, p, pre, ruby, s, small, span,
      strong, strike, sub, sup, table, tt, u, ul, var, and font with color/face/size) and
      the end tags </p>, </br> leave foreign content, as the standard prescribes.  Inside
      an integration point the content is HTML again (text-mode switching applies,
      `<![CDATA[` is a bogus comment).  Not modelled: HTML elements opened inside an
      integration point that block its end tag, `<select>`/table/template insertion
      modes, mglyph/malignmark, and the fact that directly inside an integration point
      element (before any HTML child is opened) a CDATA section would still be allowed.
    svg <script>: per the standard (13.2.6.5, "Any other start tag" -> insert a foreign
      element; the tokenizer state is NOT switched) the content of a script element in
      foreign content is tokenized in the data state (`<svg><script>alert&#40;1)</script>`
      decodes the reference; `<svg><script><b>` creates a tag).  That is the default.
      Pass svg_script_data=True to get the coarser approximation "script inside svg
      switches to script data".  live_elements() unions both.
 4. Newlines: with normalize_newlines=True (default) the input stream preprocessing of
    13.2.3.5 is applied (CR LF -> LF, lone CR -> LF) and `pos` values are mapped back to
    offsets in the original string.  With normalize_newlines=False nothing is rewritten;
    CR is then treated like the other whitespace characters inside tags (which yields the
    same token structure) and is left as-is in text / attribute values / comments.
 5. NUL: handled as the tokenizer prescribes (kept in the data state and in CDATA
    sections, U+FFFD everywhere else).  The tree builder's later dropping / replacing of
    NUL character tokens is not applied.  Likewise the tree builder's "ignore one LF right
    after <textarea>/<pre>/<listing>" is not applied.
 6. Parse errors are not reported; only their prescribed recovery is performed.
 7. With initial_state rcdata / rawtext / script data and no last_start_tag, no end tag is
    "appropriate" (as in the standard), so all input is text.
"""

import re
from html.entities import html5 as _HTML5
from typing import NamedTuple

__all__ = ["Token", "tokenize", "tags", "live_elements", "CONTEXTS"]


class Token(NamedTuple):
    kind: str
    name: str
    attrs: list
    self_closing: bool
    data: str
    pos: int


# --------------------------------------------------------------------------------------
# character classes and tables

_ALPHA = frozenset("abcdefghijklmnopqrstuvwxyzABCDEFGHIJKLMNOPQRSTUVWXYZ")
_ALNUM = _ALPHA | frozenset("0123456789")
_WS = frozenset("\t\n\f\r ")          # \r only ever seen with normalize_newlines=False

# ASCII lower-casing + NUL -> U+FFFD (tag names, attribute names)
_LOWER_NUL = {c: c + 32 for c in range(0x41, 0x5B)}
_LOWER_NUL[0] = 0xFFFD
_LOWER = {c: c + 32 for c in range(0x41, 0x5B)}

# 13.2.5.80 numeric character reference end state: replacement table
_C1 = {
    0x80: "\u20ac", 0x82: "\u201a", 0x83: "\u0192", 0x84: "\u201e", 0x85: "\u2026",
    0x86: "\u2020", 0x87: "\u2021", 0x88: "\u02c6", 0x89: "\u2030", 0x8A: "\u0160",
    0x8B: "\u2039", 0x8C: "\u0152", 0x8E: "\u017d", 0x91: "\u2018", 0x92: "\u2019",
    0x93: "\u201c", 0x94: "\u201d", 0x95: "\u2022", 0x96: "\u2013", 0x97: "\u2014",
    0x98: "\u02dc", 0x99: "\u2122", 0x9A: "\u0161", 0x9B: "\u203a", 0x9C: "\u0153",
    0x9E: "\u017e", 0x9F: "\u0178",
}

# named references: those that end in ';' and the legacy ones that do not
_LEGACY = {k: v for k, v in _HTML5.items() if not k.endswith(";")}
_LEGACY_MAX = max(len(k) for k in _LEGACY)

_RCDATA_ELEMENTS = frozenset(("textarea", "title"))
_RAWTEXT_ELEMENTS = frozenset(("style", "xmp", "iframe", "noembed", "noframes", "noscript"))

_BREAKOUT = frozenset((
    "b", "big", "blockquote", "body", "br", "center", "code", "dd", "div", "dl", "dt",
    "em", "embed", "h1", "h2", "h3", "h4", "h5", "h6", "head", "hr", "i", "img", "li",
    "listing", "menu", "meta", "nobr", "ol", "p", "pre", "ruby", "s", "small", "span",
    "strong", "strike", "sub", "sup", "table", "tt", "u", "ul", "var"))
_SVG_INTEGRATION = frozenset(("foreignobject", "desc", "title"))
_MATH_TEXT_INTEGRATION = frozenset(("mi", "mo", "mn", "ms", "mtext"))

_alnum_run = re.compile(r"[0-9A-Za-z]+").match
_num_ref = re.compile(r"#(?:[xX]([0-9A-Fa-f]+)|([0-9]+))(;?)").match
_ws_run = re.compile(r"[\t\n\f\r ]*").match
_tag_name_run = re.compile(r"[^\t\n\f\r />]*").match
_attr_name_run = re.compile(r"[^\t\n\f\r />=]*").match
_unquoted_run = re.compile(r"[^\t\n\f\r >]*").match
_comment_stop = re.compile(r"[<\-]").search

# --------------------------------------------------------------------------------------
# states (names per the standard)

(DATA, RCDATA, RAWTEXT, SCRIPT_DATA, PLAINTEXT, TAG_OPEN, END_TAG_OPEN, TAG_NAME,
 BEFORE_ATTRIBUTE_NAME, ATTRIBUTE_NAME, AFTER_ATTRIBUTE_NAME, BEFORE_ATTRIBUTE_VALUE,
 AFTER_ATTRIBUTE_VALUE_QUOTED, SELF_CLOSING_START_TAG, BOGUS_COMMENT,
 MARKUP_DECLARATION_OPEN, COMMENT_START, COMMENT_START_DASH, COMMENT,
 COMMENT_LESS_THAN_SIGN, COMMENT_LESS_THAN_SIGN_BANG, COMMENT_LESS_THAN_SIGN_BANG_DASH,
 COMMENT_LESS_THAN_SIGN_BANG_DASH_DASH, COMMENT_END_DASH, COMMENT_END, COMMENT_END_BANG,
 DOCTYPE, CDATA_SECTION, EMIT_TAG) = range(29)
# The three "attribute value (...)" states are consumed in bulk inside
# BEFORE_ATTRIBUTE_VALUE (see there); the character reference states are _charref().

_INITIAL_STATES = {
    "data": DATA, "rcdata": RCDATA, "rawtext": RAWTEXT, "script data": SCRIPT_DATA,
    "script": SCRIPT_DATA, "plaintext": PLAINTEXT, "cdata section": CDATA_SECTION,
}


# --------------------------------------------------------------------------------------
# character references (13.2.5.72 - 13.2.5.80)

def _charref(s, i, n, in_attr):
    """s[i] == '&'; only s[:n] is visible.  Returns (replacement, next_index).

    When nothing is recognised the standard flushes the temporary buffer ("&", "&#" or
    "&#x", or in the attribute exception "&name") and reconsumes in the return state; none
    of the flushed characters is special in any return state, so returning ("&", i + 1)
    and letting the caller carry on is equivalent.
    """
    j = i + 1
    if j >= n:
        return "&", j
    c = s[j]
    if c == "#":
        m = _num_ref(s, j, n)
        if m is None:                                  # absence-of-digits
            return "&", j
        hexd, decd = m.group(1), m.group(2)
        if hexd is not None:
            d = hexd.lstrip("0")
            code = 0x110000 if len(d) > 6 else (int(d, 16) if d else 0)
        else:
            d = decd.lstrip("0")
            code = 0x110000 if len(d) > 7 else (int(d) if d else 0)
        if code == 0 or code > 0x10FFFF or 0xD800 <= code <= 0xDFFF:
            return "\ufffd", m.end()
        r = _C1.get(code)
        return (r if r is not None else chr(code)), m.end()
    if c not in _ALNUM:
        return "&", j
    # named character reference state: longest match against the table
    m = _alnum_run(s, j, n)
    k = m.end()
    if k < n and s[k] == ";":
        v = _HTML5.get(s[j:k + 1])
        if v is not None:
            return v, k + 1
    # only the legacy names can match without ';' - try the longest prefix first
    L = k - j
    if L > _LEGACY_MAX:
        L = _LEGACY_MAX
    while L > 1:
        v = _LEGACY.get(s[j:j + L])
        if v is not None:
            e = j + L
            if in_attr and e < n and (s[e] == "=" or s[e] in _ALNUM):
                return "&", j                          # historical attribute exception
            return v, e
        L -= 1
    return "&", j                                      # ambiguous ampersand


def _decode(chunk, in_attr):
    """Decode every character reference in chunk (which contains at least one '&')."""
    out = []
    i = 0
    n = len(chunk)
    find = chunk.find
    while True:
        j = find("&", i)
        if j < 0:
            out.append(chunk[i:])
            break
        if j > i:
            out.append(chunk[i:j])
        r, i = _charref(chunk, j, n, in_attr)
        out.append(r)
    return "".join(out)


def _normalize_newlines(text):
    out = []
    offs = []
    for m in re.finditer(r"\r\n?|[^\r]+", text):
        a = m.start()
        if text[a] == "\r":
            out.append("\n")
            offs.append(a)
        else:
            out.append(m.group())
            offs.extend(range(a, m.end()))
    offs.append(len(text))
    return "".join(out), offs


_end_tag_cache = {}


def _end_tag_search(name):
    """Compiled search for the "appropriate end tag" `</name` + (ws | '/' | '>'),
    ASCII-case-insensitive only (explicit [xX] classes: re.I would also fold U+017F,
    U+212A, U+0130, U+0131).  None if no end tag can ever be appropriate: the RCDATA /
    RAWTEXT / script data end tag name states only accept ASCII alpha."""
    try:
        return _end_tag_cache[name]
    except KeyError:
        pass
    if name and all(ch in _ALPHA for ch in name):
        pat = "</" + "".join("[%s%s]" % (ch.lower(), ch.upper()) for ch in name)
        r = re.compile(pat + r"(?=[\t\n\f\r />])").search
    else:
        r = None
    if len(_end_tag_cache) < 256:
        _end_tag_cache[name] = r
    return r


# --------------------------------------------------------------------------------------

def tokenize(text, initial_state="data", *, last_start_tag=None,
             normalize_newlines=True, svg_script_data=False):
    key = " ".join(str(initial_state).lower().replace("_", " ").split())
    if key.endswith(" state"):
        key = key[:-6]
    if key not in _INITIAL_STATES:
        raise ValueError("unknown initial state %r" % (initial_state,))
    state = _INITIAL_STATES[key]

    offs = None
    if normalize_newlines and "\r" in text:
        text, offs = _normalize_newlines(text)

    n = len(text)
    i = 0
    find = text.find
    tokens = []
    append = tokens.append
    tbuf = []                 # pending character tokens, coalesced
    tpos = -1
    last_start = last_start_tag.translate(_LOWER) if last_start_tag else ""
    # foreign-content stack: (element name, kind) with kind in "svg" | "math" | "html"
    # ("html" = an integration point whose content is parsed as HTML)
    fstack = []
    fcount = {}               # element name -> number of entries in fstack
    foreign = False           # == bool(fstack) and fstack[-1][1] != "html"
    if state == CDATA_SECTION:
        fstack.append(("svg", "svg"))
        fcount["svg"] = 1
        foreign = True

    tagstart = 0
    is_end = False
    name = ""
    attrs = []
    seen = set()
    aname = None
    aval = ""
    a_eq = False
    self_closing = False
    cbuf = []
    cpos = 0

    while True:
        # ------------------------------------------------------------------ data
        if state == DATA:
            j = find("<", i)
            if j < 0:
                j = n
            if j > i:
                chunk = text[i:j]
                if "&" in chunk:
                    chunk = _decode(chunk, False)
                if tpos < 0:
                    tpos = i
                tbuf.append(chunk)          # NUL is emitted as-is in the data state
            if j >= n:
                break
            tagstart = j
            i = j + 1
            state = TAG_OPEN

        # -------------------------------------------------------------- tag open
        elif state == TAG_OPEN:
            if i >= n:                      # eof-before-tag-name: emit "<"
                if tpos < 0:
                    tpos = tagstart
                tbuf.append("<")
                break
            c = text[i]
            if c in _ALPHA:
                is_end = False
                state = TAG_NAME            # reconsume
            elif c == "/":
                i += 1
                state = END_TAG_OPEN
            elif c == "!":
                i += 1
                state = MARKUP_DECLARATION_OPEN
            elif c == "?":                  # unexpected-question-mark-instead-of-tag-name
                cbuf = []
                cpos = tagstart
                state = BOGUS_COMMENT       # reconsume: '?' becomes comment data
            else:                           # invalid-first-character-of-tag-name
                if tpos < 0:
                    tpos = tagstart
                tbuf.append("<")
                state = DATA                # reconsume

        elif state == END_TAG_OPEN:
            if i >= n:                      # eof-before-tag-name: emit "</"
                if tpos < 0:
                    tpos = tagstart
                tbuf.append("</")
                break
            c = text[i]
            if c in _ALPHA:
                is_end = True
                state = TAG_NAME            # reconsume
            elif c == ">":                  # missing-end-tag-name: nothing emitted
                i += 1
                state = DATA
            else:                           # invalid-first-character-of-tag-name
                cbuf = []
                cpos = tagstart
                state = BOGUS_COMMENT       # reconsume

        # -------------------------------------------------------------- tag name
        elif state == TAG_NAME:
            j = _tag_name_run(text, i).end()
            if j >= n:
                break                       # eof-in-tag: the tag is dropped
            name = text[i:j].translate(_LOWER_NUL)
            attrs = []
            seen = set()
            aname = None
            self_closing = False
            c = text[j]
            i = j + 1
            if c == ">":
                state = EMIT_TAG
            elif c == "/":
                state = SELF_CLOSING_START_TAG
            else:
                state = BEFORE_ATTRIBUTE_NAME

        elif state == BEFORE_ATTRIBUTE_NAME:
            i = _ws_run(text, i).end()
            if i >= n:
                break                       # (via after attribute name) eof-in-tag
            c = text[i]
            if c == "/":                    # reconsume in after attribute name -> '/'
                i += 1
                state = SELF_CLOSING_START_TAG
            elif c == ">":                  # reconsume in after attribute name -> '>'
                i += 1
                state = EMIT_TAG
            elif c == "=":                  # unexpected-equals-sign-before-attribute-name
                i += 1
                a_eq = True
                state = ATTRIBUTE_NAME
            else:
                a_eq = False
                state = ATTRIBUTE_NAME      # reconsume

        elif state == ATTRIBUTE_NAME:
            # "start a new attribute": first finish the previous one.  Duplicate check
            # (first occurrence wins, the later one is dropped with its value).
            if aname is not None and aname not in seen:
                seen.add(aname)
                attrs.append((aname, aval))
            j = _attr_name_run(text, i).end()   # '"', "'", '<' are ordinary here
            aname = text[i:j].translate(_LOWER_NUL)
            if a_eq:
                aname = "=" + aname
                a_eq = False
            aval = ""
            if j >= n:
                break                       # eof-in-tag
            if text[j] == "=":
                i = j + 1
                state = BEFORE_ATTRIBUTE_VALUE
            else:
                i = j
                state = AFTER_ATTRIBUTE_NAME    # reconsume

        elif state == AFTER_ATTRIBUTE_NAME:
            i = _ws_run(text, i).end()
            if i >= n:
                break                       # eof-in-tag
            c = text[i]
            if c == "/":
                i += 1
                state = SELF_CLOSING_START_TAG
            elif c == "=":
                i += 1
                state = BEFORE_ATTRIBUTE_VALUE
            elif c == ">":
                i += 1
                state = EMIT_TAG
            else:
                a_eq = False
                state = ATTRIBUTE_NAME      # start a new attribute, reconsume

        elif state == BEFORE_ATTRIBUTE_VALUE:
            i = _ws_run(text, i).end()
            if i >= n:
                break                       # (via unquoted) eof-in-tag
            c = text[i]
            if c == '"' or c == "'":
                # attribute value (double-quoted / single-quoted) state
                j = find(c, i + 1)
                if j < 0:
                    break                   # eof-in-tag
                v = text[i + 1:j]
                if "\0" in v:
                    v = v.replace("\0", "\ufffd")
                if "&" in v:
                    v = _decode(v, True)
                aval = v
                i = j + 1
                state = AFTER_ATTRIBUTE_VALUE_QUOTED
            elif c == ">":                  # missing-attribute-value
                i += 1
                state = EMIT_TAG
            else:
                # attribute value (unquoted) state; '"', "'", '<', '=', '`' and '/' are
                # ordinary characters here
                j = _unquoted_run(text, i).end()
                if j >= n:
                    break                   # eof-in-tag
                v = text[i:j]
                if "\0" in v:
                    v = v.replace("\0", "\ufffd")
                if "&" in v:
                    v = _decode(v, True)
                aval = v
                i = j + 1
                state = EMIT_TAG if text[j] == ">" else BEFORE_ATTRIBUTE_NAME

        elif state == AFTER_ATTRIBUTE_VALUE_QUOTED:
            if i >= n:
                break                       # eof-in-tag
            c = text[i]
            if c in _WS:
                i += 1
                state = BEFORE_ATTRIBUTE_NAME
            elif c == "/":
                i += 1
                state = SELF_CLOSING_START_TAG
            elif c == ">":
                i += 1
                state = EMIT_TAG
            else:                           # missing-whitespace-between-attributes
                state = BEFORE_ATTRIBUTE_NAME   # reconsume

        elif state == SELF_CLOSING_START_TAG:
            if i >= n:
                break                       # eof-in-tag
            if text[i] == ">":
                i += 1
                self_closing = True
                state = EMIT_TAG
            else:                           # unexpected-solidus-in-tag
                state = BEFORE_ATTRIBUTE_NAME   # reconsume

        # ------------------------------------------- emit tag + tree-builder feedback
        elif state == EMIT_TAG:
            if aname is not None:
                if aname not in seen:
                    attrs.append((aname, aval))
                aname = None
            if tbuf:
                append(Token("text", "", [], False, "".join(tbuf), tpos))
                tbuf = []
                tpos = -1
            state = DATA
            if is_end:
                append(Token("endtag", name, attrs, self_closing, "", tagstart))
                if fstack:
                    if foreign:
                        if name == "p" or name == "br":
                            while fstack and fstack[-1][1] != "html":
                                fcount[fstack.pop()[0]] -= 1
                        elif fcount.get(name):
                            # pop up to and including the nearest entry of that name
                            # (the count check keeps unmatched end tags O(1))
                            while True:
                                top = fstack.pop()[0]
                                fcount[top] -= 1
                                if top == name:
                                    break
                    elif fstack[-1][0] == name:
                        fcount[fstack.pop()[0]] -= 1
                    foreign = bool(fstack) and fstack[-1][1] != "html"
            else:
                append(Token("starttag", name, attrs, self_closing, "", tagstart))
                last_start = name
                if foreign:
                    if name in _BREAKOUT or (name == "font" and any(
                            a in ("color", "face", "size") for a, _ in attrs)):
                        while fstack and fstack[-1][1] != "html":
                            fcount[fstack.pop()[0]] -= 1
                        foreign = False     # reprocessed as HTML content (below)
                    else:
                        ns = fstack[-1][1]
                        if not self_closing:
                            push = None
                            if name == "svg" or name == "math":
                                push = ns       # inserted in the current node's namespace
                            elif ns == "svg":
                                if name in _SVG_INTEGRATION:
                                    push = "html"
                                elif name == "script" and svg_script_data:
                                    state = SCRIPT_DATA
                            elif name in _MATH_TEXT_INTEGRATION:
                                push = "html"
                            elif name == "annotation-xml":
                                for a, v in attrs:
                                    if a == "encoding":
                                        if v.translate(_LOWER) in (
                                                "text/html", "application/xhtml+xml"):
                                            push = "html"
                                        break
                            if push is not None:
                                fstack.append((name, push))
                                fcount[name] = fcount.get(name, 0) + 1
                                foreign = push != "html"
                        continue
                # HTML content
                if name in _RCDATA_ELEMENTS:
                    state = RCDATA
                elif name in _RAWTEXT_ELEMENTS:
                    state = RAWTEXT
                elif name == "script":
                    state = SCRIPT_DATA
                elif name == "plaintext":
                    state = PLAINTEXT
                elif (name == "svg" or name == "math") and not self_closing:
                    fstack.append((name, name))
                    fcount[name] = fcount.get(name, 0) + 1
                    foreign = True

        # ---------------------------------------- RCDATA / RAWTEXT / script data
        elif state == RCDATA or state == RAWTEXT or state == SCRIPT_DATA:
            srch = _end_tag_search(last_start)
            m = srch(text, i) if srch is not None else None
            j = m.start() if m is not None else n
            if j > i:
                chunk = text[i:j]
                if "\0" in chunk:
                    chunk = chunk.replace("\0", "\ufffd")
                if state == RCDATA and "&" in chunk:
                    chunk = _decode(chunk, False)
                if tpos < 0:
                    tpos = i
                tbuf.append(chunk)
            if m is None:
                break
            tagstart = j
            i = j + 2
            is_end = True
            state = TAG_NAME

        elif state == PLAINTEXT:
            if i < n:
                if tpos < 0:
                    tpos = i
                tbuf.append(text[i:].replace("\0", "\ufffd"))
            break

        # ---------------------------------------------- markup declaration open
        elif state == MARKUP_DECLARATION_OPEN:
            if text.startswith("--", i):
                i += 2
                cbuf = []
                cpos = tagstart
                state = COMMENT_START
            elif text[i:i + 7].translate(_LOWER) == "doctype":
                i += 7
                state = DOCTYPE
            elif text.startswith("[CDATA[", i):
                i += 7
                if foreign:
                    state = CDATA_SECTION
                else:                       # cdata-in-html-content
                    cbuf = ["[CDATA["]
                    cpos = tagstart
                    state = BOGUS_COMMENT
            else:                           # incorrectly-opened-comment
                cbuf = []
                cpos = tagstart
                state = BOGUS_COMMENT

        elif state == BOGUS_COMMENT:
            j = find(">", i)
            if j < 0:
                cbuf.append(text[i:])
                i = n
            else:
                cbuf.append(text[i:j])
                i = j + 1
            if tbuf:
                append(Token("text", "", [], False, "".join(tbuf), tpos))
                tbuf = []
                tpos = -1
            append(Token("comment", "", [], False,
                         "".join(cbuf).replace("\0", "\ufffd"), cpos))
            if j < 0:
                break
            state = DATA

        # -------------------------------------------------------------- comments
        # Every path that finishes a comment sets state = -1 ("emit comment"), handled
        # at the bottom; `done` tells whether EOF was hit.
        elif state == COMMENT_START:
            c = text[i] if i < n else ""
            if c == "-":
                i += 1
                state = COMMENT_START_DASH
            elif c == ">":                  # abrupt-closing-of-empty-comment
                i += 1
                state = -1
            else:
                state = COMMENT             # reconsume

        elif state == COMMENT_START_DASH:
            c = text[i] if i < n else ""
            if c == "-":
                i += 1
                state = COMMENT_END
            elif c == ">":                  # abrupt-closing-of-empty-comment
                i += 1
                state = -1
            elif c == "":                   # eof-in-comment
                state = -1
            else:
                cbuf.append("-")
                state = COMMENT             # reconsume

        elif state == COMMENT:
            m = _comment_stop(text, i)
            if m is None:                   # eof-in-comment
                cbuf.append(text[i:])
                i = n
                state = -1
            else:
                j = m.start()
                if j > i:
                    cbuf.append(text[i:j])
                i = j + 1
                if text[j] == "<":
                    cbuf.append("<")
                    state = COMMENT_LESS_THAN_SIGN
                else:
                    state = COMMENT_END_DASH

        elif state == COMMENT_LESS_THAN_SIGN:
            c = text[i] if i < n else ""
            if c == "!":
                cbuf.append("!")
                i += 1
                state = COMMENT_LESS_THAN_SIGN_BANG
            elif c == "<":
                cbuf.append("<")
                i += 1
            else:
                state = COMMENT             # reconsume

        elif state == COMMENT_LESS_THAN_SIGN_BANG:
            if i < n and text[i] == "-":
                i += 1
                state = COMMENT_LESS_THAN_SIGN_BANG_DASH
            else:
                state = COMMENT             # reconsume

        elif state == COMMENT_LESS_THAN_SIGN_BANG_DASH:
            if i < n and text[i] == "-":
                i += 1
                state = COMMENT_LESS_THAN_SIGN_BANG_DASH_DASH
            else:
                state = COMMENT_END_DASH    # reconsume

        elif state == COMMENT_LESS_THAN_SIGN_BANG_DASH_DASH:
            # '>' or EOF: fine; anything else: nested-comment error.  Same recovery.
            state = COMMENT_END             # reconsume

        elif state == COMMENT_END_DASH:
            c = text[i] if i < n else ""
            if c == "-":
                i += 1
                state = COMMENT_END
            elif c == "":                   # eof-in-comment
                state = -1
            else:
                cbuf.append("-")
                state = COMMENT             # reconsume

        elif state == COMMENT_END:
            c = text[i] if i < n else ""
            if c == ">":
                i += 1
                state = -1
            elif c == "!":
                i += 1
                state = COMMENT_END_BANG
            elif c == "-":
                cbuf.append("-")
                i += 1
            elif c == "":                   # eof-in-comment
                state = -1
            else:
                cbuf.append("--")
                state = COMMENT             # reconsume

        elif state == COMMENT_END_BANG:
            c = text[i] if i < n else ""
            if c == "-":
                cbuf.append("--!")
                i += 1
                state = COMMENT_END_DASH
            elif c == ">":                  # incorrectly-closed-comment
                i += 1
                state = -1
            elif c == "":                   # eof-in-comment
                state = -1
            else:
                cbuf.append("--!")
                state = COMMENT             # reconsume

        # ------------------------------------------------------- DOCTYPE / CDATA
        elif state == DOCTYPE:
            j = find(">", i)
            if tbuf:
                append(Token("text", "", [], False, "".join(tbuf), tpos))
                tbuf = []
                tpos = -1
            if j < 0:                       # eof-in-doctype: token still emitted
                append(Token("doctype", "", [], False, text[i:], tagstart))
                break
            append(Token("doctype", "", [], False, text[i:j], tagstart))
            i = j + 1
            state = DATA

        elif state == CDATA_SECTION:
            j = find("]]>", i)
            e = n if j < 0 else j
            if e > i:
                if tpos < 0:
                    tpos = tagstart if i >= 9 and tagstart == i - 9 else i
                tbuf.append(text[i:e])      # NUL emitted as-is, no references decoded
            if j < 0:
                break                       # eof-in-cdata
            i = j + 3
            state = DATA

        else:                               # pragma: no cover
            raise AssertionError("bad state %r" % (state,))

        if state == -1:                     # emit the current comment token
            if tbuf:
                append(Token("text", "", [], False, "".join(tbuf), tpos))
                tbuf = []
                tpos = -1
            append(Token("comment", "", [], False,
                         "".join(cbuf).replace("\0", "\ufffd"), cpos))
            state = DATA                    # at EOF the data state terminates at once

    if tbuf:
        append(Token("text", "", [], False, "".join(tbuf), tpos))
    if offs is not None:
        tokens = [t._replace(pos=offs[t.pos]) for t in tokens]
    return tokens


def tags(text, initial_state="data", **kw):
    """(kind, name, attrs) for start and end tags only."""
    return [(t.kind, t.name, t.attrs) for t in tokenize(text, initial_state, **kw)
            if t.kind == "starttag" or t.kind == "endtag"]


CONTEXTS = (
    "{}",
    "<div>{}</div>",
    "<p title=\"{}",
    "<textarea>{}</textarea>",
    "<!--{}-->",
    "<svg>{}</svg>",
    "<script>{}</script>",
    "<style>{}</style>",
)


def live_elements(text, contexts=True):
    """Names of all start tags that begin inside `text` when it is tokenized on its own
    and (contexts=True) embedded in each of CONTEXTS; both svg-script variants are tried."""
    out = set()
    for ctx in (CONTEXTS if contexts else CONTEXTS[:1]):
        prefix, _, suffix = ctx.partition("{}")
        lo = len(prefix)
        hi = lo + len(text)
        whole = prefix + text + suffix
        for variant in (False, True):
            for t in tokenize(whole, svg_script_data=variant):
                if t.kind == "starttag" and lo <= t.pos < hi:
                    out.add(t.name)
    return out
