"""Independent oracle for C09: instants <-> civil fields by the era algorithm (days_from_civil /
civil_from_days, proleptic Gregorian), weekday, day of year, and renderers for every supported
date format.  Uses neither Python's datetime nor feedparser nor the Lean transcription of
_ord2ymd.  An instant is an integer number of seconds since 0001-01-01T00:00:00Z."""

MONTHS = ["Jan", "Feb", "Mar", "Apr", "May", "Jun", "Jul", "Aug", "Sep", "Oct", "Nov", "Dec"]
DAYS = ["Mon", "Tue", "Wed", "Thu", "Fri", "Sat", "Sun"]
# RFC 822 zones + the five documented invalid ones (docs/date-parsing.rst); hours east of UTC
NAMED_ZONES = {"UT": 0, "GMT": 0, "Z": 0, "EST": -5, "EDT": -4, "CST": -6, "CDT": -5, "MST": -7, "MDT": -6, "PST": -8, "PDT": -7,
               "A": -1, "M": -12, "N": 1, "Y": 12, "AT": -4, "ET": -5, "CT": -6, "MT": -7, "PT": -8}
MIN_INSTANT = 0
MAX_INSTANT = 3652059 * 86400 - 1          # 9999-12-31T23:59:59


def days_from_civil(y, m, d):
    """days since 0001-01-01 (day 0)"""
    y -= m <= 2
    era = (y if y >= 0 else y - 399) // 400
    yoe = y - era * 400
    doy = (153 * (m + (-3 if m > 2 else 9)) + 2) // 5 + d - 1
    doe = yoe * 365 + yoe // 4 - yoe // 100 + doy
    return era * 146097 + doe - 306          # 0000-03-01 is day -306 relative to 0001-01-01


def civil_from_days(z):
    z += 306
    era = (z if z >= 0 else z - 146096) // 146097
    doe = z - era * 146097
    yoe = (doe - doe // 1460 + doe // 36524 - doe // 146096) // 365
    y = yoe + era * 400
    doy = doe - (365 * yoe + yoe // 4 - yoe // 100)
    mp = (5 * doy + 2) // 153
    d = doy - (153 * mp + 2) // 5 + 1
    m = mp + (3 if mp < 10 else -9)
    return (y + (m <= 2), m, d)


def fields(instant):
    """(y, m, d, H, M, S) of an instant"""
    days, sec = divmod(instant, 86400)
    y, m, d = civil_from_days(days)
    return (y, m, d, sec // 3600, sec % 3600 // 60, sec % 60)


def tuple9(instant):
    days, _sec = divmod(instant, 86400)
    y, m, d, H, M, S = fields(instant)
    wday = days % 7                      # 0001-01-01 was a Monday
    yday = days - days_from_civil(y, 1, 1) + 1
    return (y, m, d, H, M, S, wday, yday, 0)


def local(instant, offmin):
    """civil fields + weekday of the local time at UTC offset offmin; None if outside years 1..9999"""
    loc = instant + offmin * 60
    if loc < MIN_INSTANT or loc > MAX_INSTANT:
        return None
    y, m, d, H, M, S = fields(loc)
    return (y, m, d, H, M, S, (loc // 86400) % 7, loc // 86400 - days_from_civil(y, 1, 1) + 1)


def off_hhmm(offmin, colon=False):
    sign = "-" if offmin < 0 else "+"
    a = abs(offmin)
    return "%s%02d%s%02d" % (sign, a // 60, ":" if colon else "", a % 60)


# ---------------------------------------------------------------- renderers: (instant, offmin) -> str | None
def r822(instant, offmin, year2=False, zone="num", dayname=True, comma_nospace=False, zname=None, month_full=False):
    l = local(instant, offmin)
    if l is None:
        return None
    y, m, d, H, M, S, wd, _ = l
    if year2:
        if not 1990 <= y <= 2089:
            return None
        ys = "%02d" % (y % 100)
    else:
        ys = "%04d" % y
    if zone == "num":
        z = off_hhmm(offmin)
    elif zone == "colon":
        z = off_hhmm(offmin, True)
    elif zone == "gmt":
        z = "GMT" + off_hhmm(offmin, True) if offmin else "GMT"
    elif zone == "etc":
        z = "Etc/GMT" if offmin == 0 else None
    else:
        if zname is None or NAMED_ZONES[zname] * 60 != offmin:
            return None
        z = zname
    if z is None:
        return None
    mon = MONTHS[m - 1]
    if month_full:
        mon = ["January", "February", "March", "April", "May", "June", "July", "August", "September", "October", "November", "December"][m - 1]
    body = "%02d %s %s %02d:%02d:%02d %s" % (d, mon, ys, H, M, S, z)
    if not dayname:
        return body
    return DAYS[wd] + ("," if comma_nospace else ", ") + body


def rw3(instant, offmin, sep="T", zone="colon", frac=None, case=str):
    l = local(instant, offmin)
    if l is None:
        return None
    y, m, d, H, M, S, _, _ = l
    if zone == "Z":
        if offmin:
            return None
        z = "Z"
    elif zone == "none":
        if offmin:
            return None
        z = ""
    else:
        z = off_hhmm(offmin, True)
    s = "%04d-%02d-%02d%s%02d:%02d:%02d%s%s" % (y, m, d, sep, H, M, S, "." + frac if frac else "", z)
    return case(s)


def rw3_dateonly(instant, offmin, prec="day"):
    """date-only forms denote midnight UTC"""
    if offmin:
        return None
    y, m, d, H, M, S = fields(instant)
    if (H, M, S) != (0, 0, 0):
        return None
    if prec == "day":
        return "%04d-%02d-%02d" % (y, m, d)
    if prec == "month":
        return "%04d-%02d" % (y, m) if d == 1 else None
    return "%04d" % y if (m, d) == (1, 1) else None


def rmssql(instant, offmin, frac=True):
    if offmin:
        return None
    y, m, d, H, M, S = fields(instant)
    return "%04d-%02d-%02d %02d:%02d:%02d%s" % (y, m, d, H, M, S, ".0" if frac else "")


def riso_basic(instant, offmin, form="date"):
    l = local(instant, offmin)
    if l is None:
        return None
    y, m, d, H, M, S, _, yd = l
    if form == "date":
        if offmin or (H, M, S) != (0, 0, 0):
            return None
        return "%04d%02d%02d" % (y, m, d)
    if form == "ordinal":
        if offmin or (H, M, S) != (0, 0, 0):
            return None
        return "%04d-%03d" % (y, yd)
    if form == "ordinal-basic":
        if offmin or (H, M, S) != (0, 0, 0):
            return None
        return "%04d%03d" % (y, yd)
    z = "Z" if offmin == 0 else off_hhmm(offmin, True)
    return "%04d%02d%02dT%02d:%02d:%02d%s" % (y, m, d, H, M, S, z)


def rasctime(instant, offmin, zone="none", zname=None):
    l = local(instant, offmin)
    if l is None:
        return None
    y, m, d, H, M, S, wd, _ = l
    if zone == "none":
        if offmin:
            return None
        return "%s %s %2d %02d:%02d:%02d %04d" % (DAYS[wd], MONTHS[m - 1], d, H, M, S, y)
    if zone == "num":
        z = off_hhmm(offmin)
    else:
        if zname is None or NAMED_ZONES[zname] * 60 != offmin:
            return None
        z = zname
    return "%s %s %2d %02d:%02d:%02d %s %04d" % (DAYS[wd], MONTHS[m - 1], d, H, M, S, z, y)


def rkorean_onblog(instant, offmin):
    if offmin != 540:
        return None
    l = local(instant, offmin)
    if l is None:
        return None
    y, m, d, H, M, S, _, _ = l
    return "%04d년 %02d월 %02d일 %02d:%02d:%02d" % (y, m, d, H, M, S)


def rkorean_nate(instant, offmin):
    if offmin != 540:
        return None
    l = local(instant, offmin)
    if l is None:
        return None
    y, m, d, H, M, S, _, _ = l
    if H >= 12:
        return "%04d-%02d-%02d 오후 %02d:%02d:%02d" % (y, m, d, H - 12, M, S)
    return "%04d-%02d-%02d 오전 %02d:%02d:%02d" % (y, m, d, H, M, S)


GREEK_MONTHS = ["Ιαν", "Φεβ", "Μάρ", "Απρ", "Μάι", "Ιούν", "Ιούλ", "Αύγ", "Σεπ", "Οκτ", "Νοέ", "Δεκ"]
GREEK_DAYS = ["Δευ", "Τρι", "Τετ", "Πεμ", "Παρ", "Σαβ", "Κυρ"]


def rgreek(instant, offmin, zname=None):
    l = local(instant, offmin)
    if l is None:
        return None
    y, m, d, H, M, S, wd, _ = l
    if zname is not None:
        if NAMED_ZONES[zname] * 60 != offmin:
            return None
        z = zname
    else:
        z = off_hhmm(offmin)
    return "%s, %02d %s %04d %02d:%02d:%02d %s" % (GREEK_DAYS[wd], d, GREEK_MONTHS[m - 1], y, H, M, S, z)


HUNGARIAN_MONTHS = ["január", "február", "március", "április", "május", "június", "július",
                    "augusztus", "szeptember", "október", "november", "december"]


def rhungarian(instant, offmin, pad=True):
    l = local(instant, offmin)
    if l is None:
        return None
    y, m, d, H, M, S, _, _ = l
    if S:
        return None
    if pad:
        return "%04d-%s-%02dT%02d:%02d%s" % (y, HUNGARIAN_MONTHS[m - 1], d, H, M, off_hhmm(offmin, True))
    return "%04d-%s-%dT%d:%02d%s" % (y, HUNGARIAN_MONTHS[m - 1], d, H, M, off_hhmm(offmin, True))


def rperforce(instant, offmin, zname="GMT"):
    l = local(instant, offmin)
    if l is None:
        return None
    y, m, d, H, M, S, wd, _ = l
    if NAMED_ZONES[zname] * 60 != offmin or len(zname) != 3 or y < 1000:
        return None
    return "%s, %04d/%02d/%02d %02d:%02d:%02d %s" % (DAYS[wd], y, m, d, H, M, S, zname)
