"""Tests for html5tok.py.  Run:  /venv/bin/python /verif/tools/oracles/test_html5tok.py

Three layers:
  1. assert-based cases whose expected values were derived by hand from the state
     descriptions in the WHATWG HTML Standard, 13.2.5 "Tokenization";
  2. a differential fuzz of the (bulk-consuming, regex-assisted) tokenizer against REF, a
     deliberately naive one-character-at-a-time transcription of the same states that is
     kept in this file (no tree-builder feedback, so it is fuzzed over an alphabet that
     cannot spell any mode-switching element name);
  3. a crash / termination fuzz (20,000 random strings) and a throughput check.
"""

import os
import random
import sys
import time
from html.entities import html5 as HTML5

sys.path.insert(0, os.path.dirname(os.path.abspath(__file__)))
import html5tok                                                     # noqa: E402
from html5tok import tokenize, tags, live_elements, Token           # noqa: E402

FFFD = "\ufffd"
NCASES = 0


def S(name, attrs=(), sc=False):
    return ("starttag", name, list(attrs), sc, "")


def E(name, attrs=(), sc=False):
    return ("endtag", name, list(attrs), sc, "")


def X(data):
    return ("text", "", [], False, data)


def C(data):
    return ("comment", "", [], False, data)


def D(data):
    return ("doctype", "", [], False, data)


def summary(text, *a, **kw):
    return [(t.kind, t.name, t.attrs, t.self_closing, t.data) for t in tokenize(text, *a, **kw)]


def check(text, *expected, **kw):
    global NCASES
    NCASES += 1
    state = kw.pop("state", "data")
    got = summary(text, state, **kw)
    assert got == list(expected), "\n input    %r %r\n got      %r\n expected %r" % (
        text, kw, got, list(expected))


def check_eq(got, expected, what=""):
    global NCASES
    NCASES += 1
    assert got == expected, "%s\n got      %r\n expected %r" % (what, got, expected)


def attrs_of(text):
    toks = tokenize(text)
    assert len(toks) == 1 and toks[0].kind == "starttag", (text, toks)
    return toks[0].attrs


# ======================================================================================
# 1. hand-derived cases
# ======================================================================================

def test_tag_open_and_names():
    # tag open state: anything that is not alpha ! / ? emits "<" and reconsumes in data
    check("<<foo>img src=x onerror=alert(1)>",
          X("<"), S("foo"), X("img src=x onerror=alert(1)>"))
    check("<1>", X("<1>"))
    check("< a>", X("< a>"))
    check("<>", X("<>"))
    check("<", X("<"))
    check("a<", X("a<"))
    check("</", X("</"))                      # eof-before-tag-name in end tag open
    check("</>")                              # missing-end-tag-name: nothing at all
    check("a</>b", X("ab"))
    check("<a", )                             # eof-in-tag: tag dropped
    check("x<a", X("x"))
    check("<aB-c:d.e1>", S("ab-c:d.e1"))
    check("<a\0b>", S("a" + FFFD + "b"))
    check("<DIV></DIV>", S("div"), E("div"))
    # only ASCII letters start a tag / are lower-cased
    check("<\u017fcript>", X("<\u017fcript>"))
    check("<\u212a>", X("<\u212a>"))
    check("<a\u212aI\u0130>", S("a\u212ai\u0130"))
    check("<p>a</p>b", S("p"), X("a"), E("p"), X("b"))
    check("</a b=c>", E("a", [("b", "c")]))   # end-tag-with-attributes: token keeps them
    check("</a/>", E("a", sc=True))


def test_attributes():
    check("<p '\n><script>alert(1)</script>",
          S("p", [("'", "")]), S("script"), X("alert(1)"), E("script"))
    check_eq(attrs_of("<a b=c/>"), [("b", "c/")])
    check("<a b=c/>", S("a", [("b", "c/")], False))
    check('<a b="c"/>', S("a", [("b", "c")], True))
    check("<a/b>", S("a", [("b", "")]))
    check("<a b='c'd=e>", S("a", [("b", "c"), ("d", "e")]))
    check("<a =b>", S("a", [("=b", "")]))
    check("<a ==c>", S("a", [("=", "c")]))
    check("<a b==c>", S("a", [("b", "=c")]))
    check("<A HREF=x Href=y>", S("a", [("href", "x")]))
    check("<a b=1 c=2 B=3 d=4>", S("a", [("b", "1"), ("c", "2"), ("d", "4")]))
    check("<a\tb\n=\x0cc>", S("a", [("b", "c")]))
    check("<a b = c>", S("a", [("b", "c")]))
    check("<a b c>", S("a", [("b", ""), ("c", "")]))
    check("<a b=>", S("a", [("b", "")]))
    check("<a b= >", S("a", [("b", "")]))
    check("<a b=\n c>", S("a", [("b", "c")]))
    check("<a \"b'<=c>", S("a", [("\"b'<", "c")]))
    check('<a b="x>y">', S("a", [("b", "x>y")]))
    check("<a b=x\"y'z`w<=>", S("a", [("b", "x\"y'z`w<=")]))
    check("<a / b>", S("a", [("b", "")], False))
    check("<a//>", S("a", [], True))
    check("<a/ >", S("a", [], False))
    check("<br/>", S("br", [], True))
    check("<a b/>", S("a", [("b", "")], True))
    check("<a b=''/>", S("a", [("b", "")], True))
    check("<a c\0D=e\0f g=\"\0\">", S("a", [("c" + FFFD + "d", "e" + FFFD + "f"), ("g", FFFD)]))
    # EOF inside a tag: nothing is emitted for it
    check('<a href="x')
    check('y<a href="x', X("y"))
    check("<a href='x>")
    check("<a href=x")
    check("<a href")
    check("<a href=")
    check("<a href ")
    check('<a href="x"')
    check('<a href="x"/')
    check("<a/")


def test_character_references():
    check('<a href="&#106;avascript:alert(1)">', S("a", [("href", "javascript:alert(1)")]))
    check('<a href="java&Tab;script:x">', S("a", [("href", "java\tscript:x")]))
    check('<a href="java&NewLine;script:x">', S("a", [("href", "java\nscript:x")]))
    check("<a href=&colon;x>", S("a", [("href", ":x")]))
    # attribute exception for legacy names followed by '=' or alphanumeric
    check('<a title="&ampx; &amp= &ampz=">', S("a", [("title", "&ampx; &amp= &ampz=")]))
    check("&ampx; &amp= &ampz=", X("&x; &= &z="))          # ... which does not apply in data
    check("<a b=&amp>", S("a", [("b", "&")]))
    check("<a b=&amp;c=d>", S("a", [("b", "&c=d")]))
    check("<a b=&ampc>", S("a", [("b", "&ampc")]))
    check('<a b="&amp">', S("a", [("b", "&")]))
    check('<a b="&amp!">', S("a", [("b", "&!")]))
    check('<a b="&lt=">', S("a", [("b", "&lt=")]))
    check('<a b="&lt;=">', S("a", [("b", "<=")]))
    check("<a b='&#x26;amp;'>", S("a", [("b", "&amp;")]))   # decoded once only
    check('<a b="?x=1&copy=2&reg3&para;">', S("a", [("b", "?x=1&copy=2&reg3\u00b6")]))
    # longest match
    check("&notit;", X("\u00acit;"))
    check("&notin;", X("\u2209"))
    check("&not", X("\u00ac"))
    check("&no", X("&no"))
    check("&noti", X("\u00aci"))
    check("&amp;amp;", X("&amp;"))
    check("&AMP &Amp &aMP", X("& &Amp &aMP"))              # names are case-sensitive
    check("&lt;b&gt;", X("<b>"))
    check("&CounterClockwiseContourIntegral;", X("\u2233"))
    check("&NotEqualTilde;", X("\u2242\u0338"))            # two code points
    check("&; & &x; &1; &&amp;&", X("&; & &x; &1; &&&"))
    check("&amp<b>", X("&"), S("b"))
    # numeric
    check("&#x80;", X("\u20ac"))
    check("&#128;", X("\u20ac"))
    check("&#x81;&#x8d;&#x8F;&#x90;&#x9d;", X("\x81\x8d\x8f\x90\x9d"))   # not in the table
    check("&#0;", X(FFFD))
    check("&#x0;", X(FFFD))
    check("&#xD800;", X(FFFD))
    check("&#xDFFF;", X(FFFD))
    check("&#xD7FF;&#xE000;", X("\ud7ff\ue000"))
    check("&#1114112;", X(FFFD))
    check("&#1114111;", X("\U0010ffff"))
    check("&#x110000;", X(FFFD))
    check("&#x10FFFF;", X("\U0010ffff"))
    check("&#99999999999999999999999999;", X(FFFD))
    check("&#" + "9" * 6000 + ";", X(FFFD))                # no int() size limit problems
    check("&#x" + "f" * 6000 + ";", X(FFFD))
    check("&#" + "0" * 6000 + "65;", X("A"))
    check("&#65", X("A"))                                  # missing semicolon
    check("&#65x", X("Ax"))
    check("&#x41;&#X41;&#x41", X("AAA"))
    check("&#x4g;", X("\x04g;"))
    check("&#;", X("&#;"))                                 # absence of digits
    check("&#x;", X("&#x;"))
    check("&#xg;", X("&#xg;"))
    check("&#", X("&#"))
    check("&#x", X("&#x"))
    check("&", X("&"))
    check("&#13;&#10;", X("\r\n"))                         # references are not normalised
    check("&#xFFFE;&#x1;", X("\ufffe\x01"))                # errors, but kept
    for cp in range(0x80, 0xA0):
        try:
            want = bytes([cp]).decode("cp1252")
        except UnicodeDecodeError:
            want = chr(cp)
        check("&#%d;" % cp, X(want))
    # every entry of the table decodes to its value, with and without attribute context
    global NCASES
    for name, value in HTML5.items():
        assert summary("&" + name + " ") == [X(value + " ")], name
        assert summary('<a b="&' + name + ' ">') == [S("a", [("b", value + " ")])], name
    NCASES += 1


def test_comments():
    check("<!--><script>alert(1)</script>-->",
          C(""), S("script"), X("alert(1)"), E("script"), X("-->"))
    check("<!--->x", C(""), X("x"))
    check("<!-- a --!> b", C(" a "), X(" b"))
    check("<!-- a -- b -->", C(" a -- b "))
    check("<! foo>", C(" foo"))
    check("<?pi?>", C("?pi?"))
    check("</ x>", C(" x"))
    check("</1>", C("1"))
    check("<!>", C(""))
    check("<!", C(""))
    check("<!-", C("-"))
    check("<!->", C("-"))
    check("<!--", C(""))
    check("<!---", C(""))
    check("<!----", C(""))
    check("<!---->", C(""))
    check("<!--x", C("x"))
    check("<!--x-->", C("x"))
    check("<!--a-", C("a"))
    check("<!--a--", C("a"))
    check("<!--a--!", C("a"))
    check("<!--a--!x-->", C("a--!x"))
    check("<!--a--!-->", C("a--!"))
    check("<!--a--->", C("a-"))
    check("<!--a--b-->", C("a--b"))
    check("<!--a-b-->", C("a-b"))
    check("<!---a-->", C("-a"))
    check("<!-- > -->", C(" > "))
    check("<!--a<!--b-->", C("a<!--b"))
    check("<!--<!-->", C("<!"))
    check("<!--<!--->", C("<!-"))
    check("<!--a<!-b-->", C("a<!-b"))
    check("<!--a<<!b-->", C("a<<!b"))
    check("<!--a<", C("a<"))
    check("<!--a<!", C("a<!"))
    check("<!--a<!-", C("a<!"))          # comment end dash at EOF emits without the dash
    check("<!--a<!--", C("a<!"))
    check("<!--\0-->", C(FFFD))
    check("<?\0>", C("?" + FFFD))
    check("<!--x--><b>", C("x"), S("b"))
    check("<!-- <script> --></script>", C(" <script> "), E("script"))
    check("a<!--b-->c", X("a"), C("b"), X("c"))
    check("<!DOCTYPE html>x", D(" html"), X("x"))
    check("<!doctype html", D(" html"))
    check("<!DocType>", D(""))
    check('<!DOCTYPE html PUBLIC "a>b">', D(' html PUBLIC "a'), X('b">'))
    check("<!DOCTYP html>", C("DOCTYP html"))


def test_text_modes():
    check("<textarea><script>x</script></textarea>",
          S("textarea"), X("<script>x</script>"), E("textarea"))
    check("<title><b>x</title>", S("title"), X("<b>x"), E("title"))
    check("<title>&amp;&lt;b&gt;</title>", S("title"), X("&<b>"), E("title"))     # RCDATA decodes
    check("<style><b>x</style>", S("style"), X("<b>x"), E("style"))
    check("<style>&amp;</style>", S("style"), X("&amp;"), E("style"))             # RAWTEXT does not
    check("<xmp><b></xmp>", S("xmp"), X("<b>"), E("xmp"))
    check("<plaintext><b></plaintext>", S("plaintext"), X("<b></plaintext>"))
    check("<plaintext>", S("plaintext"))
    for el in ("iframe", "noembed", "noframes", "noscript"):
        check("<%s><b>&amp;</%s>" % (el, el), S(el), X("<b>&amp;"), E(el))
    check("<textarea></textareax></TEXTAREA >y", S("textarea"), X("</textareax>"), E("textarea"), X("y"))
    check("<textarea></title></textarea>", S("textarea"), X("</title>"), E("textarea"))
    check("<script>a&lt;b<b></scriptx></script/>x",
          S("script"), X("a&lt;b<b></scriptx>"), E("script", sc=True), X("x"))
    check("<script>x</\u017fcript>y</SCRIPT\n>", S("script"), X("x</\u017fcript>y"), E("script"))
    check("<title>x</t\u0130tle></title>", S("title"), X("x</t\u0130tle>"), E("title"))
    check("<title></title foo=bar>", S("title"), E("title", [("foo", "bar")]))
    check("<title>x</title", S("title"), X("x</title"))
    check("<title>x</title y", S("title"), X("x"))        # eof-in-tag inside the end tag
    check("<title>x", S("title"), X("x"))
    check("<title/>x</title>", S("title", sc=True), X("x"), E("title"))   # flag ignored in HTML
    check("<TITLE>x</Title>", S("title"), X("x"), E("title"))
    check("<title>\0</title>", S("title"), X(FFFD), E("title"))
    check("<script>\0</script>", S("script"), X(FFFD), E("script"))
    check("<style>\0", S("style"), X(FFFD))
    check("<plaintext>\0", S("plaintext"), X(FFFD))
    check("<title></title><b>", S("title"), E("title"), S("b"))
    # deviation 2 (documented): no escaped / double-escaped script states
    check("<script><!--<script></script>--></script>",
          S("script"), X("<!--<script>"), E("script"), X("-->"), E("script"))
    # initial_state / last_start_tag (html5lib-tests style)
    check("<b>&amp;</title>x", X("<b>&"), E("title"), X("x"), state="rcdata", last_start_tag="title")
    check("<b>&amp;</title>x", X("<b>&amp;"), E("title"), X("x"), state="RAWTEXT state", last_start_tag="TITLE")
    check("</title>", X("</title>"), state="rcdata")       # no last start tag: never appropriate
    check("<b>&amp;", X("<b>&amp;"), state="plaintext")
    check("a</script>b", X("a"), E("script"), X("b"), state="script data", last_start_tag="script")
    check("x]]><b>", X("x"), S("b"), state="cdata section")


def test_foreign_content():
    check("<svg><![CDATA[<b>x]]></svg>", S("svg"), X("<b>x"), E("svg"))
    check("<![CDATA[<b>x]]>", C("[CDATA[<b"), X("x]]>"))
    check("<![CDATA[x", C("[CDATA[x"))
    check("<svg><![CDATA[x", S("svg"), X("x"))
    check("<svg><![CDATA[a]]]>", S("svg"), X("a]"))
    check("<svg><![CDATA[]]>x", S("svg"), X("x"))
    check("<svg>a<![CDATA[b&amp;\0]]>c", S("svg"), X("ab&amp;\0c"))
    check("<svg><![cdata[x]]>", S("svg"), C("[cdata[x]]"))
    check("<math><![CDATA[a]]></math>", S("math"), X("a"), E("math"))
    check("<svg><title><b>", S("svg"), S("title"), S("b"))
    check("<svg><style><a>", S("svg"), S("style"), S("a"))
    check("<svg><textarea><a>", S("svg"), S("textarea"), S("a"))
    check("<svg/><style><b>", S("svg", sc=True), S("style"), X("<b>"))
    check("<svg><svg></svg><![CDATA[x]]></svg><![CDATA[y]]>",
          S("svg"), S("svg"), E("svg"), X("x"), E("svg"), C("[CDATA[y]]"))
    check("<svg></svg><title><b>", S("svg"), E("svg"), S("title"), X("<b>"))
    # svg script: data state per the standard; script data only on request
    check("<svg><script>a&lt;b</script>", S("svg"), S("script"), X("a<b"), E("script"))
    check("<svg><script>a&lt;b</script>", S("svg"), S("script"), X("a&lt;b"), E("script"),
          svg_script_data=True)
    check("<svg><script/><a>", S("svg"), S("script", sc=True), S("a"), svg_script_data=True)
    # break-out start tags and integration points (13.2.6.5)
    check("<svg><p><style><b>", S("svg"), S("p"), S("style"), X("<b>"))
    check("<svg><font color=red><style><b>", S("svg"), S("font", [("color", "red")]), S("style"), X("<b>"))
    check("<svg><font><style><a>", S("svg"), S("font"), S("style"), S("a"))
    check("<svg></p><style><b>", S("svg"), E("p"), S("style"), X("<b>"))
    check("<svg><foreignObject><style><b></style></foreignObject><style><a>",
          S("svg"), S("foreignobject"), S("style"), X("<b>"), E("style"), E("foreignobject"),
          S("style"), S("a"))
    check("<svg><desc><![CDATA[x]]>", S("svg"), S("desc"), C("[CDATA[x]]"))
    check("<math><mi><title><b>", S("math"), S("mi"), S("title"), X("<b>"))
    check("<math><annotation-xml encoding='Text/HTML'><xmp><b>",
          S("math"), S("annotation-xml", [("encoding", "Text/HTML")]), S("xmp"), X("<b>"))
    check("<math><annotation-xml><xmp><a>", S("math"), S("annotation-xml"), S("xmp"), S("a"))
    check("<math><title><a>", S("math"), S("title"), S("a"))     # title is svg-only integration point


def test_nul_and_newlines():
    check("a\0b", X("a\0b"))                 # data state emits NUL as is (tree builder's job)
    check("<svg><![CDATA[\0]]>", S("svg"), X("\0"))
    check("a\r\nb\rc\n\rd", X("a\nb\nc\n\nd"))
    check("<a\r\nb\r=\rc>", S("a", [("b", "c")]))
    check('<a b="x\r\ny">', S("a", [("b", "x\ny")]))
    check("<!--\r-->", C("\n"))
    check("a\r\nb", X("a\r\nb"), normalize_newlines=False)
    check("<a\rb\r=\rc\r>", S("a", [("b", "c")]), normalize_newlines=False)
    check('<a b="x\r\ny">', S("a", [("b", "x\r\ny")]), normalize_newlines=False)


def test_positions_and_helpers():
    toks = tokenize("ab<i c=d>&amp;x</i><!--c--><!DOCTYPE q><?z>")
    check_eq([t.pos for t in toks], [0, 2, 9, 15, 19, 27, 39])
    toks = tokenize("\r\n<a>\r\n\r<b>")
    check_eq([(t.kind, t.pos) for t in toks],
             [("text", 0), ("starttag", 2), ("text", 5), ("starttag", 8)])
    toks = tokenize("<svg>a<![CDATA[b]]><![CDATA[c]]>")
    check_eq([(t.data, t.pos) for t in toks], [("", 0), ("abc", 5)])
    toks = tokenize("<svg><![CDATA[b]]>")
    check_eq(toks[1].pos, 5)
    check_eq(isinstance(toks[0], Token) and toks[0]._fields,
             ("kind", "name", "attrs", "self_closing", "data", "pos"))
    check_eq(tags("<a href=x>t</a><!--c-->"),
             [("starttag", "a", [("href", "x")]), ("endtag", "a", [])])
    check_eq(tags("<b>", "plaintext"), [])
    check_eq(live_elements("x"), set())
    check_eq(live_elements("<b>", contexts=False), {"b"})
    check_eq(live_elements("<b>"), {"b"})
    check_eq(live_elements("--><img src=x>"), {"img"})
    check_eq(live_elements("\"><script>"), {"script"})
    check_eq(live_elements("</textarea><svg onload=x>"), {"svg"})
    check_eq(live_elements("</script><img>"), {"img"})
    check_eq(live_elements("</style><iframe>"), {"iframe"})
    check_eq(live_elements("<![CDATA[<img>]]>"), set())
    check_eq(live_elements("]]><img>"), {"img"})
    check_eq(live_elements("<title><img>"), {"title", "img"})        # live only inside <svg>
    check_eq(live_elements("<title><img>", contexts=False), {"title"})
    try:
        tokenize("x", "no such state")
    except ValueError:
        pass
    else:
        raise AssertionError("unknown initial_state must be rejected")


# ======================================================================================
# 2. REF: naive character-at-a-time transcription of 13.2.5 (data-state start, no
#    tree-builder feedback, CDATA never allowed, DOCTYPE collapsed as in html5tok)
# ======================================================================================

WS = "\t\n\x0c "
ALPHA = "abcdefghijklmnopqrstuvwxyzABCDEFGHIJKLMNOPQRSTUVWXYZ"
DIGIT = "0123456789"
ALNUM = ALPHA + DIGIT
HEX = DIGIT + "abcdefABCDEF"
C1 = {cp: bytes([cp]).decode("cp1252") for cp in range(0x80, 0xA0)
      if cp not in (0x81, 0x8D, 0x8F, 0x90, 0x9D)}
MAXNAME = max(len(k) for k in HTML5)
ATTR_STATES = ("avdq", "avsq", "avuq")


def ref_tokenize(s):
    out = []                       # ('c', ch) or finished token tuples
    n = len(s)
    pos = 0
    state = "data"
    ret = None
    tmp = ""
    tok = None                     # {'end':bool,'name':str,'attrs':[[n,v,dropped]],'sc':bool}
    com = ""
    code = 0

    def emit_tag():
        attrs = [(a[0], a[1]) for a in tok["attrs"] if not a[2]]
        out.append(("endtag" if tok["end"] else "starttag", tok["name"], attrs, tok["sc"], ""))

    def emit_comment():
        out.append(("comment", "", [], False, com))

    def emit(chars):
        for ch in chars:
            out.append(("c", ch))

    def flush():
        if ret in ATTR_STATES:
            tok["attrs"][-1][1] += tmp
        else:
            emit(tmp)

    def leave_attr_name():
        cur = tok["attrs"][-1]
        if any(a[0] == cur[0] for a in tok["attrs"][:-1]):
            cur[2] = True

    while True:
        c = s[pos] if pos < n else None
        pos += 1                   # "consume the next input character"; reconsume = pos -= 1
        if state == "data":
            if c == "&":
                ret = "data"; state = "charref"
            elif c == "<":
                state = "tagopen"
            elif c is None:
                break
            else:
                emit(c)
        elif state == "tagopen":
            if c == "!":
                state = "mdo"
            elif c == "/":
                state = "endtagopen"
            elif c is not None and c in ALPHA:
                tok = {"end": False, "name": "", "attrs": [], "sc": False}
                pos -= 1; state = "tagname"
            elif c == "?":
                com = ""; pos -= 1; state = "bogus"
            elif c is None:
                emit("<"); break
            else:
                emit("<"); pos -= 1; state = "data"
        elif state == "endtagopen":
            if c is not None and c in ALPHA:
                tok = {"end": True, "name": "", "attrs": [], "sc": False}
                pos -= 1; state = "tagname"
            elif c == ">":
                state = "data"
            elif c is None:
                emit("</"); break
            else:
                com = ""; pos -= 1; state = "bogus"
        elif state == "tagname":
            if c is None:
                break
            elif c in WS:
                state = "beforeattrname"
            elif c == "/":
                state = "selfclosing"
            elif c == ">":
                state = "data"; emit_tag()
            elif "A" <= c <= "Z":
                tok["name"] += chr(ord(c) + 32)
            elif c == "\0":
                tok["name"] += FFFD
            else:
                tok["name"] += c
        elif state == "beforeattrname":
            if c is not None and c in WS:
                pass
            elif c is None or c in "/>":
                pos -= 1; state = "afterattrname"
            elif c == "=":
                tok["attrs"].append(["=", "", False]); state = "attrname"
            else:
                tok["attrs"].append(["", "", False]); pos -= 1; state = "attrname"
        elif state == "attrname":
            if c is None or c in WS or c in "/>":
                leave_attr_name(); pos -= 1; state = "afterattrname"
            elif c == "=":
                leave_attr_name(); state = "beforeattrvalue"
            elif "A" <= c <= "Z":
                tok["attrs"][-1][0] += chr(ord(c) + 32)
            elif c == "\0":
                tok["attrs"][-1][0] += FFFD
            else:
                tok["attrs"][-1][0] += c
        elif state == "afterattrname":
            if c is None:
                break
            elif c in WS:
                pass
            elif c == "/":
                state = "selfclosing"
            elif c == "=":
                state = "beforeattrvalue"
            elif c == ">":
                state = "data"; emit_tag()
            else:
                tok["attrs"].append(["", "", False]); pos -= 1; state = "attrname"
        elif state == "beforeattrvalue":
            if c is not None and c in WS:
                pass
            elif c == '"':
                state = "avdq"
            elif c == "'":
                state = "avsq"
            elif c == ">":
                state = "data"; emit_tag()
            else:
                pos -= 1; state = "avuq"
        elif state == "avdq" or state == "avsq":
            q = '"' if state == "avdq" else "'"
            if c is None:
                break
            elif c == q:
                state = "afterattrvalueq"
            elif c == "&":
                ret = state; state = "charref"
            elif c == "\0":
                tok["attrs"][-1][1] += FFFD
            else:
                tok["attrs"][-1][1] += c
        elif state == "avuq":
            if c is None:
                break
            elif c in WS:
                state = "beforeattrname"
            elif c == "&":
                ret = state; state = "charref"
            elif c == ">":
                state = "data"; emit_tag()
            elif c == "\0":
                tok["attrs"][-1][1] += FFFD
            else:
                tok["attrs"][-1][1] += c
        elif state == "afterattrvalueq":
            if c is None:
                break
            elif c in WS:
                state = "beforeattrname"
            elif c == "/":
                state = "selfclosing"
            elif c == ">":
                state = "data"; emit_tag()
            else:
                pos -= 1; state = "beforeattrname"
        elif state == "selfclosing":
            if c is None:
                break
            elif c == ">":
                tok["sc"] = True; state = "data"; emit_tag()
            else:
                pos -= 1; state = "beforeattrname"
        elif state == "bogus":
            if c == ">":
                state = "data"; emit_comment()
            elif c is None:
                emit_comment(); break
            elif c == "\0":
                com += FFFD
            else:
                com += c
        elif state == "mdo":
            pos -= 1               # this state only looks ahead
            if s[pos:pos + 2] == "--":
                pos += 2; com = ""; state = "commentstart"
            elif len(s[pos:pos + 7]) == 7 and all(
                    a == b or ("A" <= a <= "Z" and chr(ord(a) + 32) == b)
                    for a, b in zip(s[pos:pos + 7], "doctype")):
                pos += 7; state = "doctype"
            elif s[pos:pos + 7] == "[CDATA[":
                pos += 7; com = "[CDATA["; state = "bogus"
            else:
                com = ""; state = "bogus"
        elif state == "doctype":
            pos -= 1
            raw = ""
            while pos < n and s[pos] != ">":
                raw += s[pos]; pos += 1
            out.append(("doctype", "", [], False, raw))
            if pos >= n:
                break
            pos += 1; state = "data"
        elif state == "commentstart":
            if c == "-":
                state = "commentstartdash"
            elif c == ">":
                state = "data"; emit_comment()
            else:
                pos -= 1; state = "comment"
        elif state == "commentstartdash":
            if c == "-":
                state = "commentend"
            elif c == ">":
                state = "data"; emit_comment()
            elif c is None:
                emit_comment(); break
            else:
                com += "-"; pos -= 1; state = "comment"
        elif state == "comment":
            if c == "<":
                com += c; state = "commentlt"
            elif c == "-":
                state = "commentenddash"
            elif c == "\0":
                com += FFFD
            elif c is None:
                emit_comment(); break
            else:
                com += c
        elif state == "commentlt":
            if c == "!":
                com += c; state = "commentltbang"
            elif c == "<":
                com += c
            else:
                pos -= 1; state = "comment"
        elif state == "commentltbang":
            if c == "-":
                state = "commentltbangdash"
            else:
                pos -= 1; state = "comment"
        elif state == "commentltbangdash":
            if c == "-":
                state = "commentltbangdashdash"
            else:
                pos -= 1; state = "commentenddash"
        elif state == "commentltbangdashdash":
            pos -= 1; state = "commentend"
        elif state == "commentenddash":
            if c == "-":
                state = "commentend"
            elif c is None:
                emit_comment(); break
            else:
                com += "-"; pos -= 1; state = "comment"
        elif state == "commentend":
            if c == ">":
                state = "data"; emit_comment()
            elif c == "!":
                state = "commentendbang"
            elif c == "-":
                com += "-"
            elif c is None:
                emit_comment(); break
            else:
                com += "--"; pos -= 1; state = "comment"
        elif state == "commentendbang":
            if c == "-":
                com += "--!"; state = "commentenddash"
            elif c == ">":
                state = "data"; emit_comment()
            elif c is None:
                emit_comment(); break
            else:
                com += "--!"; pos -= 1; state = "comment"
        elif state == "charref":
            tmp = "&"
            if c is not None and c in ALNUM:
                pos -= 1; state = "namedref"
            elif c == "#":
                tmp += c; state = "numref"
            else:
                flush(); pos -= 1; state = ret
        elif state == "namedref":
            pos -= 1               # lookahead-driven
            match = None
            for L in range(MAXNAME, 0, -1):
                if s[pos:pos + L] in HTML5 and len(s[pos:pos + L]) == L:
                    match = s[pos:pos + L]
                    break
            if match is not None:
                pos += len(match)
                tmp += match
                nxt = s[pos] if pos < n else None
                if (ret in ATTR_STATES and match[-1] != ";"
                        and nxt is not None and (nxt == "=" or nxt in ALNUM)):
                    flush(); state = ret
                else:
                    tmp = HTML5[match]; flush(); state = ret
            else:
                flush(); state = "ambiguous"
        elif state == "ambiguous":
            if c is not None and c in ALNUM:
                if ret in ATTR_STATES:
                    tok["attrs"][-1][1] += c
                else:
                    emit(c)
            else:
                pos -= 1; state = ret
        elif state == "numref":
            code = 0
            if c == "x" or c == "X":
                tmp += c; state = "hexstart"
            else:
                pos -= 1; state = "decstart"
        elif state == "hexstart":
            if c is not None and c in HEX:
                pos -= 1; state = "hex"
            else:
                flush(); pos -= 1; state = ret
        elif state == "decstart":
            if c is not None and c in DIGIT:
                pos -= 1; state = "dec"
            else:
                flush(); pos -= 1; state = ret
        elif state == "hex":
            if c is not None and c in HEX:
                code = min(code * 16 + int(c, 16), 0x110000)
            elif c == ";":
                state = "numend"
            else:
                pos -= 1; state = "numend"
        elif state == "dec":
            if c is not None and c in DIGIT:
                code = min(code * 10 + int(c), 0x110000)
            elif c == ";":
                state = "numend"
            else:
                pos -= 1; state = "numend"
        elif state == "numend":
            pos -= 1               # consumes nothing
            if code == 0 or code > 0x10FFFF or 0xD800 <= code <= 0xDFFF:
                code = 0xFFFD
            elif code in C1:
                code = ord(C1[code])
            tmp = chr(code); flush(); state = ret
        else:
            raise AssertionError(state)

    res = []
    buf = []
    for t in out:
        if t[0] == "c":
            buf.append(t[1])
        else:
            if buf:
                res.append(X("".join(buf))); buf = []
            res.append(t)
    if buf:
        res.append(X("".join(buf)))
    return res


PIECES = list("<>!-/=\"'&;#x[]? \t\n\r\x0c\0`") + list("abqADQ19") + [
    "<", "<", "<", ">", ">", "=", "&", "-", "--", "<!--", "-->", "--!>", "<!", "</", "/>",
    "<!DOCTYPE", "<!doctype ", "<![CDATA[", "]]>", "&amp", "&amp;", "&not", "&notin;", "&lt",
    "&gt;", "&#", "&#x", "&#x41;", "&#65", "&#0;", "&#x80", "&#xD800;", "&#x110000", "&AMP",
    "&Tab;", "&NotEqualTilde;", "&quot", "='", '="', "= ", " a=", "<a ", "<b", "</a", "\r\n",
    "\u212a", "\u017f", "\u00e9",
]

TAG_PIECES = ["<a", "<b", " ", " ", "=", "=", '"', '"', "'", "'", "/", ">", ">", "a", "b", "A", "x", "1",
              "&amp", "&amp;", "&lt", "&not", "&notin;", "&#65", "&#x41;", "&#x80", "&", ";", "#",
              "\t", "\n", "\r", "\x0c", "\0", '="', "='", "<", "`", "/>", "\u212a", "\u00e9"]


def test_differential():
    global NCASES
    rnd = random.Random(20260930)
    for k in range(40000):
        pieces = TAG_PIECES if k % 2 else PIECES        # odd rounds: attribute-heavy soup
        s = "".join(rnd.choice(pieces) for _ in range(rnd.randint(0, 24)))
        if k % 2:
            s = rnd.choice(["<a", "<a ", "</b ", "<Q/", "<a b"]) + s
        want = ref_tokenize(s.replace("\r\n", "\n").replace("\r", "\n"))
        got = summary(s)
        assert got == want, "\n input %r\n fast  %r\n ref   %r" % (s, got, want)
    # the hand-derived cases that do not depend on tree-builder feedback, too
    for s in ["<<foo>img src=x onerror=alert(1)>", "<p '\n>", "<!-- a --!> b", "<!--<!--->",
              '<a title="&ampx; &amp= &ampz=">', "&notit;", "<a b='c'd=e>", "<a ==c>",
              "<![CDATA[<b>x]]>", "</ x>", "<a//>", "&#x4g;", "<a \"b'<=c>"]:
        assert summary(s) == ref_tokenize(s), s
    NCASES += 1


# ======================================================================================
# 3. crash / termination fuzz and throughput
# ======================================================================================

def test_fuzz_no_exception():
    global NCASES
    rnd = random.Random(7)
    alphabet = list("<>!-/=\"'&;#x[]?") + list("abcdefghijklmnopqrstuvwxyzABCDEFGHIJKLMNOPQRSTUVWXYZ") \
        + list(" \t\n\r\x0c") + ["\0", "\u212a", "\ud800", "\U0010ffff"]
    words = ["script", "style", "title", "textarea", "svg", "math", "plaintext", "xmp", "desc",
             "foreignObject", "mi", "annotation-xml", "encoding=text/html", "p", "font color",
             "<![CDATA[", "]]>", "<!--", "-->", "<!DOCTYPE", "</", "/>", "&amp", "&#x", "&#"]
    states = ["data", "rcdata", "rawtext", "script data", "plaintext", "cdata section"]
    for k in range(20000):
        m = rnd.randint(0, 40)
        s = "".join(rnd.choice(words) if rnd.random() < 0.25 else rnd.choice(alphabet)
                    for _ in range(m))
        for kw in ({}, {"svg_script_data": True, "normalize_newlines": False}):
            toks = tokenize(s, **kw)
            last = 0
            for t in toks:
                assert 0 <= t.pos <= len(s) and t.pos >= last, (s, toks)
                last = t.pos
                assert t.kind in ("starttag", "endtag", "text", "comment", "doctype")
                assert (t.name != "") == (t.kind in ("starttag", "endtag"))
                assert t.kind != "text" or t.data != ""
                names = [a for a, _ in t.attrs]
                assert len(names) == len(set(names))
        if k % 10 == 0:
            tokenize(s, rnd.choice(states), last_start_tag=rnd.choice(["", "title", "script", "h1", "\u212a"]))
            live_elements(s)
            tags(s)
    # long / adversarial inputs must stay linear-ish and must not recurse
    t0 = time.time()
    for s in ["<" * 200000, "<a " * 100000, "&" * 200000, "&amp" * 100000, "<!--" + "-" * 200000,
              "<!--" + "<!" * 100000, "<a " + "b=c " * 100000, "<a " + "b " * 100000 + ">",
              "<title>" + "</titl" * 100000, "<svg>" + "<![CDATA[" * 50000,
              "&" + "a" * 200000, ("&" + "a" * 40) * 20000, "<a b='" + "&" * 200000,
              "<svg>" * 50000 + "</math>" * 50000, "<svg>" * 50000 + "</x>" * 50000,
              "<svg><desc>" * 30000 + "</svg>" * 30000, "<a " + "b=&amp " * 50000 + ">",
              "</" * 100000, "<a/" * 100000, "\r" * 200000, "<svg>" * 50000 + "</svg>" * 50000]:
        tokenize(s)
    assert time.time() - t0 < 20, "adversarial inputs too slow: %.1fs" % (time.time() - t0)
    NCASES += 1


def test_speed():
    global NCASES
    doc = ('<div class="entry" id=e1><p>Hello &amp; <b>welcome</b> to <a href="http://example.org/?a=1&amp;b=2" '
           'title=\'x\'>my site</a>.<br/>Some more text here, plain and simple.</p>\n'
           '<!-- a comment --><img src=a.png alt="An image"><ul><li>one</li><li>two &lt; three</li></ul>'
           '<script>if (a < b && c > d) { alert("x"); }</script><style>p > b { color: red }</style></div>\n') * 400
    best = 0.0
    for _ in range(3):
        t0 = time.perf_counter()
        toks = tokenize(doc)
        dt = time.perf_counter() - t0
        best = max(best, len(toks) / dt)
    print("  throughput: %.0f tokens/s (%d tokens, %d chars)" % (best, len(toks), len(doc)))
    assert best >= 30000, best
    NCASES += 1


def main():
    tests = [v for k, v in sorted(globals().items()) if k.startswith("test_") and callable(v)]
    for t in tests:
        t0 = time.time()
        t()
        print("ok  %-28s %.2fs" % (t.__name__, time.time() - t0))
    print("all passed: %d checks in %d test functions (html5tok at %s)" % (
        NCASES, len(tests), os.path.abspath(html5tok.__file__)))


if __name__ == "__main__":
    main()
