"""Independent oracle: a small CSS Syntax Module Level 3 tokenizer for a declaration list (the
content of a style attribute).  Written from the specification's token definitions; shares no
regex with feedparser.  analyse(text) reports what a CSS parser would see."""

WS = " \t\n\r\f"


def _is_name_start(c):
    return c.isalpha() or c == "_" or ord(c) >= 0x80


def _is_name(c):
    return _is_name_start(c) or c.isdigit() or c == "-"


def tokenize(s):
    """yields (kind, value) tokens: ident, function, url, bad-url, string, bad-string, at, hash, number,
    ws, colon, semicolon, comma, delim, ( ) [ ] { }, comment, cdo, cdc; escapes are recorded in `escapes`"""
    toks, escapes = [], []
    i, n = 0, len(s)

    def consume_name(j):
        out = []
        while j < n:
            c = s[j]
            if _is_name(c):
                out.append(c)
                j += 1
            elif c == "\\" and j + 1 < n and s[j + 1] != "\n":
                k = j + 1
                hx = ""
                while k < n and len(hx) < 6 and s[k] in "0123456789abcdefABCDEF":
                    hx += s[k]
                    k += 1
                if hx:
                    if k < n and s[k] in WS:
                        k += 1
                    try:
                        out.append(chr(int(hx, 16)))
                    except (ValueError, OverflowError):
                        out.append("�")
                else:
                    out.append(s[k])
                    k += 1
                escapes.append(s[j:k])
                j = k
            else:
                break
        return "".join(out), j

    def starts_ident(j):
        if j >= n:
            return False
        c = s[j]
        if c == "-":
            return j + 1 < n and (_is_name_start(s[j + 1]) or s[j + 1] == "-" or (s[j + 1] == "\\" and j + 2 < n and s[j + 2] != "\n"))
        if _is_name_start(c):
            return True
        return c == "\\" and j + 1 < n and s[j + 1] != "\n"

    while i < n:
        c = s[i]
        if s.startswith("/*", i):
            k = s.find("*/", i + 2)
            k = n if k < 0 else k + 2
            toks.append(("comment", s[i:k]))
            i = k
        elif c in WS:
            j = i
            while j < n and s[j] in WS:
                j += 1
            toks.append(("ws", s[i:j]))
            i = j
        elif c in "\"'":
            j = i + 1
            bad = False
            while j < n and s[j] != c:
                if s[j] == "\n":
                    bad = True
                    break
                if s[j] == "\\" and j + 1 < n:
                    escapes.append(s[j:j + 2])
                    j += 1
                j += 1
            toks.append(("bad-string" if bad else "string", s[i + 1:j]))
            i = j if bad else j + 1
        elif c == "#":
            if i + 1 < n and (_is_name(s[i + 1]) or s[i + 1] == "\\"):
                name, j = consume_name(i + 1)
                toks.append(("hash", name))
                i = j
            else:
                toks.append(("delim", c))
                i += 1
        elif c == "@":
            if starts_ident(i + 1):
                name, j = consume_name(i + 1)
                toks.append(("at", name))
                i = j
            else:
                toks.append(("delim", c))
                i += 1
        elif c.isdigit() or (c in "+-." and i + 1 < n and (s[i + 1].isdigit() or (s[i + 1] == "." and i + 2 < n and s[i + 2].isdigit())) and not (c == "." and not s[i + 1].isdigit())) or (c == "." and i + 1 < n and s[i + 1].isdigit()):
            j = i + 1
            while j < n and (s[j].isdigit() or s[j] == "."):
                j += 1
            if starts_ident(j):
                _u, j = consume_name(j)
            elif j < n and s[j] == "%":
                j += 1
            toks.append(("number", s[i:j]))
            i = j
        elif starts_ident(i):
            name, j = consume_name(i)
            if j < n and s[j] == "(":
                if name.lower() == "url":
                    k = j + 1
                    while k < n and s[k] in WS:
                        k += 1
                    if k < n and s[k] in "\"'":
                        toks.append(("function", name))
                        toks.append(("(", "("))
                        i = j + 1
                    else:
                        e = k
                        bad = False
                        while e < n and s[e] != ")":
                            if s[e] in "\"'(" or (s[e] in WS and s[e:].lstrip(WS)[:1] not in (")", "")):
                                bad = True
                            e += 1
                        toks.append(("bad-url" if bad else "url", s[k:e].strip(WS)))
                        i = min(n, e + 1)
                else:
                    toks.append(("function", name))
                    toks.append(("(", "("))
                    i = j + 1
            else:
                toks.append(("ident", name))
                i = j
        elif s.startswith("<!--", i):
            toks.append(("cdo", "<!--"))
            i += 4
        elif s.startswith("-->", i):
            toks.append(("cdc", "-->"))
            i += 3
        elif c == ":":
            toks.append(("colon", c)); i += 1
        elif c == ";":
            toks.append(("semicolon", c)); i += 1
        elif c == ",":
            toks.append(("comma", c)); i += 1
        elif c in "()[]{}":
            toks.append((c, c)); i += 1
        else:
            if c == "\\":
                escapes.append(s[i:i + 2])
            toks.append(("delim", c)); i += 1
    return toks, escapes


def analyse(text):
    toks, escapes = tokenize(text)
    info = {"urls": [], "functions": [], "escapes": escapes, "comments": [], "at_keywords": [], "braces": [], "angle": [],
            "declarations": [], "garbage": []}
    # functions with their argument text
    for idx, (k, v) in enumerate(toks):
        if k in ("url", "bad-url"):
            info["urls"].append(v)
            if k == "url" and v.strip():
                info.setdefault("valid_urls", []).append(v)        # a well-formed url token with a non-empty argument: it names a resource
        elif k == "function":
            depth, arg = 0, []
            for k2, v2 in toks[idx + 1:]:
                if k2 == "(":
                    depth += 1
                    if depth == 1:
                        continue
                elif k2 == ")":
                    depth -= 1
                    if depth == 0:
                        break
                arg.append(v2 if k2 != "string" else '"%s"' % v2)
            info["functions"].append((v, "".join(arg)))
        elif k == "comment":
            info["comments"].append(v)
        elif k == "at":
            info["at_keywords"].append(v)
        elif k in "{}" and k in ("{", "}"):
            info["braces"].append(v)
        elif k in ("cdo", "cdc") or (k == "delim" and v in "<>"):
            info["angle"].append(v)
    # declaration list: ws* ident ws* ':' value (until ';' at depth 0)
    cur, depth = [], 0
    decls = []
    for k, v in toks + [("semicolon", ";")]:
        if k in ("(", "[", "{"):
            depth += 1
        elif k in (")", "]", "}"):
            depth = max(0, depth - 1)
        if k == "semicolon" and depth == 0:
            decls.append(cur)
            cur = []
        else:
            cur.append((k, v))
    for d in decls:
        d = [t for t in d if t[0] != "comment"]
        while d and d[0][0] == "ws":
            d.pop(0)
        if not d:
            continue
        if d[0][0] != "ident":
            info["garbage"].append("".join(v for _k, v in d))
            continue
        name = d[0][1]
        rest = d[1:]
        while rest and rest[0][0] == "ws":
            rest.pop(0)
        if not rest or rest[0][0] != "colon":
            info["garbage"].append(name + "".join(v for _k, v in rest))
            continue
        info["declarations"].append((name, "".join(v for _k, v in rest[1:]).strip(WS)))
    return info
