import FeedVerif.Model.DictDriver
import FeedVerif.Model.UriDriver
import FeedVerif.Model.OptionsDriver
import FeedVerif.Model.BaseDriver
import FeedVerif.Model.CssDriver
import FeedVerif.Model.DateDriver
import FeedVerif.Model.EncDriver
import FeedVerif.Model.DoctypeDriver
import FeedVerif.Model.SanDriver
import FeedVerif.Model.MixinDriver
import FeedVerif.Model.ApiDriver
import FeedVerif.Model.JsonDriver
import FeedVerif.Model.StreamDriver
import FeedVerif.Model.InitDriver
/-!
Model driver: one operation per input line `<model> <op> <fields…>`, one canonical output line per
operation.  Run with `lake env lean --run Main.lean`.
-/
open FeedVerif

structure DState where
  dict : Dict.Store := []
  base : Base.St := ⟨"", none, [], []⟩
  san : San.DSt := {}
  mix : Mixin.DSt := {}

def stepLine (st : DState) (line : String) : DState × String :=
  match (line.trimAscii.toString.splitOn " ").filter (· ≠ "") with
  | "dict" :: rest => let (s, o) := Dict.driverStep st.dict rest; ({ st with dict := s }, o)
  | "uri" :: rest => (st, Uri.driverStep rest)
  | "init" :: rest => (st, Init.driverStep rest)
  | "stream" :: rest => (st, Stream.driverStep rest)
  | "json" :: rest => (st, Json.driverStep rest)
  | "api" :: rest => (st, Api.driverStep rest)
  | "opts" :: rest => (st, Options.driverStep rest)
  | "css" :: rest => (st, Css.driverStep rest)
  | "date" :: rest => (st, Date.driverStep rest)
  | "enc" :: rest => (st, Enc.driverStep rest)
  | "doctype" :: rest => (st, Doctype.driverStep rest)
  | "mix" :: rest => let (s, o) := Mixin.driverStep st.mix rest; ({ st with mix := s }, o)
  | "res" :: rest => (st, San.resDriverStep rest)
  | "san" :: rest => let (s, o) := San.driverStep st.san rest; ({ st with san := s }, o)
  | "base" :: rest => let (s, o) := Base.driverStep st.base rest; ({ st with base := s }, o)
  | _ => (st, "bad-model")

partial def loop (h : IO.FS.Stream) (out : IO.FS.Stream) (st : DState) : IO Unit := do
  let line ← h.getLine
  if line.isEmpty then return ()
  let (st', o) := stepLine st line
  out.putStrLn o
  loop h out st'

def main : IO Unit := do
  let out ← IO.getStdout
  loop (← IO.getStdin) out {}
