-- Root of the FeedVerif library: every model driver and every property file.
import FeedVerif.Model.DictDriver
import FeedVerif.Props.C15
