-- Root of the FeedVerif library: every model driver and every property file.
import FeedVerif.Model.DictDriver
import FeedVerif.Props.C15
import FeedVerif.Model.UriDriver
import FeedVerif.Props.C04
import FeedVerif.Model.OptionsDriver
import FeedVerif.Props.C18
import FeedVerif.Model.BaseDriver
import FeedVerif.Props.C05
import FeedVerif.Model.CssDriver
import FeedVerif.Model.DateDriver
import FeedVerif.Lemmas.Civil
import FeedVerif.Props.C14
import FeedVerif.Props.C09
import FeedVerif.Model.EncDriver
import FeedVerif.Props.C06
import FeedVerif.Model.DoctypeDriver
import FeedVerif.Props.C12
