/-
C11 — strict and loose XML back ends agree on well-formed reference-free feeds.
Model: FeedVerif/Model/Mixin.lean; the two back ends differ in `Ops.loose` (the attribute hook).
-/
import FeedVerif.Model.Mixin

namespace FeedVerif.Mixin

theorem replaceAllF_id (needle repl : Str) (c0 : Char) (hn : needle.head? = some c0) :
    ∀ (n : Nat) (s : Str), (∀ c ∈ s, c ≠ c0) → replaceAllF needle repl n s = s := by
  intro n
  induction n with
  | zero => intro s _; cases s <;> rfl
  | succ n ih =>
    intro s hs
    cases s with
    | nil => rfl
    | cons c rest =>
      unfold replaceAllF
      have hc : c ≠ c0 := hs c (by simp)
      have hpre : needle.isPrefixOf (c :: rest) = false := by
        cases needle with
        | nil => simp at hn
        | cons a r =>
          simp only [List.head?_cons, Option.some.injEq] at hn
          subst hn
          simp [List.isPrefixOf, hc, Ne.symm hc]
      simp only [hpre, Bool.and_false, Bool.false_eq_true, ↓reduceIte]
      rw [ih rest (fun x hx => hs x (by simp [hx]))]

/-- `str.replace("&amp;", "&")` is the identity on strings without `&` -/
theorem replaceAll_id (v : Str) (h : ∀ c ∈ v, c ≠ '&') : replaceAll (S "&amp;") (S "&") v = v :=
  replaceAllF_id (S "&amp;") (S "&") '&' rfl _ v h

theorem toLower_ne_amp (d : Char) (h : d ≠ '&') : d.toLower ≠ '&' := by
  unfold Char.toLower
  split
  · rename_i hup
    intro e
    have hv := congrArg (fun c : Char => c.val.toNat) e
    simp only at hv
    have h1 : d.val.toNat ≥ 65 := by
      have := hup.1
      exact UInt32.le_iff_toNat_le.mp this
    have h2 : d.val.toNat ≤ 90 := UInt32.le_iff_toNat_le.mp hup.2
    have h3 : (d.val + ('a'.val - 'A'.val)).toNat = d.val.toNat + 32 := by
      rw [UInt32.toNat_add]
      have : ('a'.val - 'A'.val).toNat = 32 := by decide
      rw [this]
      omega
    rw [h3] at hv
    have : ('&' : Char).val.toNat = 38 := by decide
    omega
  · exact h

/-- on a reference-free attribute the loose back end's `_normalize_attributes` equals the strict one's -/
theorem normAttr_loose_eq_strict (kv : Str × Str) (h : ∀ c ∈ kv.2, c ≠ '&') :
    normAttr true kv = normAttr false kv := by
  unfold normAttr
  simp only [↓reduceIte, Bool.false_eq_true]
  congr 1
  apply replaceAll_id
  intro c hc
  split at hc
  · simp only [lowerS, List.mem_map] at hc
    obtain ⟨d, hd, hdc⟩ := hc
    rw [← hdc]
    exact toLower_ne_amp d (h d hd)
  · exact h c hc

def RefFreeEv : MEv → Prop
  | .start _ attrs => ∀ kv ∈ attrs, ∀ c ∈ kv.2, c ≠ '&'
  | _ => True

/-- the two back ends as `Ops` that differ only in the hook -/
def withBackend (o : Ops) (loose : Bool) : Ops := { o with loose := loose }

theorem startPre_agnostic (o : Ops) (s : Core) (tag : Str) (attrs : List (Str × Str))
    (h : ∀ kv ∈ attrs, ∀ c ∈ kv.2, c ≠ '&') :
    startPre (withBackend o true) s tag attrs = startPre (withBackend o false) s tag attrs := by
  have hm : attrs.map (normAttr true) = attrs.map (normAttr false) := by
    apply List.map_congr_left
    intro kv hkv
    exact normAttr_loose_eq_strict kv (h kv hkv)
  unfold startPre withBackend
  simp only [hm]

theorem step_agnostic (o : Ops) (s : MSt) (e : MEv) (h : RefFreeEv e) :
    mstep (withBackend o true) s e = mstep (withBackend o false) s e := by
  cases e with
  | start tag attrs =>
    simp only [mstep, startTag, startTag0]
    rw [startPre_agnostic o s.c tag attrs h]
    -- stage 4: `_start_link` uses the back end only through `resolve_uri`, which is the same parameter for both
    rfl
  | stop tag => rfl
  | data t => rfl
  | ns p u => rfl
  | cref r => rfl
  | eref r => rfl

/-- **Back-end agnostic**: on every event stream whose attribute values contain no `&` (no
references, no escaped ampersands) the handler machine driven by the loose back end and by the
strict back end produce the same outcome — structure, key mapping, URI resolution included; what is
left to the back ends is only how references are decoded. -/
theorem backend_agnostic (o : Ops) (evs : List MEv) (h : ∀ e ∈ evs, RefFreeEv e) :
    ∀ s, mrun (withBackend o true) s evs = mrun (withBackend o false) s evs := by
  induction evs with
  | nil => intro s; rfl
  | cons e rest ih =>
    intro s
    simp only [mrun]
    rw [step_agnostic o s e (h e (by simp))]
    split
    · exact ih (fun x hx => h x (by simp [hx])) _
    · rfl

/-! ### "at most how references are decoded" — what the loose back end makes of the references an XML processor must know

expat hands the handlers the CHARACTER for the five predefined entities and for every character reference.  The loose back end keeps the five (and the ten
numeric spellings of `< > & " '`) as references while collecting text (`handle_entityref`, `handle_charref`) and decodes them in `pop()` (`decode_entities`)
— but only when the element has a content type that does not end in `xml`. -/

theorem erefText_predefined (o : Ops) (r : Str)
    (h : (r == S "lt" || r == S "gt" || r == S "quot" || r == S "amp" || r == S "apos") = true) : erefText o r = ['&'] ++ r ++ [';'] := by
  unfold erefText erefTextF
  simp only [h, ↓reduceIte]

/-- inside a text construct of a non-XML type the two back ends agree on the predefined entities and on their numeric spellings -/
theorem predefined_refs_decode_like_expat (o : Ops) :
    looseDecode (S "text/plain") (erefText o (S "amp")) = S "&" ∧ looseDecode (S "text/html") (erefText o (S "lt")) = S "<" ∧
    looseDecode (S "text/plain") (erefText o (S "gt")) = S ">" ∧ looseDecode (S "text/html") (erefText o (S "quot")) = S "\"" ∧
    looseDecode (S "text/plain") (erefText o (S "apos")) = S "'" ∧
    (crefText (S "38")).map (looseDecode (S "text/plain")) = some (S "&") ∧ (crefText (S "x3C")).map (looseDecode (S "text/html")) = some (S "<") ∧
    (crefText (S "62")).map (looseDecode (S "text/plain")) = some (S ">") ∧ (crefText (S "x22")).map (looseDecode (S "text/plain")) = some (S "\"") ∧
    (crefText (S "39")).map (looseDecode (S "text/plain")) = some (S "'") := by
  rw [erefText_predefined o (S "amp") (by decide +kernel), erefText_predefined o (S "lt") (by decide +kernel), erefText_predefined o (S "gt") (by decide +kernel),
    erefText_predefined o (S "quot") (by decide +kernel), erefText_predefined o (S "apos") (by decide +kernel)]
  decide +kernel

/-- …and OUTSIDE text constructs (no content parameters: the type counts as `xml`) the loose back end leaves them encoded — the difference the property
allows ("changes at most how references are decoded"): `<guid>a&amp;b</guid>` is `a&b` for the strict back end and `a&amp;b` for the loose one -/
theorem predefined_refs_stay_encoded_outside_text_constructs (o : Ops) :
    looseDecode (S "xml") (erefText o (S "amp")) = S "&amp;" ∧ (crefText (S "38")).map (looseDecode (S "xml")) = some (S "&amp;") ∧
    (crefText (S "60")).map (looseDecode (S "xml")) = some (S "&lt;") := by
  rw [erefText_predefined o (S "amp") (by decide +kernel)]
  decide +kernel

/-- every other character reference is decoded at once, to the character expat would deliver (U+FFFD for what is not a character) -/
theorem other_charrefs_are_characters : crefText (S "65") = some ['A'] ∧ crefText (S "x41") = some ['A'] ∧ crefText (S "X41") = some ['A'] ∧
    crefText (S "xD800") = some [Char.ofNat 0xFFFD] ∧ crefText (S "1114112") = some [Char.ofNat 0xFFFD] := by decide +kernel

/-- with an escaped ampersand in an attribute the two hooks DO differ (that is the compensation for
sgmllib not decoding references in attribute values) -/
example : normAttr true (S "href", S "?a=1&amp;b=2") ≠ normAttr false (S "href", S "?a=1&amp;b=2") := by decide

/-- the source of the hand-modelled reference callbacks (`handle_charref`, `handle_entityref`, `handle_data`) and of both back ends' `decode_entities` is the one the
model was written from (fingerprints recomputed from /repo on every run; the list names the functions whose body changed) -/
theorem stage6_source_unchanged_c11 : Gen.Mixin.stage6ChangedL = [] := by decide

end FeedVerif.Mixin
