/-
C11 — strict and loose XML back ends agree on well-formed reference-free feeds.
Model: FeedVerif/Model/Mixin.lean; the two back ends differ in `Ops.loose` (the attribute hook).
-/
import FeedVerif.Model.Mixin

namespace FeedVerif.Mixin

theorem replaceAllF_id (needle repl : Str) (c0 : Char) (hn : needle.head? = some c0) :
    ∀ (n : Nat) (s : Str), (∀ c ∈ s, c ≠ c0) → replaceAllF needle repl n s = s := by
  intro n
  induction n with
  | zero => intro s _; cases s <;> rfl
  | succ n ih =>
    intro s hs
    cases s with
    | nil => rfl
    | cons c rest =>
      unfold replaceAllF
      have hc : c ≠ c0 := hs c (by simp)
      have hpre : needle.isPrefixOf (c :: rest) = false := by
        cases needle with
        | nil => simp at hn
        | cons a r =>
          simp only [List.head?_cons, Option.some.injEq] at hn
          subst hn
          simp [List.isPrefixOf, hc, Ne.symm hc]
      simp only [hpre, Bool.and_false, Bool.false_eq_true, ↓reduceIte]
      rw [ih rest (fun x hx => hs x (by simp [hx]))]

/-- `str.replace("&amp;", "&")` is the identity on strings without `&` -/
theorem replaceAll_id (v : Str) (h : ∀ c ∈ v, c ≠ '&') : replaceAll (S "&amp;") (S "&") v = v :=
  replaceAllF_id (S "&amp;") (S "&") '&' rfl _ v h

theorem toLower_ne_amp (d : Char) (h : d ≠ '&') : d.toLower ≠ '&' := by
  unfold Char.toLower
  split
  · rename_i hup
    intro e
    have hv := congrArg (fun c : Char => c.val.toNat) e
    simp only at hv
    have h1 : d.val.toNat ≥ 65 := by
      have := hup.1
      exact UInt32.le_iff_toNat_le.mp this
    have h2 : d.val.toNat ≤ 90 := UInt32.le_iff_toNat_le.mp hup.2
    have h3 : (d.val + ('a'.val - 'A'.val)).toNat = d.val.toNat + 32 := by
      rw [UInt32.toNat_add]
      have : ('a'.val - 'A'.val).toNat = 32 := by decide
      rw [this]
      omega
    rw [h3] at hv
    have : ('&' : Char).val.toNat = 38 := by decide
    omega
  · exact h

/-- on a reference-free attribute the loose back end's `_normalize_attributes` equals the strict one's -/
theorem normAttr_loose_eq_strict (kv : Str × Str) (h : ∀ c ∈ kv.2, c ≠ '&') :
    normAttr true kv = normAttr false kv := by
  unfold normAttr
  simp only [↓reduceIte, Bool.false_eq_true]
  congr 1
  apply replaceAll_id
  intro c hc
  split at hc
  · simp only [lowerS, List.mem_map] at hc
    obtain ⟨d, hd, hdc⟩ := hc
    rw [← hdc]
    exact toLower_ne_amp d (h d hd)
  · exact h c hc

def RefFreeEv : MEv → Prop
  | .start _ attrs => ∀ kv ∈ attrs, ∀ c ∈ kv.2, c ≠ '&'
  | _ => True

/-- the two back ends as `Ops` that differ only in the hook -/
def withBackend (o : Ops) (loose : Bool) : Ops := { o with loose := loose }

theorem startPre_agnostic (o : Ops) (s : Core) (tag : Str) (attrs : List (Str × Str))
    (h : ∀ kv ∈ attrs, ∀ c ∈ kv.2, c ≠ '&') :
    startPre (withBackend o true) s tag attrs = startPre (withBackend o false) s tag attrs := by
  have hm : attrs.map (normAttr true) = attrs.map (normAttr false) := by
    apply List.map_congr_left
    intro kv hkv
    exact normAttr_loose_eq_strict kv (h kv hkv)
  unfold startPre withBackend
  simp only [hm]

theorem step_agnostic (o : Ops) (s : MSt) (e : MEv) (h : RefFreeEv e) :
    mstep (withBackend o true) s e = mstep (withBackend o false) s e := by
  cases e with
  | start tag attrs =>
    simp only [mstep, startTag, startTag0]
    rw [startPre_agnostic o s.c tag attrs h]
    -- stage 4: `_start_link` uses the back end only through `resolve_uri`, which is the same parameter for both
    rfl
  | stop tag => rfl
  | data t => rfl
  | ns p u => rfl

/-- **Back-end agnostic**: on every event stream whose attribute values contain no `&` (no
references, no escaped ampersands) the handler machine driven by the loose back end and by the
strict back end produce the same outcome — structure, key mapping, URI resolution included; what is
left to the back ends is only how references are decoded. -/
theorem backend_agnostic (o : Ops) (evs : List MEv) (h : ∀ e ∈ evs, RefFreeEv e) :
    ∀ s, mrun (withBackend o true) s evs = mrun (withBackend o false) s evs := by
  induction evs with
  | nil => intro s; rfl
  | cons e rest ih =>
    intro s
    simp only [mrun]
    rw [step_agnostic o s e (h e (by simp))]
    split
    · exact ih (fun x hx => h x (by simp [hx])) _
    · rfl

/-- with an escaped ampersand in an attribute the two hooks DO differ (that is the compensation for
sgmllib not decoding references in attribute values) -/
example : normAttr true (S "href", S "?a=1&amp;b=2") ≠ normAttr false (S "href", S "?a=1&amp;b=2") := by decide

end FeedVerif.Mixin
