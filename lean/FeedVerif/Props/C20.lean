/-
C20 — damage late in a document never destroys what was parsed before it.
Model: FeedVerif/Model/Mixin.lean (stage 1).  Entries are kept newest first, so "the first k
entries" of the Python list are a SUFFIX of `entries`.
-/
import FeedVerif.Model.Mixin
import FeedVerif.Lemmas.Mixin

namespace FeedVerif.Mixin

/-- the entries that are complete (not the one currently being filled) -/
def older (c : Core) : List Entry := if c.inentry then c.entries.drop 1 else c.entries

@[simp] theorem updHead_drop (f : Entry → Entry) (l : List Entry) : (updHead f l).drop 1 = l.drop 1 := by
  cases l <;> rfl
@[simp] theorem updHead_tail (f : Entry → Entry) (l : List Entry) : (updHead f l).tail = l.tail := by
  cases l <;> rfl

theorem track_older (s : Core) (p : Option Str) (u : Str) :
    (trackNamespace s p u).entries = s.entries ∧ (trackNamespace s p u).inentry = s.inentry := by
  unfold trackNamespace
  simp only
  split <;> exact ⟨rfl, rfl⟩

theorem foldl_track_older (attrs : List (Str × Str)) :
    ∀ s : Core, (attrs.foldl (fun st kv =>
      if (S "xmlns:").isPrefixOf kv.1 then trackNamespace st (some (kv.1.drop 6)) kv.2
      else if kv.1 == S "xmlns" then trackNamespace st none kv.2 else st) s).entries = s.entries ∧
    (attrs.foldl (fun st kv =>
      if (S "xmlns:").isPrefixOf kv.1 then trackNamespace st (some (kv.1.drop 6)) kv.2
      else if kv.1 == S "xmlns" then trackNamespace st none kv.2 else st) s).inentry = s.inentry := by
  induction attrs with
  | nil => intro s; exact ⟨rfl, rfl⟩
  | cons a rest ih =>
    intro s
    simp only [List.foldl_cons]
    split
    · have h1 := track_older s (some (a.1.drop 6)) a.2
      have h2 := ih (trackNamespace s (some (a.1.drop 6)) a.2)
      exact ⟨h2.1.trans h1.1, h2.2.trans h1.2⟩
    · split
      · have h1 := track_older s none a.2
        have h2 := ih (trackNamespace s none a.2)
        exact ⟨h2.1.trans h1.1, h2.2.trans h1.2⟩
      · exact ih s

theorem startPre_older (o : Ops) (s : Core) (tag : Str) (attrs : List (Str × Str)) :
    older (startPre o s tag attrs).1 = older s := by
  have key : (startPre o s tag attrs).1.entries = s.entries ∧ (startPre o s tag attrs).1.inentry = s.inentry := by
    unfold startPre
    simp only
    have h := foldl_track_older (attrs.map (normAttr o.loose))
    split
    · split
      · exact ⟨(h _).1, (h _).2⟩
      · exact ⟨(h _).1, (h _).2⟩
    · exact ⟨(h _).1, (h _).2⟩
  unfold older; rw [key.1, key.2]

theorem setContext_older (s : Core) (k : Str) (v : V) : older (setContext s k v) = older s := by
  unfold setContext older
  by_cases hin : s.inentry = true
  · simp [hin]
  · simp [hin]

theorem pop_older (o : Ops) (s : MSt) (el : Str) : older (pop o s el).c = older s.c ∧ (pop o s el).c.inentry = s.c.inentry := by
  unfold pop
  split
  · exact ⟨rfl, rfl⟩
  · split
    · exact ⟨rfl, rfl⟩
    · simp only
      split
      · exact ⟨rfl, rfl⟩
      · split
        · exact ⟨rfl, rfl⟩
        · split
          · rename_i hin
            simp [older, hin]
          · split
            · rename_i hin _
              simp [older, hin]
            · exact ⟨rfl, rfl⟩

theorem pushContent_older (c : Core) (tag : Str) (a : List (Str × Str)) (d : Str) (e : Bool) :
    (pushContent c tag a d e).1.entries = c.entries ∧ (pushContent c tag a d e).1.inentry = c.inentry := ⟨rfl, rfl⟩

theorem updHead_updHead_drop (f g : Entry → Entry) (l : List Entry) : (updHead f (updHead g l)).drop 1 = l.drop 1 := by
  cases l <;> rfl

theorem popFull_older (o : Ops) (s : MSt) (el : Str) :
    older (popFull o s el).2.c = older s.c ∧ (popFull o s el).2.c.inentry = s.c.inentry := by
  unfold popFull
  split
  · exact ⟨rfl, rfl⟩
  · split
    · exact ⟨rfl, rfl⟩
    · simp only
      split
      · exact ⟨rfl, rfl⟩
      · split
        · exact ⟨rfl, rfl⟩
        · split
          · exact ⟨rfl, rfl⟩
          · split
            · rename_i hin
              have hin' : s.c.inentry = true := by
                simp only [Bool.and_eq_true] at hin; exact hin.1
              simp [older, hin']
            · split
              · rename_i hin
                refine ⟨?_, rfl⟩
                simp only [older, hin, ↓reduceIte]
                split <;> simp [updHead_updHead_drop]
              · split
                · rename_i hin _
                  simp [older, hin]
                · exact ⟨rfl, rfl⟩

theorem popContent_older (o : Ops) (s : MSt) (k : Str) :
    older (popContent o s k).2.c = older s.c ∧ (popContent o s k).2.c.inentry = s.c.inentry := by
  have h := popFull_older o s k
  unfold popContent
  simp only [older] at h ⊢
  exact h

/-- `_start_item` appends a fresh entry; the previously open one (if any) is thereby complete -/
theorem newEntry_older (s t : Core) (he : t.entries = {} :: s.entries) (hi : t.inentry = true) :
    ∃ pre, older t = pre ++ older s := by
  unfold older
  simp only [hi, ↓reduceIte, he, List.drop_succ_cons, List.drop_zero]
  by_cases hs : s.inentry = true
  · simp only [hs, ↓reduceIte]
    cases hse : s.entries with
    | nil => exact ⟨[], by simp⟩
    | cons e es => exact ⟨[e], by simp⟩
  · simp only [hs, Bool.false_eq_true, ↓reduceIte]
    exact ⟨[], by simp⟩

theorem dispatch_older (s : Core) (h : Str) (attrsD : List (Str × Str)) (c' : Core) (pe : Option Elem)
    (hd : dispatchCore s h attrsD = .ok (c', pe)) : ∃ pre, older c' = pre ++ older s := by
  unfold dispatchCore at hd
  split at hd
  · injection hd with hd
    refine ⟨[], ?_⟩
    split at hd <;> (injection hd with h1 _; rw [← h1]; simp [older])
  · split at hd
    · split at hd
      · cases hd
      · split at hd
        · injection hd with hd; injection hd with h1 _; exact ⟨[], by rw [← h1]; simp [older]⟩
        · split at hd
          · injection hd with hd
            refine ⟨[], ?_⟩
            split at hd <;> (injection hd with h1 _; rw [← h1]; simp [older])
          · simp only at hd
            injection hd with hd; injection hd with h1 _
            rw [← h1]
            split
            · split
              · exact newEntry_older s _ rfl rfl
              · rw [setContext_older]; exact newEntry_older s _ rfl rfl
            · exact newEntry_older s _ rfl rfl
    · split at hd
      · injection hd with hd; injection hd with h1 _; exact ⟨[], by rw [← h1]; simp⟩
      · split at hd
        · -- `_start_title`: push_content
          have h1 := (startContent_ok _ _ _ _ _ _ _ hd).1
          exact ⟨[], by rw [h1]; simp [older, pushContent]⟩
        · split at hd
          · -- a plain text-construct element: push_content
            have h1 := (startContent_ok _ _ _ _ _ _ _ hd).1
            exact ⟨[], by rw [h1]; simp [older, pushContent]⟩
          · split at hd
            · cases hd
            · simp only at hd
              split at hd
              · injection hd with hd; injection hd with h1 _; exact ⟨[], by rw [← h1]; simp⟩
              · injection hd with hd; injection hd with h1 _; exact ⟨[], by rw [← h1, setContext_older]; simp⟩

theorem endFinish_older (o : Ops) (c : Core) : older (endFinish o c) = older c := rfl

/-- stage 4: a core in the frame of another has the same complete entries -/
theorem Frame4.older {c c' : Core} (h : Frame4 c c') : older c' = older c := by
  unfold Mixin.older
  rw [h.1]
  by_cases hin : c.inentry = true
  · simp only [hin, ↓reduceIte]; exact h.2.2.2.2.2.2.2.2.2.1
  · simp only [hin, Bool.false_eq_true, ↓reduceIte]
    exact h.2.2.2.2.2.2.2.2.2.2.2 (by simpa using hin)

theorem step_older (o : Ops) (s : MSt) (e : MEv) (s' : MSt) (h : mstep o s e = .ok s') :
    ∃ pre, older s'.c = pre ++ older s.c := by
  cases e with
  | start tag attrs =>
    simp only [mstep, startTag] at h
    split at h
    · cases h
    simp only [startTag0] at h
    have hs := startPre_older o s.c tag attrs
    cases hx : extKind (handlerName (startPre o s.c tag attrs).1 tag) with
    | some kind =>
      rw [hx] at h
      simp only at h
      cases hr : startExt (startPre o s.c tag attrs).1 kind (startPre o s.c tag attrs).2 with
      | error w => rw [hr] at h; simp [applyExt] at h
      | ok r =>
        obtain ⟨c', es⟩ := r
        have hf := startExt_frame _ _ _ _ _ hr
        rw [hr] at h
        simp only [applyExt, Outcome.ok.injEq] at h
        rw [← h]
        refine ⟨[], ?_⟩
        rw [← hs]
        simp [older, hf.1, hf.2.1]
    | none =>
    rw [hx] at h
    simp only at h
    cases hl : lgKind (handlerName (startPre o s.c tag attrs).1 tag) with
    | some kind =>
      -- stage 4: a link or guid start handler writes to the current context only
      rw [hl] at h
      simp only at h
      cases hr : startLG o (startPre o s.c tag attrs).1 kind (startPre o s.c tag attrs).2 with
      | error w => rw [hr] at h; simp [applyExt] at h
      | ok r =>
        obtain ⟨c', es⟩ := r
        have hf := startLG_frame4 _ _ _ _ _ _ hr
        rw [hr] at h
        simp only [applyExt, Outcome.ok.injEq] at h
        rw [← h]
        exact ⟨[], by rw [← hs]; simpa using hf.older⟩
    | none =>
    rw [hl] at h
    simp only at h
    cases hd : dispatchCore (startPre o s.c tag attrs).1 (handlerName (startPre o s.c tag attrs).1 tag) (startPre o s.c tag attrs).2 with
    | error w => rw [hd] at h; simp [applyDispatch] at h
    | ok r =>
      obtain ⟨c', pe⟩ := r
      obtain ⟨pre, hp⟩ := dispatch_older _ _ _ c' pe hd
      rw [hd] at h
      cases pe with
      | none => simp only [applyDispatch, Outcome.ok.injEq] at h; rw [← h]; exact ⟨pre, by rw [hp, hs]⟩
      | some el => simp only [applyDispatch, Outcome.ok.injEq] at h; rw [← h]; exact ⟨pre, by rw [hp, hs]⟩
  | stop tag =>
    simp only [mstep, endTag] at h
    split at h
    · -- the end tag of the open text construct: pop_content
      split at h
      · -- a summary / description / content end handler
        rename_i kind _
        rw [endExt_ok o s s' kind h]
        refine ⟨[], ?_⟩
        have hp := popContent_older o s (endPlan s.c kind).1
        have he := endExtCore_older o s kind
        simp only [endFinish_older, List.nil_append]
        unfold older at hp ⊢
        rw [he]
        exact hp.1
      obtain ⟨k, top, rest, _, _, _, hs'⟩ := endContent_ok o s s' _ h
      rw [hs']
      refine ⟨[], ?_⟩
      have hp := popContent_older o s k
      have ha := afterTitle_frame k (popContent o s k)
      simp only [endFinish_older, List.nil_append]
      unfold older at hp ⊢
      rw [ha.1, ha.2.1]
      exact hp.1
    split at h
    · cases h
    simp only [endTag0] at h
    split at h
    · injection h with h; rw [← h]; exact ⟨[], by simp [endFinish, older]⟩
    · split at h
      · -- _end_item: the open entry is now complete
        injection h with h
        have hp := pop_older o s (S "item")
        rw [← h]
        simp only [endFinish_older]
        have e1 : older { (pop o s (S "item")).c with inentry := false, hasContent := false } = (pop o s (S "item")).c.entries := by simp [older]
        rw [e1]
        unfold older at hp ⊢
        by_cases hin : s.c.inentry = true
        · simp only [hin, ↓reduceIte, hp.2] at hp ⊢
          cases hpe : (pop o s (S "item")).c.entries with
          | nil => exact ⟨[], by rw [hpe] at hp; simpa using hp.1.symm⟩
          | cons e es => exact ⟨[e], by rw [hpe] at hp; simpa using hp.1⟩
        · have hin' : s.c.inentry = false := by simpa using hin
          simp only [hin', Bool.false_eq_true, ↓reduceIte, hp.2] at hp ⊢
          exact ⟨[], by simpa using hp.1⟩
      · split at h
        · -- stage 4: a link or guid end handler
          obtain ⟨c1, st, hf, hs', _⟩ := endLG_ok o s s' _ h
          rw [hs']
          exact ⟨[], by simpa [endFinish_older] using hf.older⟩
        · split at h
          · -- a simple date element: pop, then `_save(K_parsed, …)` in the current context
            injection h with h; rw [← h]
            exact ⟨[], by simp [endFinish_older, setContext_older, (pop_older o s _).1]⟩
          · split at h
            · cases h
            · injection h with h; rw [← h]; exact ⟨[], by simp [endFinish_older, (pop_older o s _).1]⟩
  | data t =>
    simp only [mstep] at h
    injection h with h
    refine ⟨[], ?_⟩
    rw [← h]
    unfold handleData
    split <;> simp
  | ns p u =>
    simp only [mstep] at h
    injection h with h
    refine ⟨[], ?_⟩
    rw [← h]
    have := track_older s.c p u
    simp [older, this.1, this.2]
  | cref r =>
    simp only [mstep] at h
    split at h
    · injection h with h
      refine ⟨[], ?_⟩
      rw [← h]
      unfold handleData
      split <;> simp
    · cases h
  | eref r =>
    simp only [mstep] at h
    injection h with h
    refine ⟨[], ?_⟩
    rw [← h]
    unfold handleData
    split <;> simp

/-- lifted to every event sequence -/
theorem run_older (o : Ops) (evs : List MEv) : ∀ s s', mrun o s evs = .ok s' → ∃ pre, older s'.c = pre ++ older s.c := by
  induction evs with
  | nil => intro s s' h; simp only [mrun] at h; injection h with h; exact ⟨[], by rw [h]; simp⟩
  | cons e rest ih =>
    intro s s' h
    simp only [mrun] at h
    split at h
    · rename_i s1 hs1
      obtain ⟨p1, h1⟩ := step_older o s e s1 hs1
      obtain ⟨p2, h2⟩ := ih s1 s' h
      exact ⟨p2 ++ p1, by rw [h2, h1, List.append_assoc]⟩
    · cases h

/-- **Completed entries are frozen** — for EVERY continuation `evs`, however malformed (stray end
tags, unclosed elements, elements of any handler-less vocabulary, further entries): the entries
that were complete when the continuation started are still there, unchanged and in the same
positions, when it ends.  (Entries are stored newest first, so "the first k entries" are the
suffix.) -/
theorem completed_entries_frozen (o : Ops) (s s' : MSt) (evs : List MEv)
    (hdone : s.c.inentry = false) (hrun : mrun o s evs = .ok s') :
    ∃ pre, s'.c.entries = pre ++ s.c.entries := by
  obtain ⟨pre, hp⟩ := run_older o evs s s' hrun
  unfold older at hp
  simp only [hdone, Bool.false_eq_true, ↓reduceIte] at hp
  by_cases hin : s'.c.inentry = true
  · simp only [hin, ↓reduceIte] at hp
    cases he : s'.c.entries with
    | nil => rw [he] at hp; simp at hp; exact ⟨[], by simp [← hp.2]⟩
    | cons e es => rw [he] at hp; simp at hp; exact ⟨e :: pre, by simp [hp]⟩
  · have : s'.c.inentry = false := by simpa using hin
    simp only [this, Bool.false_eq_true, ↓reduceIte] at hp
    exact ⟨pre, hp⟩

/-- **An entry's end tag always closes the entry** — whatever is on the element stack (stale frames of content elements included: `_start_content` pushes two
elements and `_end_content` pops one), whether or not `pop("item")` finds its element: after `</item>` / `</entry>` outside a text construct the machine is not in an entry any
more, so `completed_entries_frozen` applies to everything that follows — the children of a following entry whose start tag was destroyed cannot be written into this one. -/
theorem entry_end_closes_entry (o : Ops) (s : MSt) (tag : Str) (hnc : s.c.incontent = false)
    (hh : (handlerName s.c tag == S "item" || handlerName s.c tag == S "entry") = true) :
    ∃ s', mstep o s (.stop tag) = .ok s' ∧ s'.c.inentry = false ∧ s'.c.entries.length = s.c.entries.length := by
  have hne : (handlerName s.c tag == S "channel" || handlerName s.c tag == S "feed") = false := by
    rcases Bool.or_eq_true _ _ |>.mp hh with h | h
    · have := beq_iff_eq.mp h; rw [this]; decide +kernel
    · have := beq_iff_eq.mp h; rw [this]; decide +kernel
  have hck : contentEndKey (handlerName s.c tag) = none ∧ extKind (handlerName s.c tag) = none := by
    rcases Bool.or_eq_true _ _ |>.mp hh with h | h
    · have := beq_iff_eq.mp h; rw [this]; exact ⟨content_structural.2.2.2.1, by decide +kernel⟩
    · have := beq_iff_eq.mp h; rw [this]; exact ⟨content_structural.2.2.2.2, by decide +kernel⟩
  refine ⟨⟨endFinish o { (pop o s (S "item")).c with inentry := false, hasContent := false }, (pop o s (S "item")).stack⟩, ?_, rfl, ?_⟩
  · simp only [mstep, endTag, hnc, Bool.false_eq_true, ↓reduceIte, hck.1, hck.2, Option.isSome_none, Bool.or_self, endTag0, hne, hh]
  · exact (pop_frame4 o s (S "item")).2.2.2.2.2.2.2.2.2.2.1

/-- in particular the NUMBER of entries never decreases -/
theorem entries_never_lost (o : Ops) (s s' : MSt) (evs : List MEv)
    (hdone : s.c.inentry = false) (hrun : mrun o s evs = .ok s') : s.c.entries.length ≤ s'.c.entries.length := by
  obtain ⟨pre, hp⟩ := completed_entries_frozen o s s' evs hdone hrun
  rw [hp]; simp

def looseOps : Ops :=
  { base := { safe2 := fun _ r => r, safe1 := fun u => u, join := fun _ r => r }, join := fun _ u => u, fix := id, loose := true }

/-- non-vacuity: a state with two finished entries, then a damaged tail (stray end tags, an unclosed
element, a third entry that is never closed) -/
example :
    (match mrun looseOps
        { c := { entries := [⟨[(S "x_a", .s (S "2"))], []⟩, ⟨[(S "x_a", .s (S "1"))], []⟩], infeed := true } }
        [.stop (S "item"), .stop (S "nosuch"), .start (S "item") [], .start (S "x:b") [], .data (S "t"), .stop (S "channel")] with
      | .ok s' => s'.c.entries.drop 1 == [⟨[(S "x_a", .s (S "2"))], []⟩, ⟨[(S "x_a", .s (S "1"))], []⟩]
      | .unmodelled _ => false) = true := by decide +kernel

end FeedVerif.Mixin
