/-
C19 — extension elements are exposed under canonical-prefix keys.
Model: FeedVerif/Model/Mixin.lean (stage 1: generic machinery + structural handlers).
-/
import FeedVerif.Model.Mixin
import FeedVerif.Lemmas.Mixin

namespace FeedVerif.Mixin

/-! ### namespace canonicalisation (track_namespace) -/

/-- a RECOGNISED namespace URI (matched case-insensitively against the table) maps the document's
prefix to the (lower-cased) canonical one and records `namespaces[canonical] = uri` -/
theorem track_recognised (s : Core) (pfx : Option Str) (uri canon : Str)
    (hnb : containsSub (S "backend.userland.com/rss") (lowerS uri) = false)
    (h : sget matchNs (lowerS uri) = some canon) :
    (trackNamespace s pfx uri).nsMap = sset s.nsMap pfx (lowerS canon) ∧
    (trackNamespace s pfx uri).nsInUse = sset s.nsInUse canon uri := by
  unfold trackNamespace
  simp only [hnb, Bool.false_eq_true, ↓reduceIte, h]
  refine ⟨?_, ?_⟩ <;> first | rfl | trivial

/-- an UNRECOGNISED URI leaves the prefix map alone and records `namespaces[prefix or ""] = uri` -/
theorem track_unrecognised (s : Core) (pfx : Option Str) (uri : Str)
    (hnb : containsSub (S "backend.userland.com/rss") (lowerS uri) = false)
    (h : sget matchNs (lowerS uri) = none) :
    (trackNamespace s pfx uri).nsMap = s.nsMap ∧
    (trackNamespace s pfx uri).nsInUse = sset s.nsInUse (pfx.getD []) uri := by
  unfold trackNamespace
  simp only [hnb, Bool.false_eq_true, ↓reduceIte, h]
  refine ⟨?_, ?_⟩ <;> first | rfl | trivial

theorem sget_sset_same {α : Type} [BEq α] [LawfulBEq α] (d : List (α × Str)) (k : α) (v : Str) :
    sget (sset d k v) k = some v := by
  unfold sget sset
  by_cases h : d.any (·.1 == k) = true
  · rw [if_pos h]
    induction d with
    | nil => simp at h
    | cons p rest ih =>
      simp only [List.map_cons, List.find?_cons]
      by_cases hp : (p.1 == k) = true
      · simp [hp]
      · simp only [hp, Bool.false_eq_true, ↓reduceIte]
        have : rest.any (·.1 == k) = true := by
          simp only [List.any_cons, Bool.or_eq_true] at h
          rcases h with h | h
          · exact absurd h hp
          · exact h
        exact ih this
  · rw [if_neg h]
    have hnone : d.find? (·.1 == k) = none := by
      rw [List.find?_eq_none]
      intro x hx hxk
      apply h
      rw [List.any_eq_true]
      exact ⟨x, hx, hxk⟩
    simp [List.find?_append, hnone]

theorem not_colon_of_contains {c : Char} {r : Str} (h : (c :: r).contains ':' = false) : c ≠ ':' ∧ r.contains ':' = false := by
  simp only [List.contains_cons, Bool.or_eq_false_iff, beq_eq_false_iff_ne, ne_eq] at h
  exact ⟨fun e => h.1 e.symm, h.2⟩

theorem takeWhile_prefix_colon (p rest : Str) (hpc : p.contains ':' = false) :
    (p ++ ':' :: rest).takeWhile (· != ':') = p := by
  induction p with
  | nil => simp
  | cons c r ih =>
    obtain ⟨hc, hr⟩ := not_colon_of_contains hpc
    simp only [List.cons_append, List.takeWhile_cons, bne_iff_ne, ne_eq, hc, not_false_eq_true, ↓reduceIte]
    rw [ih hr]

theorem dropWhile_prefix_colon (p rest : Str) (hpc : p.contains ':' = false) :
    ((p ++ ':' :: rest).dropWhile (· != ':')).drop 1 = rest := by
  induction p with
  | nil => simp
  | cons c r ih =>
    obtain ⟨hc, hr⟩ := not_colon_of_contains hpc
    simp only [List.cons_append, List.dropWhile_cons, bne_iff_ne, ne_eq, hc, not_false_eq_true, ↓reduceIte]
    exact ih hr

/-- after a recognised declaration, elements written with the document's prefix dispatch under the
CANONICAL prefix, whatever prefix the document chose -/
theorem handlerName_canonical (s : Core) (p lname canon : Str) (hc : canon ≠ [])
    (hpc : p.contains ':' = false) (hmap : sget s.nsMap (some p) = some canon) :
    handlerName s (p ++ ':' :: lname) = canon ++ '_' :: lname := by
  unfold handlerName splitTag
  have h1 : (p ++ ':' :: lname).contains ':' = true := by simp
  simp only [h1, ↓reduceIte, takeWhile_prefix_colon p lname hpc, dropWhile_prefix_colon p lname hpc, hmap, Option.getD_some]
  have : canon.isEmpty = false := by cases canon <;> simp_all
  simp [this]

/-- an unmapped prefix is kept as the document wrote it -/
theorem handlerName_document_prefix (s : Core) (p lname : Str) (hp : p ≠ [])
    (hpc : p.contains ':' = false) (hmap : sget s.nsMap (some p) = none) :
    handlerName s (p ++ ':' :: lname) = p ++ '_' :: lname := by
  unfold handlerName splitTag
  have h1 : (p ++ ':' :: lname).contains ':' = true := by simp
  simp only [h1, ↓reduceIte, takeWhile_prefix_colon p lname hpc, dropWhile_prefix_colon p lname hpc, hmap, Option.getD_none]
  have : p.isEmpty = false := by cases p <;> simp_all
  simp [this]

/-! ### the fallback for elements without a dedicated handler -/

def isStructural (h : Str) : Bool :=
  h == S "rss" || h == S "channel" || h == S "feed" || h == S "item" || h == S "entry"

/-- **Fallback, no attributes**: an element without a dedicated handler and without attributes is
pushed as a text-collecting element named by its handler name; nothing else changes -/
theorem fallback_pushes (c : Core) (h : Str) (hstruct : isStructural h = false) (hno : hasStart h = false) :
    dispatchCore c h [] = .ok (c, some ⟨h, true, []⟩) := by
  unfold isStructural at hstruct
  simp only [Bool.or_eq_false_iff] at hstruct
  obtain ⟨⟨⟨⟨h1, h2⟩, h3⟩, h4⟩, h5⟩ := hstruct
  unfold dispatchCore
  simp only [h1, h2, h3, h4, h5, Bool.false_eq_true, ↓reduceIte, Bool.or_self, hno, dateKey_none_of_noStart h hno, isTitle_false_of_noStart h hno, contentKey_none_of_noStart h hno, Option.isSome_none, dropDecls, List.filter_nil, List.isEmpty_nil]

/-- namespace declarations delivered as attributes (loose back end) do not turn the text form into
the attribute-dict form -/
theorem fallback_ignores_declarations (c : Core) (h : Str) (attrsD : List (Str × Str))
    (hdecl : dropDecls attrsD = []) (hstruct : isStructural h = false) (hno : hasStart h = false) :
    dispatchCore c h attrsD = .ok (c, some ⟨h, true, []⟩) := by
  unfold isStructural at hstruct
  simp only [Bool.or_eq_false_iff] at hstruct
  obtain ⟨⟨⟨⟨h1, h2⟩, h3⟩, h4⟩, h5⟩ := hstruct
  unfold dispatchCore
  simp only [h1, h2, h3, h4, h5, Bool.false_eq_true, ↓reduceIte, Bool.or_self, hno, dateKey_none_of_noStart h hno, isTitle_false_of_noStart h hno, contentKey_none_of_noStart h hno, Option.isSome_none, hdecl, List.isEmpty_nil]

/-- **Fallback, with attributes**: the attribute dict is stored under the handler name in the current
context and nothing is pushed -/
theorem fallback_stores_attrs (c : Core) (h : Str) (attrsD : List (Str × Str)) (hne : dropDecls attrsD ≠ [])
    (hstruct : isStructural h = false) (hno : hasStart h = false) :
    dispatchCore c h attrsD = .ok (setContext c h (.d (dropDecls attrsD)), none) := by
  unfold isStructural at hstruct
  simp only [Bool.or_eq_false_iff] at hstruct
  obtain ⟨⟨⟨⟨h1, h2⟩, h3⟩, h4⟩, h5⟩ := hstruct
  have he : (dropDecls attrsD).isEmpty = false := by cases hd : dropDecls attrsD <;> simp_all
  unfold dispatchCore
  simp only [h1, h2, h3, h4, h5, Bool.false_eq_true, ↓reduceIte, Bool.or_self, hno, dateKey_none_of_noStart h hno, isTitle_false_of_noStart h hno, contentKey_none_of_noStart h hno, Option.isSome_none, he]

/-- **Text value under the canonical key (entry context)**: when the element on top of the stack is
a text-collecting fallback element named `key`, closing it inside an entry stores its stripped,
joined text under `key` in the newest entry (first occurrence, or not deeper than an earlier one) -/
theorem fallback_pop_stores_in_entry (o : Ops) (s : MSt) (key : Str) (pieces : List Str) (rest : List Elem)
    (e : Entry) (es : List Entry)
    (hst : s.stack = ⟨key, true, pieces⟩ :: rest) (hin : s.c.inentry = true) (hent : s.c.entries = e :: es)
    (hrel : canBeRelativeUri.contains key = false)
    (hk : (key == S "category" || key == S "tags" || key == S "itunes_keywords") = false)
    (hfirst : e.depths.find? (·.1 == key) = none) :
    (pop o s key).c.entries = { d := fset e.d key (.s (o.fix (o.decodeEnt (S "xml") (stripS pieces.flatten)))),
                                depths := (e.depths.filter (·.1 != key)) ++ [(key, s.c.depth)] } :: es ∧
    (pop o s key).stack = rest ∧ (pop o s key).c.feed = s.c.feed := by
  unfold pop
  simp only [hst, bne_self_eq_false, Bool.false_eq_true, ↓reduceIte, Bool.not_true, hrel, Bool.false_and, hk, hin, hent, updHead,
    writeEntry, hfirst, Option.map_none]
  refine ⟨?_, ?_, ?_⟩ <;> first | rfl | trivial

/-- **Text value under the canonical key (feed context)** -/
theorem fallback_pop_stores_in_feed (o : Ops) (s : MSt) (key : Str) (pieces : List Str) (rest : List Elem)
    (hst : s.stack = ⟨key, true, pieces⟩ :: rest) (hin : s.c.inentry = false) (hfeed : s.c.infeed = true)
    (hrel : canBeRelativeUri.contains key = false)
    (hk : (key == S "category" || key == S "tags" || key == S "itunes_keywords") = false) :
    (pop o s key).c.feed = fset s.c.feed key (.s (o.fix (o.decodeEnt (S "xml") (stripS pieces.flatten)))) ∧
    (pop o s key).stack = rest ∧ (pop o s key).c.entries = s.c.entries := by
  unfold pop
  simp only [hst, bne_self_eq_false, Bool.false_eq_true, ↓reduceIte, Bool.not_true, hrel, Bool.false_and, hk, hin, hfeed]
  refine ⟨?_, ?_, ?_⟩ <;> first | rfl | trivial

/-- **Attributes: the attribute dict is stored under the key in the current context**
(entry if inside one, else the feed) -/
theorem fallback_attrs_stored (s : Core) (key : Str) (attrsD : List (Str × Str)) :
    (s.inentry = false → (setContext s key (.d attrsD)).feed = fset s.feed key (.d attrsD)) ∧
    (∀ e es, s.inentry = true → s.entries = e :: es →
      (setContext s key (.d attrsD)).entries = { e with d := fset e.d key (.d attrsD) } :: es) := by
  refine ⟨?_, ?_⟩
  · intro h; simp [setContext, h]
  · intro e es h he; simp [setContext, h, he, updHead]

/-- character data is accumulated piecewise on the innermost open text-collecting element and
joined only when it closes -/
theorem data_appends (s : MSt) (top : Elem) (rest : List Elem) (t : Str) (h : s.stack = top :: rest) :
    (handleData s t).stack = { top with pieces := top.pieces ++ [t] } :: rest := by
  simp [handleData, h]

/-! ### tables (regenerated) -/

/-- TABLE FACT: the lower-cased match table is exactly the lower-casing of the documented table -/
theorem match_table_is_lowercased_table :
    Gen.Mixin.matchNamespaces.length = Gen.Mixin.namespaces.length ∧
    Gen.Mixin.namespaces.all (fun p => Gen.Mixin.matchNamespaces.any (fun q => q.2 == p.2)) = true := by decide +kernel

/-- TABLE FACT: spot checks of the documented canonical prefixes -/
theorem canonical_prefixes :
    sget matchNs (S "http://purl.org/dc/elements/1.1/") = some (S "dc") ∧
    sget matchNs (S "http://www.w3.org/2003/01/geo/wgs84_pos#") = some (S "geo") ∧
    sget matchNs (S "http://www.itunes.com/dtds/podcast-1.0.dtd") = some (S "itunes") ∧
    sget matchNs (S "http://search.yahoo.com/mrss/") = some (S "media") ∧
    sget matchNs (S "http://www.w3.org/1999/02/22-rdf-syntax-ns#") = some (S "rdf") ∧
    sget matchNs (S "http://www.w3.org/1999/xhtml") = some (S "xhtml") := by decide +kernel

/-! ### a whole document, kernel-evaluated -/

def ops0 : Ops :=
  { base := { safe2 := fun _ r => r, safe1 := fun u => u, join := fun _ r => r }, join := fun _ u => u, fix := id, loose := false }

/-- `<rss version="2.0"><channel><G:accuracy>5</G:accuracy><item><p0:thing a="1"/></item></channel></rss>`
with `G` bound to the (upper-cased) WGS84 URI and `p0` to an unknown URI, as expat delivers it -/
example :
    (match mrun ops0 { c := { base := ⟨"http://d/", none, [], []⟩ } }
      [.ns (some (S "G")) (S "HTTP://WWW.W3.ORG/2003/01/GEO/WGS84_POS#"), .ns (some (S "p0")) (S "urn:x"),
       .start (S "rss") [(S "version", S "2.0")], .start (S "channel") [],
       .start (S "geo:accuracy") [], .data (S " 5 "), .stop (S "geo:accuracy"),
       .start (S "item") [], .start (S "p0:thing") [(S "a", S "1")], .stop (S "p0:thing"), .stop (S "item"),
       .stop (S "channel"), .stop (S "rss")] with
    | .ok s => s.c.feed == [(S "geo_accuracy", V.s (S "5"))] &&
               s.c.entries.map (·.d) == [[(S "p0_thing", V.d [(S "a", S "1")])]] &&
               s.c.nsInUse == [(S "geo", S "HTTP://WWW.W3.ORG/2003/01/GEO/WGS84_POS#"), (S "p0", S "urn:x")] &&
               s.c.version == S "rss20"
    | .unmodelled _ => false) = true := by decide +kernel

end FeedVerif.Mixin
