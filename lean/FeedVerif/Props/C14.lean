/-
C14 — style attributes keep only allow-listed, URL-free CSS declarations.
Model: FeedVerif/Model/Css.lean.
-/
import FeedVerif.Model.Css
import FeedVerif.Gen.RefSanitizer

namespace FeedVerif.Css
open List

/-- TABLE FACT: no CSS property / keyword / SVG property was added relative to the frozen
reference snapshot of the documented lists. -/
theorem css_tables_subset_reference :
    Gen.Sanitizer.cssProperties.all (fun p => Ref.Sanitizer.cssProperties.contains p) = true ∧
    Gen.Sanitizer.cssKeywords.all (fun p => Ref.Sanitizer.cssKeywords.contains p) = true ∧
    Gen.Sanitizer.svgProperties.all (fun p => Ref.Sanitizer.svgProperties.contains p) = true := by
  decide +kernel

/-! ### all or nothing -/

/-- a style that fails the character gauntlet is dropped as a whole -/
theorem style_dropped_if_gauntlet_fails (t : Tables) (svg : Bool) (s : Str)
    (h : gauntlet (stripUrls s) = false) : sanitizeStyle t svg s = [] := by
  simp [sanitizeStyle, h]

/-- a style that is not entirely made of `prop: value;` shapes is dropped as a whole -/
theorem style_dropped_if_shape_fails (t : Tables) (svg : Bool) (s : Str)
    (h : (stripWs (stripDecls (stripUrls s))).isEmpty = false) : sanitizeStyle t svg s = [] := by
  unfold sanitizeStyle
  by_cases hg : gauntlet (stripUrls s) = true <;> simp [hg, h]

/-- **Shape of a surviving style**: it is exactly the space-join of `prop: value;` for the
declarations found in the (url-stripped) style that pass `keepDecl`, in order. -/
theorem style_shape (t : Tables) (svg : Bool) (s : Str) (h : sanitizeStyle t svg s ≠ []) :
    gauntlet (stripUrls s) = true ∧
    sanitizeStyle t svg s =
      joinSp (((findDecls (stripUrls s)).filter (keepDecl t svg)).map renderDecl) ∧
    ∀ d ∈ (findDecls (stripUrls s)).filter (keepDecl t svg), keepDecl t svg d = true := by
  unfold sanitizeStyle at h ⊢
  by_cases hg : gauntlet (stripUrls s) = true
  · by_cases hs : (stripWs (stripDecls (stripUrls s))).isEmpty = true
    · refine ⟨hg, by simp [hg, hs], ?_⟩
      intro d hd; exact (List.mem_filter.mp hd).2
    · simp [hg, hs] at h
  · simp [hg] at h

/-- **Per-declaration allow-list**: a kept declaration has a non-empty value and its property is
on the CSS allow-list, or is a background / border / margin / padding shorthand all of whose value
tokens are allow-listed keywords or match `valid_css_values`, or (inside SVG only) is on the SVG
property list. -/
theorem keepDecl_spec (t : Tables) (svg : Bool) (p v : Str) (h : keepDecl t svg (p, v) = true) :
    v ≠ [] ∧
    (t.cssProps.contains (toLowerS p) = true ∨
     (shorthandFamilies.contains (toLowerS (firstDashPart p)) = true ∧
        ∀ kw ∈ splitWs v, t.cssKeywords.contains kw = true ∨ validCssValue kw = true) ∨
     (svg = true ∧ t.svgProps.contains (toLowerS p) = true)) := by
  unfold keepDecl at h
  simp only at h
  by_cases hv : v.isEmpty = true
  · simp [hv] at h
  · have hv' : v ≠ [] := by intro e; rw [e] at hv; simp at hv
    simp only [hv, Bool.false_eq_true, ↓reduceIte] at h
    refine ⟨hv', ?_⟩
    by_cases h1 : t.cssProps.contains (toLowerS p) = true
    · exact Or.inl h1
    · simp only [h1, Bool.false_eq_true, ↓reduceIte] at h
      by_cases h2 : shorthandFamilies.contains (toLowerS (firstDashPart p)) = true
      · simp only [h2, ↓reduceIte] at h
        refine Or.inr (Or.inl ⟨h2, ?_⟩)
        intro kw hkw
        have := (List.all_eq_true.mp h) kw hkw
        simpa using this
      · simp only [h2, Bool.false_eq_true, ↓reduceIte, Bool.and_eq_true] at h
        exact Or.inr (Or.inr h)

/-- outside SVG the SVG property list is never consulted -/
theorem svg_props_only_in_svg (t : Tables) (p v : Str) (h : keepDecl t false (p, v) = true) :
    t.cssProps.contains (toLowerS p) = true ∨
    shorthandFamilies.contains (toLowerS (firstDashPart p)) = true := by
  rcases (keepDecl_spec t false p v h).2 with h1 | h1 | h1
  · exact Or.inl h1
  · exact Or.inr h1.1
  · exact absurd h1.1 (by simp)

/-! ### the gauntlet alphabet -/

/-- characters that can occur in a string passing the gauntlet -/
def alphabet (c : Char) : Bool :=
  single c || wordc c || c.toNat == 45 || c.toNat == 39 || c.toNat == 34 || c.toNat == 40 || c.toNat == 41

theorem alphabet_of_single {c : Char} (h : single c = true) : alphabet c = true := by simp [alphabet, h]
theorem alphabet_of_wordc {c : Char} (h : wordc c = true) : alphabet c = true := by simp [alphabet, h]
theorem alphabet_of_quoteBody {c : Char} (h : quoteBody c = true) : alphabet c = true := by
  simp only [quoteBody, Bool.or_eq_true] at h
  rcases h with h | h
  · simp [alphabet, single, h]
  · simp [alphabet, h]
theorem alphabet_of_parenBody {c : Char} (h : parenBody c = true) : alphabet c = true := by
  simp only [parenBody, Bool.or_eq_true] at h
  rcases h with (h | h) | h
  · simp [alphabet, single, h]
  · simp [alphabet, single, h]
  · simp [alphabet, single, h]

theorem mem_takeWhile_prop (p : Char → Bool) (l : Str) : ∀ x ∈ l.takeWhile p, p x = true := by
  induction l with
  | nil => intro x hx; simp at hx
  | cons a r ih =>
    intro x hx
    by_cases ha : p a = true
    · simp only [takeWhile_cons, ha, ↓reduceIte, mem_cons] at hx
      rcases hx with rfl | hx
      · exact ha
      · exact ih x hx
    · simp [takeWhile_cons, ha] at hx

theorem gauntletF_zero_cons (c : Char) (rest : Str) : gauntletF 0 (c :: rest) = false := rfl

/-- one unfolding step of the gauntlet matcher -/
theorem gauntletF_succ_cons (n : Nat) (c : Char) (rest : Str) :
    gauntletF (n + 1) (c :: rest) =
    ((single c && gauntletF n rest) ||
    (wordc c && (match rest with
      | d :: e :: r => d.toNat == 45 && wordc e && gauntletF n r
      | _ => false)) ||
    (c.toNat == 39 && (match group quoteBody 39 rest with | some r => gauntletF n r | none => false)) ||
    (c.toNat == 34 && (match group quoteBody 34 rest with | some r => gauntletF n r | none => false)) ||
    (c.toNat == 40 && (match group parenBody 41 rest with | some r => gauntletF n r | none => false))) := by
  rfl

/-- `group body close s = some r` means `s = body⁺ ++ close :: r` -/
theorem group_spec {body : Char → Bool} {close : Nat} {s r : Str} (h : group body close s = some r) :
    ∃ b c, s = b ++ c :: r ∧ b ≠ [] ∧ (∀ x ∈ b, body x = true) ∧ c.toNat = close := by
  unfold group at h
  cases hd : s.dropWhile body with
  | nil => simp [hd] at h
  | cons c rest =>
    simp only [hd] at h
    by_cases hc : (c.toNat == close && !(s.takeWhile body).isEmpty) = true
    · simp only [hc, ↓reduceIte, Option.some.injEq] at h
      subst h
      simp only [Bool.and_eq_true, beq_iff_eq, Bool.not_eq_eq_eq_not, Bool.not_true] at hc
      refine ⟨s.takeWhile body, c, ?_, ?_, ?_, hc.1⟩
      · have := List.takeWhile_append_dropWhile (p := body) (l := s)
        rw [hd] at this; exact this.symm
      · intro e; rw [e] at hc; simp at hc
      · intro x hx; exact mem_takeWhile_prop body s x hx
    · simp [hc] at h

/-- **Output alphabet (input side)**: every character of a string that passes the gauntlet lies
in the gauntlet alphabet. -/
theorem gauntlet_charset : ∀ (n : Nat) (s : Str), gauntletF n s = true → ∀ c ∈ s, alphabet c = true := by
  intro n
  induction n with
  | zero =>
    intro s h c hc
    cases s with
    | nil => simp at hc
    | cons a r => rw [gauntletF_zero_cons] at h; cases h
  | succ n ih =>
    intro s h c hc
    cases s with
    | nil => simp at hc
    | cons a rest =>
      rw [gauntletF_succ_cons] at h
      simp only [Bool.or_eq_true, Bool.and_eq_true] at h
      rcases h with (((h | h) | h) | h) | h
      · -- single
        simp only [mem_cons] at hc
        rcases hc with rfl | hc
        · exact alphabet_of_single h.1
        · exact ih rest h.2 c hc
      · -- \w-\w
        obtain ⟨hw, hm⟩ := h
        cases rest with
        | nil => simp at hm
        | cons d r1 =>
          cases r1 with
          | nil => simp at hm
          | cons e r =>
            simp only [Bool.and_eq_true, beq_iff_eq] at hm
            simp only [mem_cons] at hc
            rcases hc with rfl | rfl | rfl | hc
            · exact alphabet_of_wordc hw
            · simp [alphabet, hm.1.1]
            · exact alphabet_of_wordc hm.1.2
            · exact ih r hm.2 c hc
      · -- '...'
        obtain ⟨hq, hm⟩ := h
        cases hg : group quoteBody 39 rest with
        | none => simp [hg] at hm
        | some r =>
          simp only [hg] at hm
          obtain ⟨b, cl, hs, _, hb, hcl⟩ := group_spec hg
          simp only [mem_cons] at hc
          rcases hc with rfl | hc
          · simp only [beq_iff_eq] at hq; simp [alphabet, hq]
          · rw [hs] at hc
            simp only [mem_append, mem_cons] at hc
            rcases hc with hc | rfl | hc
            · exact alphabet_of_quoteBody (hb c hc)
            · simp [alphabet, hcl]
            · exact ih r hm c hc
      · -- "..."
        obtain ⟨hq, hm⟩ := h
        cases hg : group quoteBody 34 rest with
        | none => simp [hg] at hm
        | some r =>
          simp only [hg] at hm
          obtain ⟨b, cl, hs, _, hb, hcl⟩ := group_spec hg
          simp only [mem_cons] at hc
          rcases hc with rfl | hc
          · simp only [beq_iff_eq] at hq; simp [alphabet, hq]
          · rw [hs] at hc
            simp only [mem_append, mem_cons] at hc
            rcases hc with hc | rfl | hc
            · exact alphabet_of_quoteBody (hb c hc)
            · simp [alphabet, hcl]
            · exact ih r hm c hc
      · -- (...)
        obtain ⟨hq, hm⟩ := h
        cases hg : group parenBody 41 rest with
        | none => simp [hg] at hm
        | some r =>
          simp only [hg] at hm
          obtain ⟨b, cl, hs, _, hb, hcl⟩ := group_spec hg
          simp only [mem_cons] at hc
          rcases hc with rfl | hc
          · simp only [beq_iff_eq] at hq; simp [alphabet, hq]
          · rw [hs] at hc
            simp only [mem_append, mem_cons] at hc
            rcases hc with hc | rfl | hc
            · exact alphabet_of_parenBody (hb c hc)
            · simp [alphabet, hcl]
            · exact ih r hm c hc

/-- the alphabet contains no backslash, slash, star, at-sign, angle bracket, brace, square
bracket, equals sign or ampersand: no escape, comment, at-rule or markup can be spelled -/
theorem alphabet_excludes :
    ['\\', '/', '*', '@', '<', '>', '{', '}', '[', ']', '=', '&', '`', '^', '|', '~', '$', '?', '+'].all
      (fun c => !alphabet c) = true := by decide

/-! ### parenthesised groups are inert -/

inductive PS | out | inside (nonempty : Bool) | bad
deriving DecidableEq, Repr

def psStep : PS → Char → PS
  | .out, c => if c.toNat == 40 then .inside false else if c.toNat == 41 then .bad else .out
  | .inside ne, c =>
    if c.toNat == 41 then (if ne then .out else .bad)
    else if parenBody c then .inside true else .bad
  | .bad, _ => .bad

/-- every `(` opens a group `( [\d,\s]+ )`; no stray `)`; nothing else inside parentheses -/
def parensInert (s : Str) : Bool := s.foldl psStep .out == .out

theorem fold_out_noparen (s : Str) (h : ∀ c ∈ s, c.toNat ≠ 40 ∧ c.toNat ≠ 41) :
    s.foldl psStep .out = .out := by
  induction s with
  | nil => rfl
  | cons a r ih =>
    have ha := h a (by simp)
    simp only [foldl_cons, psStep, beq_iff_eq, ha.1, ha.2, ↓reduceIte]
    exact ih (fun c hc => h c (by simp [hc]))

theorem fold_inside_body (b : Str) (ne : Bool) (hb : ∀ x ∈ b, parenBody x = true) (hne : b ≠ []) :
    b.foldl psStep (.inside ne) = .inside true := by
  induction b generalizing ne with
  | nil => exact absurd rfl hne
  | cons a r ih =>
    have ha := hb a (by simp)
    have ha41 : a.toNat ≠ 41 := by
      simp only [parenBody, digit, ws, Bool.or_eq_true, Bool.and_eq_true, decide_eq_true_eq, beq_iff_eq] at ha
      omega
    simp only [foldl_cons, psStep, beq_iff_eq, ha41, ↓reduceIte, ha]
    cases r with
    | nil => rfl
    | cons a2 r2 => exact ih true (fun x hx => hb x (by simp [hx])) (by simp)

theorem single_noparen {c : Char} (h : single c = true) : c.toNat ≠ 40 ∧ c.toNat ≠ 41 := by
  simp only [single, ws, lower, upper, digit, Bool.or_eq_true, Bool.and_eq_true, decide_eq_true_eq, beq_iff_eq] at h
  omega
theorem wordc_noparen {c : Char} (h : wordc c = true) : c.toNat ≠ 40 ∧ c.toNat ≠ 41 := by
  simp only [wordc, lower, upper, digit, Bool.or_eq_true, Bool.and_eq_true, decide_eq_true_eq, beq_iff_eq] at h
  omega
theorem quoteBody_noparen {c : Char} (h : quoteBody c = true) : c.toNat ≠ 40 ∧ c.toNat ≠ 41 := by
  simp only [quoteBody, wordc, ws, lower, upper, digit, Bool.or_eq_true, Bool.and_eq_true, decide_eq_true_eq, beq_iff_eq] at h
  omega

/-- **Parenthesised groups are inert**: in a string that passes the gauntlet every parenthesised
group is non-empty and contains only digits, commas and whitespace, and parentheses are balanced —
so neither a URL nor an expression can be the argument of any `name(` that survives. -/
theorem gauntlet_parens_inert : ∀ (n : Nat) (s : Str), gauntletF n s = true → s.foldl psStep .out = .out := by
  intro n
  induction n with
  | zero =>
    intro s h
    cases s with
    | nil => rfl
    | cons a r => rw [gauntletF_zero_cons] at h; cases h
  | succ n ih =>
    intro s h
    cases s with
    | nil => rfl
    | cons a rest =>
      rw [gauntletF_succ_cons] at h
      simp only [Bool.or_eq_true, Bool.and_eq_true] at h
      rcases h with (((h | h) | h) | h) | h
      · have := single_noparen h.1
        simp only [foldl_cons, psStep, beq_iff_eq, this.1, this.2, ↓reduceIte]
        exact ih rest h.2
      · obtain ⟨hw, hm⟩ := h
        cases rest with
        | nil => simp at hm
        | cons d r1 =>
          cases r1 with
          | nil => simp at hm
          | cons e r =>
            simp only [Bool.and_eq_true, beq_iff_eq] at hm
            have h1 := wordc_noparen hw
            have h3 := wordc_noparen hm.1.2
            have h2 : d.toNat ≠ 40 ∧ d.toNat ≠ 41 := by omega
            simp only [foldl_cons, psStep, beq_iff_eq, h1.1, h1.2, h2.1, h2.2, h3.1, h3.2, ↓reduceIte]
            exact ih r hm.2
      · obtain ⟨hq, hm⟩ := h
        cases hg : group quoteBody 39 rest with
        | none => simp [hg] at hm
        | some r =>
          simp only [hg] at hm
          obtain ⟨b, cl, hs, _, hb, hcl⟩ := group_spec hg
          simp only [beq_iff_eq] at hq
          have ha : a.toNat ≠ 40 ∧ a.toNat ≠ 41 := by omega
          have hc : cl.toNat ≠ 40 ∧ cl.toNat ≠ 41 := by omega
          rw [hs]
          simp only [foldl_cons, psStep, beq_iff_eq, ha.1, ha.2, ↓reduceIte, foldl_append]
          rw [fold_out_noparen b (fun c hc => quoteBody_noparen (hb c hc))]
          simp only [psStep, beq_iff_eq, hc.1, hc.2, ↓reduceIte]
          exact ih r hm
      · obtain ⟨hq, hm⟩ := h
        cases hg : group quoteBody 34 rest with
        | none => simp [hg] at hm
        | some r =>
          simp only [hg] at hm
          obtain ⟨b, cl, hs, _, hb, hcl⟩ := group_spec hg
          simp only [beq_iff_eq] at hq
          have ha : a.toNat ≠ 40 ∧ a.toNat ≠ 41 := by omega
          have hc : cl.toNat ≠ 40 ∧ cl.toNat ≠ 41 := by omega
          rw [hs]
          simp only [foldl_cons, psStep, beq_iff_eq, ha.1, ha.2, ↓reduceIte, foldl_append]
          rw [fold_out_noparen b (fun c hc => quoteBody_noparen (hb c hc))]
          simp only [psStep, beq_iff_eq, hc.1, hc.2, ↓reduceIte]
          exact ih r hm
      · obtain ⟨hq, hm⟩ := h
        cases hg : group parenBody 41 rest with
        | none => simp [hg] at hm
        | some r =>
          simp only [hg] at hm
          obtain ⟨b, cl, hs, hne, hb, hcl⟩ := group_spec hg
          simp only [beq_iff_eq] at hq
          rw [hs]
          simp only [foldl_cons, psStep, beq_iff_eq, hq, ↓reduceIte, foldl_append]
          rw [fold_inside_body b false hb hne]
          simp only [psStep, beq_iff_eq, hcl, ↓reduceIte]
          exact ih r hm

theorem style_input_parens_inert (t : Tables) (svg : Bool) (s : Str) (h : sanitizeStyle t svg s ≠ []) :
    parensInert (stripUrls s) = true := by
  have hg := (style_shape t svg s h).1
  unfold gauntlet at hg
  simp [parensInert, gauntlet_parens_inert _ _ hg]

/-! ### witnesses: the literal "never contains url( / expression(" clause is false (open finding) -/

theorem url_token_survives_counterexample :
    sanitizeStyle shipped false "width: url(1 1)".toList = "width: url(1 1);".toList := by decide +kernel

theorem expression_token_survives_counterexample :
    sanitizeStyle shipped false "color: expression(1)".toList = "color: expression(1);".toList := by decide +kernel

/-! ### non-vacuity -/
example : sanitizeStyle shipped false "color: red; margin: 1px 2px; position: fixed; behavior: url(x.htc)".toList
    = "color: red; margin: 1px 2px;".toList := by decide +kernel
example : sanitizeStyle shipped false "width: expression(alert(1))".toList = [] := by decide +kernel
example : sanitizeStyle shipped true "fill: red".toList = "fill: red;".toList ∧
    sanitizeStyle shipped false "fill: red".toList = [] := by decide +kernel
example : gauntlet "border-top-color: rgb(1, 2, 3) 'a b' \"c\"".toList = true := by decide +kernel

end FeedVerif.Css
