/-
C10 — only the XML infoset matters: syntactic variants parse identically.
Model: FeedVerif/Model/Mixin.lean (stage 1).  How a SAX parser chunks character data (around
references, CDATA boundaries, newlines) is not part of the infoset; the handler machine must not
depend on it.
-/
import FeedVerif.Model.Mixin
import FeedVerif.Props.C19
import FeedVerif.Props.C20

namespace FeedVerif.Mixin

/-- forget how the text of an open element was chunked -/
def normE (e : Elem) : Elem := { e with pieces := [e.pieces.flatten] }
def normSt (s : MSt) : MSt := { s with stack := s.stack.map normE }

def Outcome.norm : Outcome → Outcome
  | .ok s => .ok (normSt s)
  | .unmodelled w => .unmodelled w

@[simp] theorem normE_flatten (e : Elem) : (normE e).pieces.flatten = e.pieces.flatten := by
  simp [normE]
@[simp] theorem normE_idem (e : Elem) : normE (normE e) = normE e := by
  simp [normE]
theorem normSt_idem (s : MSt) : normSt (normSt s) = normSt s := by
  simp [normSt, List.map_map, Function.comp_def]

theorem normSt_c (s : MSt) : (normSt s).c = s.c := rfl
theorem normSt_stack (s : MSt) : (normSt s).stack = s.stack.map normE := rfl

theorem normSt_eq_iff (a b : MSt) : normSt a = normSt b ↔ a.c = b.c ∧ a.stack.map normE = b.stack.map normE := by
  constructor
  · intro h; exact ⟨(congrArg MSt.c h : (normSt a).c = (normSt b).c), (congrArg MSt.stack h : (normSt a).stack = (normSt b).stack)⟩
  · intro ⟨h1, h2⟩
    cases a; cases b
    simp only [normSt] at *
    subst h1
    simp [h2]

@[simp] theorem map_normE_idem (l : List Elem) : (l.map normE).map normE = l.map normE := by
  simp [List.map_map, Function.comp_def]

/-- `pop` reads the open element's text only through the join of its pieces -/
theorem pop_norm (o : Ops) (s : MSt) (el : Str) : normSt (pop o (normSt s) el) = normSt (pop o s el) := by
  unfold pop
  cases hs : s.stack with
  | nil => simp [normSt, hs]
  | cons top rest =>
    simp only [normSt, hs, List.map_cons]
    have hn : (normE top).name = top.name := rfl
    have he : (normE top).expecting = top.expecting := rfl
    simp only [hn, he, normE_flatten]
    by_cases h1 : (top.name != el) = true
    · simp [h1, hs]
    · simp only [h1, Bool.false_eq_true, ↓reduceIte]
      by_cases h2 : (!top.expecting) = true
      · simp [h2]
      · simp only [h2, Bool.false_eq_true, ↓reduceIte]
        split
        · simp
        · split
          · simp
          · split
            · simp
            · simp

/-- …and so does the value it returns -/
theorem popValue_norm (o : Ops) (s : MSt) (el : Str) : popValue o (normSt s) el = popValue o s el := by
  unfold popValue
  cases hs : s.stack with
  | nil => simp [normSt, hs]
  | cons top rest =>
    have hn : (normE top).name = top.name := rfl
    simp only [normSt, hs, List.map_cons, hn, normE_flatten]

/-- the same for the `pop` of a text construct: returned value and new state -/
theorem popFull_norm (o : Ops) (s : MSt) (el : Str) :
    (popFull o (normSt s) el).1 = (popFull o s el).1 ∧ normSt (popFull o (normSt s) el).2 = normSt (popFull o s el).2 := by
  unfold popFull
  cases hs : s.stack with
  | nil => simp [normSt, hs]
  | cons top rest =>
    simp only [normSt, hs, List.map_cons]
    have hn : (normE top).name = top.name := rfl
    have he : (normE top).expecting = top.expecting := rfl
    simp only [hn, he, normE_flatten]
    by_cases h1 : (top.name != el) = true
    · simp [h1, hs]
    · simp only [h1, Bool.false_eq_true, ↓reduceIte]
      by_cases h2 : (!top.expecting) = true
      · simp [h2]
      · simp only [h2, Bool.false_eq_true, ↓reduceIte]
        split
        · simp
        · split
          · simp
          · split
            · simp
            · split
              · simp
              · split
                · simp
                · simp

theorem popContent_norm (o : Ops) (s : MSt) (k : Str) :
    (popContent o (normSt s) k).1 = (popContent o s k).1 ∧ normSt (popContent o (normSt s) k).2 = normSt (popContent o s k).2 := by
  have h := popFull_norm o s k
  unfold popContent
  refine ⟨h.1, ?_⟩
  have h2 := (normSt_eq_iff _ _).mp h.2
  rw [normSt_eq_iff]
  exact ⟨by simp only [h2.1], h2.2⟩

theorem endContent_norm (o : Ops) (s : MSt) (h : Str) : (endContent o (normSt s) h).norm = (endContent o s h).norm := by
  unfold endContent
  cases hk : contentEndKey h with
  | none => rfl
  | some k =>
    cases hs : s.stack with
    | nil => simp [normSt, hs]
    | cons top rest =>
      have hst : (normSt s).stack = normE top :: rest.map normE := by simp [normSt, hs]
      simp only [hst]
      have hn : (normE top).name = top.name := rfl
      simp only [hn]
      by_cases h1 : (top.name != k) = true
      · simp [h1]
      · simp only [h1, Bool.false_eq_true, ↓reduceIte, Outcome.norm]
        congr 1
        have hp := popContent_norm o s k
        have h2 := (normSt_eq_iff _ _).mp hp.2
        rw [normSt_eq_iff]
        refine ⟨?_, h2.2⟩
        have e1 : afterTitle k (popContent o (normSt s) k) = afterTitle k (popContent o s k) := by
          unfold afterTitle
          rw [hp.1, h2.1]
        rw [e1]

theorem endExt_norm (o : Ops) (s : MSt) (kind : Str) : (endExt o (normSt s) kind).norm = (endExt o s kind).norm := by
  unfold endExt
  simp only [normSt_c]
  simp only [Outcome.norm]
  congr 1
  have hp := popContent_norm o s (endPlan s.c kind).1
  have h2 := (normSt_eq_iff _ _).mp hp.2
  rw [normSt_eq_iff]
  refine ⟨?_, h2.2⟩
  have e1 : endExtCore o (normSt s) kind = endExtCore o s kind := by
    unfold endExtCore endExtSaved
    simp only [normSt_c, hp.1, h2.1]
  rw [e1]

theorem applyExt_norm (st : List Elem) (r : Except Str (Core × List Elem)) :
    (applyExt (st.map normE) r).norm = (applyExt st r).norm := by
  cases r with
  | error w => rfl
  | ok p =>
    obtain ⟨c, es⟩ := p
    simp [applyExt, Outcome.norm, normSt, List.map_append]

/-- stage 4: `pop("link")` reads the open element's text only through the join of its pieces -/
theorem popLink_norm (o : Ops) (s : MSt) : normSt (popLink o (normSt s)) = normSt (popLink o s) := by
  unfold popLink
  cases hs : s.stack with
  | nil => simp [normSt, hs]
  | cons top rest =>
    simp only [normSt, hs, List.map_cons]
    have hn : (normE top).name = top.name := rfl
    have he : (normE top).expecting = top.expecting := rfl
    simp only [hn, he, normE_flatten]
    by_cases h1 : (top.name != S "link") = true
    · simp [h1, hs]
    · simp only [h1, Bool.false_eq_true, ↓reduceIte]
      by_cases h2 : (!top.expecting) = true
      · simp [h2]
      · simp only [h2, Bool.false_eq_true, ↓reduceIte]
        split
        · simp
        · split <;> simp

theorem popPlain_norm (s : MSt) (el : Str) :
    (popPlain (normSt s) el).1 = (popPlain s el).1 ∧ normSt (popPlain (normSt s) el).2 = normSt (popPlain s el).2 := by
  unfold popPlain
  cases hs : s.stack with
  | nil => simp [normSt, hs]
  | cons top rest =>
    have hn : (normE top).name = top.name := rfl
    simp only [normSt, hs, List.map_cons, hn, normE_flatten]
    by_cases h1 : (top.name != el) = true
    · simp [h1, hs]
    · simp [h1]

/-- stage 7: the author / contributor end handlers read the open element's text only through the join of its pieces -/
theorem endAuthorKinds_norm (o : Ops) (s : MSt) (kind : Str) :
    (endAuthorKinds o (normSt s) kind).map normSt = (endAuthorKinds o s kind).map normSt := by
  have hpop : ∀ el, (pop o (normSt s) el).c = (pop o s el).c ∧ (pop o (normSt s) el).stack.map normE = (pop o s el).stack.map normE :=
    fun el => (normSt_eq_iff _ _).mp (pop_norm o s el)
  unfold endAuthorKinds
  by_cases k1 : (kind == S "author") = true
  · simp only [k1, ↓reduceIte, Option.map_some, Option.some.injEq]
    rw [normSt_eq_iff]; exact ⟨by simp only [(hpop _).1], (hpop _).2⟩
  · simp only [k1, Bool.false_eq_true, ↓reduceIte]
    by_cases k2 : (kind == S "contributor") = true
    · simp only [k2, ↓reduceIte, Option.map_some, Option.some.injEq]
      rw [normSt_eq_iff]; exact ⟨by simp only [(hpop _).1], (hpop _).2⟩
    · simp only [k2, Bool.false_eq_true, ↓reduceIte]
      by_cases k3 : (kind == S "name") = true
      · simp only [k3, ↓reduceIte, Option.map_some, Option.some.injEq]
        have hp := popPlain_norm s (S "name")
        have h2 := (normSt_eq_iff _ _).mp hp.2
        rw [normSt_eq_iff]; exact ⟨by simp only [hp.1, h2.1], h2.2⟩
      · simp only [k3, Bool.false_eq_true, ↓reduceIte]
        by_cases k4 : (kind == S "email") = true
        · simp only [k4, ↓reduceIte, Option.map_some, Option.some.injEq]
          have hp := popPlain_norm s (S "email")
          have h2 := (normSt_eq_iff _ _).mp hp.2
          rw [normSt_eq_iff]; exact ⟨by simp only [hp.1, h2.1], h2.2⟩
        · simp only [k4, Bool.false_eq_true, ↓reduceIte]
          by_cases k5 : (kind == S "url") = true
          · simp only [k5, ↓reduceIte, Option.map_some, Option.some.injEq]
            rw [normSt_eq_iff]; exact ⟨by simp only [popValue_norm, (hpop _).1], (hpop _).2⟩
          · simp only [k5, Bool.false_eq_true, ↓reduceIte]
            by_cases k6 : (kind == S "publisher") = true
            · simp only [k6, ↓reduceIte, Option.map_some, Option.some.injEq]
              rw [normSt_eq_iff]; exact ⟨by simp only [(hpop _).1], (hpop _).2⟩
            · simp only [k6, Bool.false_eq_true, ↓reduceIte]
              by_cases k7 : (kind == S "owner") = true
              · simp only [k7, ↓reduceIte, Option.map_some, Option.some.injEq]
                rw [normSt_eq_iff]; exact ⟨by simp only [(hpop _).1], (hpop _).2⟩
              · simp only [k7, Bool.false_eq_true, ↓reduceIte]
                by_cases k8 : (kind == S "cloud") = true
                · simp only [k8, ↓reduceIte, Option.map_some, Option.some.injEq]
                  exact pop_norm o s _
                · simp only [k8, Bool.false_eq_true, ↓reduceIte]
                  by_cases k9 : (kind == S "generator") = true
                  · simp only [k9, ↓reduceIte, Option.map_some, Option.some.injEq]
                    rw [normSt_eq_iff]; exact ⟨by simp only [popValue_norm, (hpop _).1], (hpop _).2⟩
                  · simp only [k9, Bool.false_eq_true, ↓reduceIte, Option.map_none]

theorem endLG_norm (o : Ops) (s : MSt) (kind : Str) : (endLG o (normSt s) kind).norm = (endLG o s kind).norm := by
  unfold endLG
  by_cases hk : (kind == S "link") = true
  · simp only [hk, ↓reduceIte, Outcome.norm]
    congr 1
    have := (normSt_eq_iff _ _).mp (popLink_norm o s)
    rw [normSt_eq_iff]
    exact ⟨by simp only [this.1], this.2⟩
  · simp only [hk, Bool.false_eq_true, ↓reduceIte]
    by_cases hg : (kind == S "guid") = true
    · simp only [hg, ↓reduceIte, Outcome.norm]
      congr 1
      have := (normSt_eq_iff _ _).mp (pop_norm o s (S "id"))
      rw [normSt_eq_iff]
      refine ⟨?_, this.2⟩
      have e1 : endGuidCore o (normSt s) = endGuidCore o s := by
        unfold endGuidCore
        simp only [popValue_norm, this.1]
      rw [e1]
    · simp only [hg, Bool.false_eq_true, ↓reduceIte]
      by_cases hcat : (kind == S "category") = true
      · simp only [hcat, ↓reduceIte, Outcome.norm]
        congr 1
        have := (normSt_eq_iff _ _).mp (pop_norm o s (S "category"))
        rw [normSt_eq_iff]
        exact ⟨by simp only [popValue_norm, this.1], this.2⟩
      · simp only [hcat, Bool.false_eq_true, ↓reduceIte]
        by_cases hen : (kind == S "enclosure") = true
        · simp only [hen, ↓reduceIte, Outcome.norm]
          congr 1
          have := (normSt_eq_iff _ _).mp (pop_norm o s (S "enclosure"))
          rw [normSt_eq_iff]
          exact ⟨by simp only [this.1], this.2⟩
        · simp only [hen, Bool.false_eq_true, ↓reduceIte]
          have ha := endAuthorKinds_norm o s kind
          cases h1 : endAuthorKinds o (normSt s) kind with
          | none =>
            cases h2 : endAuthorKinds o s kind with
            | none => rfl
            | some s2 => rw [h1, h2] at ha; simp at ha
          | some s1 =>
            cases h2 : endAuthorKinds o s kind with
            | none => rw [h1, h2] at ha; simp at ha
            | some s2 =>
              rw [h1, h2] at ha
              simp only [Option.map_some, Option.some.injEq] at ha
              have := (normSt_eq_iff _ _).mp ha
              simp only [Outcome.norm]
              congr 1
              rw [normSt_eq_iff]
              exact ⟨by simp only [this.1], this.2⟩

theorem handleData_norm (s : MSt) (t : Str) : normSt (handleData (normSt s) t) = normSt (handleData s t) := by
  unfold handleData
  cases hs : s.stack with
  | nil => simp [normSt, hs]
  | cons top rest =>
    simp [normSt, hs, normE, List.map_map, Function.comp_def]

theorem applyDispatch_norm (st : List Elem) (r : Except Str (Core × Option Elem)) :
    (applyDispatch (st.map normE) r).norm = (applyDispatch st r).norm := by
  cases r with
  | error w => rfl
  | ok p =>
    obtain ⟨c, pe⟩ := p
    cases pe with
    | none => simp [applyDispatch, Outcome.norm, normSt]
    | some e => simp [applyDispatch, Outcome.norm, normSt]

/-- one step of the machine commutes with forgetting the chunking: everything but `pop` and
`handle_data` works on the stack-free part of the state (`Core`) -/
theorem step_norm (o : Ops) (s : MSt) (e : MEv) : (mstep o (normSt s) e).norm = (mstep o s e).norm := by
  cases e with
  | start tag attrs =>
    simp only [mstep, startTag, normSt_c]
    by_cases hc : s.c.incontent = true
    · simp only [hc, ↓reduceIte]
    · simp only [hc, Bool.false_eq_true, ↓reduceIte, startTag0, normSt_c, normSt_stack]
      cases hx : extKind (handlerName (startPre o s.c tag attrs).1 tag) with
      | some kind => exact applyExt_norm _ _
      | none =>
        cases hl : lgKind (handlerName (startPre o s.c tag attrs).1 tag) with
        | some kind => exact applyExt_norm _ _
        | none => exact applyDispatch_norm _ _
  | stop tag =>
    simp only [mstep, endTag, normSt_c]
    by_cases hc : s.c.incontent = true
    · simp only [hc, ↓reduceIte]
      cases hx : extKind (handlerName s.c tag) with
      | some kind => exact endExt_norm o s kind
      | none => exact endContent_norm o s _
    simp only [hc, Bool.false_eq_true, ↓reduceIte]
    by_cases hk : ((contentEndKey (handlerName s.c tag)).isSome || (extKind (handlerName s.c tag)).isSome) = true
    · simp only [hk, ↓reduceIte]
    simp only [hk, Bool.false_eq_true, ↓reduceIte, endTag0, normSt_c]
    have hpop : ∀ el, normSt (pop o (normSt s) el) = normSt (pop o s el) := pop_norm o s
    by_cases c1 : (handlerName s.c tag == S "channel" || handlerName s.c tag == S "feed") = true
    · simp only [c1, ↓reduceIte]
      simp [Outcome.norm, normSt]
    · simp only [c1, Bool.false_eq_true, ↓reduceIte]
      by_cases c2 : (handlerName s.c tag == S "item" || handlerName s.c tag == S "entry") = true
      · simp only [c2, ↓reduceIte, Outcome.norm]
        congr 1
        have := (normSt_eq_iff _ _).mp (hpop (S "item"))
        rw [normSt_eq_iff]
        exact ⟨by simp only [this.1], this.2⟩
      · simp only [c2, Bool.false_eq_true, ↓reduceIte]
        cases hl : lgKind (handlerName s.c tag) with
        | some kind => exact endLG_norm o s kind
        | none =>
        simp only
        cases hdk : dateKey (handlerName s.c tag) with
        | some kp =>
          -- a simple date element: the popped value and the pop itself only see the joined text
          simp only [Outcome.norm, popValue_norm]
          congr 1
          have := (normSt_eq_iff _ _).mp (hpop kp.1)
          rw [normSt_eq_iff]
          exact ⟨by simp only [this.1], this.2⟩
        | none =>
          simp only
          by_cases c3 : hasEnd (handlerName s.c tag) = true
          · simp only [c3, ↓reduceIte]
          · simp only [c3, Bool.false_eq_true, ↓reduceIte, Outcome.norm]
            congr 1
            have := (normSt_eq_iff _ _).mp (hpop (handlerName s.c tag))
            rw [normSt_eq_iff]
            exact ⟨by simp only [this.1], this.2⟩
  | data t => simp only [mstep, Outcome.norm, handleData_norm]
  | ns p u => simp [mstep, Outcome.norm, normSt]
  | cref r =>
    simp only [mstep]
    cases crefText r with
    | some t => simp only [Outcome.norm, handleData_norm]
    | none => rfl
  | eref r => simp only [mstep, Outcome.norm, handleData_norm]

/-- …and so does a whole run -/
theorem run_norm (o : Ops) (evs : List MEv) : ∀ s t, normSt s = normSt t → (mrun o s evs).norm = (mrun o t evs).norm := by
  induction evs with
  | nil => intro s t h; simp [mrun, Outcome.norm, h]
  | cons e rest ih =>
    intro s t h
    have hs := step_norm o s e
    have ht := step_norm o t e
    rw [h] at hs
    have hst : (mstep o s e).norm = (mstep o t e).norm := by rw [← hs, ← ht]
    simp only [mrun]
    cases h1 : mstep o s e with
    | unmodelled w =>
      cases h2 : mstep o t e with
      | unmodelled w2 => rw [h1, h2] at hst; simpa [Outcome.norm] using hst
      | ok t' => rw [h1, h2] at hst; simp [Outcome.norm] at hst
    | ok s' =>
      cases h2 : mstep o t e with
      | unmodelled w2 => rw [h1, h2] at hst; simp [Outcome.norm] at hst
      | ok t' =>
        rw [h1, h2] at hst
        simp only [Outcome.norm, Outcome.ok.injEq] at hst
        exact ih s' t' hst

/-- splitting a chunk of character data in two is invisible once chunking is forgotten -/
theorem data_split_equiv (s : MSt) (a b : Str) :
    normSt (handleData (handleData s a) b) = normSt (handleData s (a ++ b)) := by
  unfold handleData
  cases hs : s.stack with
  | nil => simp [hs]
  | cons top rest => simp [hs, normSt, normE, List.flatten_append]

/-- **Data chunking is irrelevant**: however the character data of a document is cut into
`characters()` events — around character / entity references, CDATA section boundaries, newlines,
buffer boundaries — the machine ends in the same state up to the chunking of still-open elements;
in particular `feed`, `entries`, `version` and `namespaces` are identical. -/
theorem data_chunking_irrelevant (o : Ops) (s : MSt) (pre post : List MEv) (a b : Str) :
    (mrun o s (pre ++ [.data (a ++ b)] ++ post)).norm = (mrun o s (pre ++ [.data a, .data b] ++ post)).norm := by
  have run_app : ∀ (xs ys : List MEv) (s : MSt), mrun o s (xs ++ ys) =
      match mrun o s xs with | .ok s' => mrun o s' ys | .unmodelled w => .unmodelled w := by
    intro xs
    induction xs with
    | nil => intro ys s; rfl
    | cons x xs ih =>
      intro ys s
      simp only [List.cons_append, mrun]
      cases mstep o s x with
      | ok s' => exact ih ys s'
      | unmodelled w => rfl
  rw [List.append_assoc, List.append_assoc, run_app pre, run_app pre]
  cases mrun o s pre with
  | unmodelled w => rfl
  | ok s1 =>
    simp only [List.singleton_append, List.cons_append, List.nil_append, mrun, mstep]
    exact run_norm o post _ _ (data_split_equiv s1 a b).symm

/-- the observable part of the result is untouched by `norm` -/
theorem norm_observables (s : MSt) : (normSt s).c = s.c := rfl

/-- …stated on results: two chunkings of the same character data give the same feed, entries,
version and namespaces -/
theorem data_chunking_same_result (o : Ops) (s s1 s2 : MSt) (pre post : List MEv) (a b : Str)
    (h1 : mrun o s (pre ++ [.data (a ++ b)] ++ post) = .ok s1)
    (h2 : mrun o s (pre ++ [.data a, .data b] ++ post) = .ok s2) : s1.c = s2.c := by
  have := data_chunking_irrelevant o s pre post a b
  rw [h1, h2] at this
  simp only [Outcome.norm, Outcome.ok.injEq] at this
  exact (congrArg MSt.c this : (normSt s1).c = (normSt s2).c)

/-- comments and processing instructions never reach the machine: `handle_comment` / `handle_pi` are
`pass` (mixin.py:409-418) — there is no event for them in the model's alphabet, so any two event
streams that differ only in comments / PIs are the same list. Prefix renaming is covered by
`handlerName_canonical` / `handlerName_document_prefix` (Props/C19). -/
theorem prefix_renaming_recognised (s t : Core) (p q lname canon : Str) (hc : canon ≠ [])
    (hp : p.contains ':' = false) (hq : q.contains ':' = false)
    (hs : sget s.nsMap (some p) = some canon) (ht : sget t.nsMap (some q) = some canon) :
    handlerName s (p ++ ':' :: lname) = handlerName t (q ++ ':' :: lname) := by
  rw [handlerName_canonical s p lname canon hc hp hs, handlerName_canonical t q lname canon hc hq ht]

/-- non-vacuity: a feed whose title arrives in one chunk and in three chunks (as around `&amp;`) -/
example :
    (match mrun looseOps {} [.start (S "rss") [], .start (S "channel") [], .start (S "x:t") [], .data (S "a&b"), .stop (S "x:t")],
           mrun looseOps {} [.start (S "rss") [], .start (S "channel") [], .start (S "x:t") [], .data (S "a"), .data (S "&"), .data (S "b"), .stop (S "x:t")] with
      | .ok s1, .ok s2 => s1.c.feed == s2.c.feed && s1.c.feed == [(S "x_t", .s (S "a&b"))]
      | _, _ => false) = true := by decide +kernel

/-! ### attribute order -/

theorem sfind_map_other (k k' v : Str) (hne : (k' == k) = false) : ∀ d : List (Str × Str),
    ((d.map fun p => if (p.1 == k') = true then (k', v) else p).find? (·.1 == k)).map (·.2) = (d.find? (·.1 == k)).map (·.2) := by
  intro d
  induction d with
  | nil => rfl
  | cons p rest ih =>
    simp only [List.map_cons, List.find?_cons]
    by_cases hp : (p.1 == k') = true
    · have hpk : p.1 = k' := by simpa using hp
      have h2 : (p.1 == k) = false := by rw [hpk]; exact hne
      simp only [hp, ↓reduceIte, hne, h2]
      exact ih
    · have hp' : (p.1 == k') = false := by simpa using hp
      simp only [hp', Bool.false_eq_true, ↓reduceIte]
      cases (p.1 == k) with
      | true => rfl
      | false => exact ih

theorem sget_sset_other (d : List (Str × Str)) (k k' v : Str) (hne : (k' == k) = false) : sget (sset d k' v) k = sget d k := by
  unfold sget sset
  by_cases hany : d.any (·.1 == k') = true
  · simp only [hany, ↓reduceIte]
    exact sfind_map_other k k' v hne d
  · simp only [hany, Bool.false_eq_true, ↓reduceIte, List.find?_append]
    cases hf : d.find? (·.1 == k) with
    | some x => simp
    | none => simp [hne]

/-- what a lookup in the attribute dict returns: the value of the LAST attribute with that name -/
theorem sget_dictOf (attrs : List (Str × Str)) (k : Str) :
    sget (dictOf attrs) k = ((attrs.reverse.find? (·.1 == k)).map (·.2)) := by
  unfold dictOf
  have gen : ∀ (l : List (Str × Str)) (d0 : List (Str × Str)),
      sget (l.foldl (fun d kv => sset d kv.1 kv.2) d0) k = ((l.reverse.find? (·.1 == k)).map (·.2)).orElse fun _ => sget d0 k := by
    intro l
    induction l with
    | nil => intro d0; simp
    | cons a rest ih =>
      intro d0
      simp only [List.foldl_cons, List.reverse_cons, List.find?_append]
      rw [ih]
      cases hr : rest.reverse.find? (·.1 == k) with
      | some x => simp
      | none =>
        simp only [Option.map_none, Option.orElse_none, Option.none_or, List.find?_cons, List.find?_nil]
        by_cases ha : (a.1 == k) = true
        · have : a.1 = k := by simpa using ha
          simp only [ha, Option.map_some]
          rw [this]; simp [sget_sset_same]
        · have ha' : (a.1 == k) = false := by simpa using ha
          simp only [ha']
          simp [sget_sset_other _ _ _ _ ha']
  have := gen attrs []
  simp only [sget, List.find?_nil, Option.map_none] at this ⊢
  simpa using this

/-- **Attribute order is irrelevant to every lookup** (C10): if no two attributes of the element carry the same (normalised) name, the
dict built from any permutation of them answers every `attrs_d.get(name)` the same. -/
theorem attribute_order_irrelevant (attrs attrs' : List (Str × Str)) (hp : attrs.Perm attrs')
    (hnd : (attrs.map (·.1)).Nodup) (k : Str) : sget (dictOf attrs') k = sget (dictOf attrs) k := by
  rw [sget_dictOf, sget_dictOf]
  -- with distinct names there is at most one attribute named k: find? over any ordering returns it
  have key : ∀ (l : List (Str × Str)), (l.map (·.1)).Nodup → ∀ x ∈ l, (x.1 == k) = true → (l.find? (·.1 == k)) = some x := by
    intro l
    induction l with
    | nil => intro _ x hx; cases hx
    | cons a rest ih =>
      intro hnd x hx hk
      simp only [List.map_cons, List.nodup_cons] at hnd
      simp only [List.find?_cons]
      by_cases ha : (a.1 == k) = true
      · simp only [ha]
        rcases List.mem_cons.mp hx with rfl | hxr
        · rfl
        · exfalso
          have : x.1 = a.1 := by rw [beq_iff_eq.mp hk, beq_iff_eq.mp ha]
          exact hnd.1 (List.mem_map.mpr ⟨x, hxr, this⟩)
      · have ha' : (a.1 == k) = false := by simpa using ha
        simp only [ha']
        rcases List.mem_cons.mp hx with rfl | hxr
        · rw [hk] at ha'; cases ha'
        · exact ih hnd.2 x hxr hk
  have hnd' : (attrs'.map (·.1)).Nodup := (hp.map (·.1)).nodup_iff.mp hnd
  have hndr : (attrs.reverse.map (·.1)).Nodup := by rw [List.map_reverse]; exact (List.reverse_perm _).nodup_iff.mpr hnd
  have hndr' : (attrs'.reverse.map (·.1)).Nodup := by rw [List.map_reverse]; exact (List.reverse_perm _).nodup_iff.mpr hnd'
  cases hf : attrs.reverse.find? (·.1 == k) with
  | some x =>
    have hx := List.mem_of_find?_eq_some hf
    have hk := List.find?_some hf
    have hx' : x ∈ attrs'.reverse := by
      rw [List.mem_reverse] at hx ⊢; exact hp.mem_iff.mp hx
    rw [key _ hndr' x hx' hk]
  | none =>
    have : attrs'.reverse.find? (·.1 == k) = none := by
      apply List.find?_eq_none.mpr
      intro x hx
      have hx0 : x ∈ attrs.reverse := by rw [List.mem_reverse] at hx ⊢; exact hp.mem_iff.mpr hx
      exact (List.find?_eq_none.mp hf) x hx0
    rw [this]

/-- non-vacuity: `<link rel="alternate" href="x" type="text/html"/>` in two attribute orders -/
example : sget (dictOf [(S "href", S "x"), (S "rel", S "alternate"), (S "type", S "text/html")]) (S "href") =
          sget (dictOf [(S "type", S "text/html"), (S "href", S "x"), (S "rel", S "alternate")]) (S "href") := by decide +kernel

/-- …and the hypothesis matters: with the same name twice the LAST one wins, so order shows (the property's "contrived" corner, F20) -/
example : sget (dictOf [(S "href", S "a"), (S "href", S "b")]) (S "href") ≠ sget (dictOf [(S "href", S "b"), (S "href", S "a")]) (S "href") := by decide +kernel

end FeedVerif.Mixin
