/-
C02 — core feed data is normalised identically whatever the feed format.
Models: FeedVerif/Model/Json.lean (complete model of the JSON Feed parser) and
FeedVerif/Model/Mixin.lean (stage 1: version detection on the root element).
-/
import FeedVerif.Model.Json
import FeedVerif.Model.Mixin
import FeedVerif.Props.C20
import FeedVerif.Props.C19
import FeedVerif.Lemmas.Mixin

namespace FeedVerif.Json

/-! ### the abstract feed and its JSON Feed serialisation (tools/feedgen.py, JSON branch) -/

structure AEnc where
  url : String
  type : String
  length : Int

structure AEntry where
  title : String
  link : String
  id : String
  summary : String
  authorName : String
  published : String      -- RFC 3339 rendering of the instant
  updated : String
  categories : List String
  enclosures : List AEnc

structure AFeed where
  v11 : Bool
  title : String
  link : String
  description : String
  entries : List AEntry

def encJson (x : AEnc) : JVal := .obj [("url", .str x.url), ("mime_type", .str x.type), ("size_in_bytes", .num x.length)]

def entryJson (a : AEntry) : JVal :=
  .obj ([("id", .str a.id), ("title", .str a.title), ("url", .str a.link), ("summary", .str a.summary),
         ("author", .obj [("name", .str a.authorName)]), ("date_published", .str a.published), ("date_modified", .str a.updated)]
        ++ (if a.categories.isEmpty then [] else [("tags", .arr (a.categories.map .str))])
        ++ (if a.enclosures.isEmpty then [] else [("attachments", .arr (a.enclosures.map encJson))]))

def jsonOf (A : AFeed) : JVal :=
  .obj [("version", .str (if A.v11 then "https://jsonfeed.org/version/1.1" else "https://jsonfeed.org/version/1")),
        ("title", .str A.title), ("home_page_url", .str A.link), ("description", .str A.description),
        ("items", .arr (A.entries.map entryJson))]

/-! ### the normalised view -/

def normEnc (x : AEnc) : RVal :=
  .dict [("rel", .str "enclosure"), ("href", .j (.str x.url)), ("type", .j (.str x.type)), ("length", .j (.num x.length))]

def normEntry (o : Ops) (a : AEntry) : RDict :=
  [("title", .j (.str a.title)), ("id", .j (.str a.id)), ("link", .j (.str a.link)), ("summary", .j (.str a.summary)),
   ("published", .j (.str a.published)), ("published_parsed", .date (if a.published.isEmpty then none else o.parseDate a.published)),
   ("updated", .j (.str a.updated)), ("updated_parsed", .date (if a.updated.isEmpty then none else o.parseDate a.updated))]
  ++ (if a.categories.isEmpty then [] else [("tags", .list (a.categories.map fun t => .dict [("term", .j (.str t)), ("scheme", .none), ("label", .none)]))])
  ++ [("author_detail", .dict [("name", .j (.str a.authorName))]), ("author", .j (.str a.authorName))]
  ++ (if a.enclosures.isEmpty then [] else [("links", .list (a.enclosures.map normEnc))])

def norm (o : Ops) (A : AFeed) : Out :=
  { version := some (if A.v11 then "json11" else "json1"),
    feed := [("title", .j (.str A.title)), ("link", .j (.str A.link)), ("summary", .j (.str A.description))],
    entries := A.entries.map (normEntry o), failed := false }

/-! ### alias resolution of the keys the JSON parser writes (the table is regenerated from /repo) -/
theorem canon_title : Dict.canon Dict.keymap "title" = "title" := by decide +kernel
theorem canon_guid : Dict.canon Dict.keymap "guid" = "id" := by decide +kernel
theorem canon_link : Dict.canon Dict.keymap "link" = "link" := by decide +kernel
theorem canon_summary : Dict.canon Dict.keymap "summary" = "summary" := by decide +kernel
theorem canon_description : Dict.canon Dict.keymap "description" = "summary" := by decide +kernel
theorem canon_source : Dict.canon Dict.keymap "source" = "source" := by decide +kernel
theorem canon_image : Dict.canon Dict.keymap "image" = "image" := by decide +kernel
theorem canon_published : Dict.canon Dict.keymap "published" = "published" := by decide +kernel
theorem canon_published_parsed : Dict.canon Dict.keymap "published_parsed" = "published_parsed" := by decide +kernel
theorem canon_updated : Dict.canon Dict.keymap "updated" = "updated" := by decide +kernel
theorem canon_updated_parsed : Dict.canon Dict.keymap "updated_parsed" = "updated_parsed" := by decide +kernel
theorem canon_tags : Dict.canon Dict.keymap "tags" = "tags" := by decide +kernel
theorem canon_author : Dict.canon Dict.keymap "author" = "author" := by decide +kernel
theorem canon_author_detail : Dict.canon Dict.keymap "author_detail" = "author_detail" := by decide +kernel
theorem canon_rel : Dict.canon Dict.keymap "rel" = "rel" := by decide +kernel
theorem canon_href : Dict.canon Dict.keymap "href" = "href" := by decide +kernel
theorem canon_type : Dict.canon Dict.keymap "type" = "type" := by decide +kernel
theorem canon_length : Dict.canon Dict.keymap "length" = "length" := by decide +kernel
theorem canon_name : Dict.canon Dict.keymap "name" = "name" := by decide +kernel


theorem copy_item (a : AEntry) : copyFields ITEM_FIELDS (entryJson a) [] =
    some [("title", .j (.str a.title)), ("id", .j (.str a.id)), ("link", .j (.str a.link)), ("summary", .j (.str a.summary))] := by
  by_cases hc : a.categories.isEmpty = true <;> by_cases he : a.enclosures.isEmpty = true <;>
  simp [copyFields, ITEM_FIELDS, Gen.Mixin.jsonItemFields, entryJson, pyIn, pyItem, oget, rset, hc, he, canon_title, canon_guid, canon_link, canon_summary]

theorem in_ct (a : AEntry) : pyIn "content_text" (entryJson a) = some false := by
  by_cases hc : a.categories.isEmpty = true <;> by_cases he : a.enclosures.isEmpty = true <;> simp [entryJson, pyIn, hc, he]
theorem in_ch (a : AEntry) : pyIn "content_html" (entryJson a) = some false := by
  by_cases hc : a.categories.isEmpty = true <;> by_cases he : a.enclosures.isEmpty = true <;> simp [entryJson, pyIn, hc, he]
theorem in_dp (a : AEntry) : pyIn "date_published" (entryJson a) = some true := by simp [entryJson, pyIn]
theorem in_dm (a : AEntry) : pyIn "date_modified" (entryJson a) = some true := by simp [entryJson, pyIn]
theorem in_au (a : AEntry) : pyIn "author" (entryJson a) = some true := by simp [entryJson, pyIn]
theorem in_tags (a : AEntry) : pyIn "tags" (entryJson a) = some (!a.categories.isEmpty) := by
  by_cases hc : a.categories.isEmpty = true <;> by_cases he : a.enclosures.isEmpty = true <;> simp [entryJson, pyIn, hc, he]
theorem in_att (a : AEntry) : pyIn "attachments" (entryJson a) = some (!a.enclosures.isEmpty) := by
  by_cases hc : a.categories.isEmpty = true <;> by_cases he : a.enclosures.isEmpty = true <;> simp [entryJson, pyIn, hc, he]
theorem it_dp (a : AEntry) : pyItem "date_published" (entryJson a) = some (.str a.published) := by simp [entryJson, pyItem, oget]
theorem it_dm (a : AEntry) : pyItem "date_modified" (entryJson a) = some (.str a.updated) := by simp [entryJson, pyItem, oget]
theorem it_au (a : AEntry) : pyItem "author" (entryJson a) = some (.obj [("name", .str a.authorName)]) := by simp [entryJson, pyItem, oget]
theorem it_tags (a : AEntry) (h : a.categories.isEmpty = false) : pyItem "tags" (entryJson a) = some (.arr (a.categories.map .str)) := by
  by_cases he : a.enclosures.isEmpty = true <;> simp [entryJson, pyItem, oget, h, he]
theorem it_att (a : AEntry) (h : a.enclosures.isEmpty = false) : pyItem "attachments" (entryJson a) = some (.arr (a.enclosures.map encJson)) := by
  by_cases hc : a.categories.isEmpty = true <;> simp [entryJson, pyItem, oget, h, hc]

theorem parseAttachment_enc (x : AEnc) : parseAttachment (encJson x) = some (normEnc x) := by
  simp [parseAttachment, encJson, normEnc, pyItem, pyIn, oget, rset, canon_rel, canon_href, canon_type, canon_length]

theorem mapM_parseAttachment (l : List AEnc) : (l.map encJson).mapM parseAttachment = some (l.map normEnc) := by
  induction l with
  | nil => rfl
  | cons x xs ih => simp [List.mapM_cons, parseAttachment_enc, ih]

/-- one entry: the JSON item of an abstract entry parses to exactly its normalised view -/
theorem parseEntry_entryJson (o : Ops) (a : AEntry) : parseEntry o (entryJson a) = some (normEntry o a) := by
  unfold parseEntry
  simp only [copy_item, in_ct, in_ch, in_dp, in_dm, in_au, in_tags, in_att, it_dp, it_dm, it_au]
  by_cases hc : a.categories.isEmpty = true <;> by_cases he : a.enclosures.isEmpty = true
  · simp [hc, he, rset, dateOf, normEntry, parseAuthor, pyIn, pyItem, oget, canon_published, canon_published_parsed, canon_updated, canon_updated_parsed,
          canon_author, canon_author_detail]
  · have he' : a.enclosures.isEmpty = false := by simpa using he
    simp only [hc, he', Bool.not_true, Bool.not_false, it_att, pyIter, Option.bind_some, mapM_parseAttachment]
    simp [rset, dateOf, normEntry, parseAuthor, pyIn, pyItem, oget, canon_published, canon_published_parsed, canon_updated,
          canon_updated_parsed, canon_author, canon_author_detail, hc, he']
  · have hc' : a.categories.isEmpty = false := by simpa using hc
    simp only [hc', he, Bool.not_true, Bool.not_false, it_tags, pyIter, Option.bind_some]
    simp [rset, dateOf, normEntry, parseAuthor, pyIn, pyItem, oget, canon_published, canon_published_parsed, canon_updated,
          canon_updated_parsed, canon_tags, canon_author, canon_author_detail, hc', he, List.map_map, Function.comp_def]
  · have hc' : a.categories.isEmpty = false := by simpa using hc
    have he' : a.enclosures.isEmpty = false := by simpa using he
    simp only [hc', he', Bool.not_true, Bool.not_false, it_tags, it_att, pyIter, Option.bind_some, mapM_parseAttachment]
    simp [rset, dateOf, normEntry, parseAuthor, pyIn, pyItem, oget, canon_published, canon_published_parsed, canon_updated,
          canon_updated_parsed, canon_tags, canon_author, canon_author_detail, hc', he', List.map_map, Function.comp_def]

theorem mapM_parseEntry (o : Ops) (l : List AEntry) : (l.map entryJson).mapM (parseEntry o) = some (l.map (normEntry o)) := by
  induction l with
  | nil => rfl
  | cons x xs ih => simp [List.mapM_cons, parseEntry_entryJson, ih]

/-- **JSON Feed normalisation**: for EVERY abstract feed — any text, any number of entries, categories
and enclosures — the JSON Feed serialisation parses without failure to exactly the normalised view:
`title`, `link`, `description` (stored under its alias target `summary`), per entry `title`, `id`,
`link`, `summary`, the publication / update strings with the tuples `_parse_date` gives for them,
the tag terms in order, the author name, the enclosures as `rel="enclosure"` links — and `version`
names the JSON Feed version that was used. -/
theorem normalised_json (o : Ops) (A : AFeed) : feed o (jsonOf A) = norm o A := by
  unfold feed jsonOf
  simp only [oget, List.find?, Option.map, Option.getD, pyIter, Option.bind_some]
  cases hv : A.v11 <;>
    simp [norm, hv, VERSIONS, Gen.Mixin.jsonVersions, copyFields, FEED_FIELDS, Gen.Mixin.jsonFeedFields, pyIn, pyItem, oget, rset, canon_title, canon_image, canon_link,
          canon_description]
  all_goals (simp only [pyIter, mapM_parseEntry])

theorem json_version (o : Ops) (A : AFeed) : (feed o (jsonOf A)).version = some (if A.v11 then "json11" else "json1") := by
  rw [normalised_json]; rfl

/-- non-vacuity + a wrong-shape input: `items` missing → failure with the data assigned so far -/
example : (feed ⟨fun _ => none, id⟩ (.obj [("version", .str "https://jsonfeed.org/version/1"), ("title", .str "t")])).failed = true := by decide +kernel

end FeedVerif.Json

namespace FeedVerif.Mixin

/-! ### `version` names the XML format that was used

The version / namespace-map component of the handler machine is a sub-machine of its own: it does
not depend on `Ops` (URI joins, text repair, base tracking) beyond the back end's attribute hook.
`vRun` is that sub-machine; `version_submachine` shows the full machine's version is `vRun`'s for
EVERY event sequence, and the per-format statements are then closed computations. -/

structure VS where
  version : Str
  nsMap : List (Option Str × Str)
deriving DecidableEq

def trackV (v : VS) (pfx : Option Str) (uri0 : Str) : VS :=
  let lower0 := lowerS uri0
  let version :=
    if v.version.isEmpty then
      (if pfx.isNone && lower0 == S "http://my.netscape.com/rdf/simple/0.9/" then S "rss090"
       else if lower0 == S "http://purl.org/rss/1.0/" then S "rss10"
       else if lower0 == S "http://www.w3.org/2005/atom" then S "atom10"
       else v.version)
    else v.version
  let lower := if containsSub (S "backend.userland.com/rss") lower0 then S "http://backend.userland.com/rss" else lower0
  match sget matchNs lower with
  | some canon => ⟨version, sset v.nsMap pfx (lowerS canon)⟩
  | none => ⟨version, v.nsMap⟩

def proj (c : Core) : VS := ⟨c.version, c.nsMap⟩

theorem track_proj (c : Core) (p : Option Str) (u : Str) : proj (trackNamespace c p u) = trackV (proj c) p u := by
  unfold trackNamespace trackV proj
  by_cases hb : containsSub (S "backend.userland.com/rss") (lowerS u) = true
  · simp only [hb, ↓reduceIte]
    split <;> simp [*]
  · simp only [hb, Bool.false_eq_true, ↓reduceIte]
    split <;> simp [*]

/-- what `_start_rss` / `_start_feed` make of the version (namespaces/_base.py:60-104) -/
def dispVer (ver hn : Str) (attrsD : List (Str × Str)) : Str :=
  if hn == S "rss" then
    (if ver.isEmpty || !(S "rss").isPrefixOf ver then
      let av := (sget attrsD (S "version")).getD []
      if av == S "0.91" then S "rss091u" else if av == S "0.92" then S "rss092" else if av == S "0.93" then S "rss093"
        else if av == S "0.94" then S "rss094" else if (S "2.").isPrefixOf av then S "rss20" else S "rss"
     else ver)
  else if hn == S "feed" then
    (if ver.isEmpty then
      let av := sget attrsD (S "version")
      if av == some (S "0.1") then S "atom01" else if av == some (S "0.2") then S "atom02" else if av == some (S "0.3") then S "atom03" else S "atom"
     else ver)
  else ver

theorem setContext_ver (c : Core) (k : Str) (v : V) : (setContext c k v).version = c.version ∧ (setContext c k v).nsMap = c.nsMap := by
  unfold setContext; split <;> exact ⟨rfl, rfl⟩

theorem dispatch_ver (c : Core) (hn : Str) (attrsD : List (Str × Str)) (d : Core) (e : Option Elem)
    (h : dispatchCore c hn attrsD = .ok (d, e)) : d.version = dispVer c.version hn attrsD ∧ d.nsMap = c.nsMap := by
  unfold dispatchCore at h
  unfold dispVer
  split at h
  · rename_i h1
    injection h with h
    simp only [h1, ↓reduceIte]
    split at h
    · rename_i h2
      injection h with ha _; rw [← ha]; simp only [h2, ↓reduceIte]; simp
    · rename_i h2
      injection h with ha _; rw [← ha]; simp only [h2, Bool.false_eq_true, ↓reduceIte]; simp
  · rename_i h1
    simp only [h1, Bool.false_eq_true, ↓reduceIte]
    split at h
    · split at h
      · cases h
      · split at h
        · rename_i h3
          injection h with h; injection h with ha _; rw [← ha]
          have : (hn == S "feed") = false := by
            have := beq_iff_eq.mp h3; subst this; decide
          simp [this]
        · split at h
          · rename_i h4
            injection h with h
            simp only [h4, ↓reduceIte]
            split at h
            · rename_i h5
              injection h with ha _; rw [← ha]; simp only [h5, ↓reduceIte]; simp
            · rename_i h5
              injection h with ha _; rw [← ha]; simp only [h5, Bool.false_eq_true, ↓reduceIte]; simp
          · rename_i h4
            simp only [h4, Bool.false_eq_true, ↓reduceIte]
            simp only at h
            injection h with h; injection h with ha _
            rw [← ha]
            split
            · split
              · exact ⟨rfl, rfl⟩
              · exact setContext_ver _ _ _
            · exact ⟨rfl, rfl⟩
    · rename_i h2
      have hf : (hn == S "feed") = false := by
        simp only [Bool.or_eq_true, not_or] at h2
        simpa using h2.1.1.2
      simp only [hf, Bool.false_eq_true, ↓reduceIte]
      split at h
      · injection h with h; injection h with ha _; rw [← ha]; exact ⟨rfl, rfl⟩
      · split at h
        · rw [(startContent_ok _ _ _ _ _ _ _ h).1]; exact ⟨rfl, rfl⟩
        · split at h
          · rw [(startContent_ok _ _ _ _ _ _ _ h).1]; exact ⟨rfl, rfl⟩
          · split at h
            · cases h
            · simp only at h
              split at h
              · injection h with h; injection h with ha _; rw [← ha]; exact ⟨rfl, rfl⟩
              · injection h with h; injection h with ha _; rw [← ha]; exact setContext_ver _ _ _

def declFold (attrs : List (Str × Str)) (v : VS) : VS :=
  attrs.foldl (fun st kv =>
    if (S "xmlns:").isPrefixOf kv.1 then trackV st (some (kv.1.drop 6)) kv.2
    else if kv.1 == S "xmlns" then trackV st none kv.2 else st) v

theorem foldl_track_proj (attrs : List (Str × Str)) : ∀ c : Core,
    proj (attrs.foldl (fun st kv =>
      if (S "xmlns:").isPrefixOf kv.1 then trackNamespace st (some (kv.1.drop 6)) kv.2
      else if kv.1 == S "xmlns" then trackNamespace st none kv.2 else st) c) = declFold attrs (proj c) := by
  induction attrs with
  | nil => intro c; rfl
  | cons a rest ih =>
    intro c
    simp only [List.foldl_cons, declFold]
    split
    · rw [ih, track_proj]; rfl
    · split
      · rw [ih, track_proj]; rfl
      · rw [ih]; rfl

theorem startPre_proj (o : Ops) (c : Core) (tag : Str) (attrs : List (Str × Str)) :
    proj (startPre o c tag attrs).1 = declFold (attrs.map (normAttr o.loose)) (proj c) ∧
    (startPre o c tag attrs).2 = dictOf (attrs.map (normAttr o.loose)) := by
  unfold startPre
  simp only [and_true]
  have hf := foldl_track_proj (attrs.map (normAttr o.loose))
  split
  · split
    · rw [hf]; rfl
    · rw [hf]; rfl
  · rw [hf]; rfl

theorem startContent_isOk_eq (c : Core) (k : Str) (a : List (Str × Str)) (ty : Str) (e : Bool) :
    (startContent c k a ty e).isOk = !(some (mapContentType ((sget a (S "type")).getD ty)) == some XHTML) := by
  simp only [startContent, pushContent, Option.map_some]
  by_cases h : (some (mapContentType ((sget a (S "type")).getD ty)) == some XHTML) = true <;> simp [h, Except.isOk, Except.toBool]

theorem startContent_isOk (c c' : Core) (k : Str) (a : List (Str × Str)) (ty : Str) (e e' : Bool) :
    (startContent c k a ty e).isOk = (startContent c' k a ty e').isOk := by
  rw [startContent_isOk_eq, startContent_isOk_eq]

theorem startContentL_isOk_eq (c : Core) (k : Str) (a : List (Str × Str)) (ty : Str) (e : Bool) :
    (startContentL c k a ty e).isOk = !(some (mapContentType ((sget a (S "type")).getD ty)) == some XHTML) := by
  rw [← startContent_isOk_eq c k a ty e]
  unfold startContentL
  cases hs : startContent c k a ty e with
  | error w => rfl
  | ok r => obtain ⟨c2, pe⟩ := r; cases pe <;> rfl

theorem startContentElem_isOk_eq (c : Core) (a : List (Str × Str)) :
    (startContentElem c a).isOk = !(some (mapContentType ((sget a (S "type")).getD (S "text/plain"))) == some XHTML) := by
  rw [← startContent_isOk_eq { c with hasContent := true } (S "content") a (S "text/plain") true]
  unfold startContentElem
  cases hs : startContent { c with hasContent := true } (S "content") a (S "text/plain") true with
  | error w => rfl
  | ok r => rfl

/-- neither default content type of the stage-3 handlers is XHTML: whether the start is inside the domain depends on the `type` attribute only -/
theorem xhtml_default (a : List (Str × Str)) :
    (some (mapContentType ((sget a (S "type")).getD (S "text/html"))) == some XHTML) =
    (some (mapContentType ((sget a (S "type")).getD (S "text/plain"))) == some XHTML) := by
  cases sget a (S "type") with
  | some t => rfl
  | none => decide +kernel

/-- which starts of stage 3 are inside the model's domain: a function of the kind and the attributes only -/
def extOk (kind : Str) (a : List (Str × Str)) : Bool :=
  if kind == S "description" || kind == S "abstract" || kind == S "summary" || kind == S "content" || kind == S "content_encoded"
  then !(some (mapContentType ((sget a (S "type")).getD (S "text/plain"))) == some XHTML) else false

theorem startExt_isOk (c : Core) (kind : Str) (a : List (Str × Str)) : (startExt c kind a).isOk = extOk kind a := by
  unfold startExt extOk
  simp only
  by_cases h1 : (kind == S "description") = true
  · simp only [h1, ↓reduceIte, Bool.true_or]
    split
    · exact startContentElem_isOk_eq _ _
    · rw [startContentL_isOk_eq, xhtml_default]
  · simp only [h1, Bool.false_eq_true, ↓reduceIte, Bool.false_or]
    by_cases h2 : (kind == S "abstract") = true
    · simp only [h2, ↓reduceIte, Bool.true_or]
      exact startContentL_isOk_eq _ _ _ _ _
    · simp only [h2, Bool.false_eq_true, ↓reduceIte, Bool.false_or]
      by_cases h3 : (kind == S "summary") = true
      · simp only [h3, ↓reduceIte, Bool.true_or]
        split
        · exact startContentElem_isOk_eq _ _
        · exact startContentL_isOk_eq _ _ _ _ _
      · simp only [h3, Bool.false_eq_true, ↓reduceIte, Bool.false_or]
        by_cases h4 : (kind == S "content") = true
        · simp only [h4, ↓reduceIte, Bool.true_or]
          exact startContentElem_isOk_eq _ _
        · simp only [h4, Bool.false_eq_true, ↓reduceIte, Bool.false_or]
          by_cases h5 : (kind == S "content_encoded") = true
          · simp only [h5, ↓reduceIte]
            rw [startContentL_isOk_eq, xhtml_default]
          · simp only [h5, Bool.false_eq_true, ↓reduceIte]
            rfl

/-- errors of the dispatch depend on the handler name and the attributes only -/
theorem dispatch_isOk (c c' : Core) (hn : Str) (attrsD : List (Str × Str)) :
    (dispatchCore c hn attrsD).isOk = (dispatchCore c' hn attrsD).isOk := by
  unfold dispatchCore
  split
  · rfl
  · split
    · split
      · rfl
      · split
        · rfl
        · split <;> rfl
    · split
      · rfl
      · split
        · exact startContent_isOk _ _ _ _ _ _ _
        · split
          · exact startContent_isOk _ _ _ _ _ _ _
          · split
            · rfl
            · simp only
              split <;> rfl

def hnV (v : VS) (tag : Str) : Str := handlerName { nsMap := v.nsMap } tag

theorem handlerName_proj (c : Core) (tag : Str) : handlerName c tag = hnV (proj c) tag := rfl

/-- the sub-machine's state: version, prefix map, and — while a text construct is open (`incontent`) — the name of the element on
top of the stack (stage 2: inside a text construct only its own end tag is in the model's domain) -/
structure VX where
  v : VS
  openC : Option (Option Str)
deriving DecidableEq

/-- the name of the element on top of the stack, if it is one a title / plain text-construct handler pushes -/
def topPlain (st : List Elem) : Option Str := (st.head?.map (·.name)).filter isPlainKey

def projX (s : MSt) : VX := ⟨proj s.c, if s.c.incontent then some (topPlain s.stack) else none⟩

/-- which dispatches open a text construct, and the element they push -/
def dispOpen (hn : Str) : Option Str :=
  if hn == S "rss" then none
  else if hn == S "channel" || hn == S "feed" || hn == S "item" || hn == S "entry" then none
  else if (dateKey hn).isSome then none
  else if isTitle hn then some (S "title") else (contentKey hn).map (·.1)

/-- one event of the version sub-machine; `none` = outside the model's domain -/
def vStep (loose : Bool) (x : VX) : MEv → Option VX
  | .start tag attrs =>
    if x.openC.isSome then none else
    let v1 := declFold (attrs.map (normAttr loose)) x.v
    let a := dictOf (attrs.map (normAttr loose))
    let h := hnV v1 tag
    match extKind h with
    | some kind => if extOk kind a then some ⟨v1, some none⟩ else none      -- stage 3: a summary / description / content element opens
    | none =>
    match lgKind h with
    | some kind => if lgOk kind then some ⟨v1, none⟩ else none               -- stage 4: link, guid / id — no influence on the version
    | none =>
    if (dispatchCore { version := v1.version, nsMap := v1.nsMap } h a).isOk then some ⟨⟨dispVer v1.version h a, v1.nsMap⟩, (dispOpen h).map some⟩ else none
  | .stop tag =>
    let h := hnV x.v tag
    match x.openC with
    | some top =>
      (match extKind h with
       | some _ => some ⟨x.v, none⟩
       | none =>
        (match contentEndKey h, top with
          | some k, some nm => if nm != k then none else some ⟨x.v, none⟩
          | _, _ => none))
    | none =>
      if (contentEndKey h).isSome || (extKind h).isSome then none
      else if h == S "channel" || h == S "feed" || h == S "item" || h == S "entry" then some x
      else match lgKind h with
      | some kind => if lgOk kind then some x else none
      | none => if (dateKey h).isSome || !hasEnd h then some x else none
  | .data _ => some x
  | .ns p u => some ⟨trackV x.v p u, x.openC⟩
  | .cref r => if (crefText r).isSome then some x else none
  | .eref _ => some x

def vRun (loose : Bool) : VX → List MEv → Option VX
  | v, [] => some v
  | v, e :: rest => match vStep loose v e with | some v' => vRun loose v' rest | none => none

theorem pop_proj (o : Ops) (s : MSt) (el : Str) : proj (pop o s el).c = proj s.c ∧ (pop o s el).c.incontent = s.c.incontent := by
  unfold pop
  split
  · exact ⟨rfl, rfl⟩
  · split
    · exact ⟨rfl, rfl⟩
    · simp only
      split
      · exact ⟨rfl, rfl⟩
      · split
        · exact ⟨rfl, rfl⟩
        · split
          · exact ⟨rfl, rfl⟩
          · split <;> exact ⟨rfl, rfl⟩

theorem popFull_proj (o : Ops) (s : MSt) (el : Str) : proj (popFull o s el).2.c = proj s.c := by
  unfold popFull
  split
  · rfl
  · split
    · rfl
    · simp only
      split
      · rfl
      · split
        · rfl
        · split
          · rfl
          · split
            · rfl
            · split
              · rfl
              · split <;> rfl

theorem track_incontent (c : Core) (p : Option Str) (u : Str) : (trackNamespace c p u).incontent = c.incontent := by
  unfold trackNamespace; simp only; split <;> rfl

theorem foldl_track_incontent (attrs : List (Str × Str)) : ∀ c : Core,
    (attrs.foldl (fun st kv =>
      if (S "xmlns:").isPrefixOf kv.1 then trackNamespace st (some (kv.1.drop 6)) kv.2
      else if kv.1 == S "xmlns" then trackNamespace st none kv.2 else st) c).incontent = c.incontent := by
  induction attrs with
  | nil => intro c; rfl
  | cons a rest ih =>
    intro c
    simp only [List.foldl_cons]
    split
    · rw [ih, track_incontent]
    · split
      · rw [ih, track_incontent]
      · rw [ih]

theorem startPre_incontent (o : Ops) (c : Core) (tag : Str) (attrs : List (Str × Str)) :
    (startPre o c tag attrs).1.incontent = c.incontent := by
  unfold startPre
  simp only
  have hf := foldl_track_incontent (attrs.map (normAttr o.loose))
  split
  · split <;> rw [hf]
  · rw [hf]

theorem setContext_incontent (c : Core) (k : Str) (v : V) : (setContext c k v).incontent = c.incontent := by
  unfold setContext; split <;> rfl

/-- what a successful dispatch does to `incontent`, and which element it pushes when it opens a text construct -/
theorem dispatch_open (c : Core) (hn : Str) (attrsD : List (Str × Str)) (d : Core) (e : Option Elem)
    (h : dispatchCore c hn attrsD = .ok (d, e)) (hc : c.incontent = false) :
    (if d.incontent then some (e.map (·.name)) else none) = (dispOpen hn).map some := by
  unfold dispatchCore at h
  unfold dispOpen
  split at h
  · rename_i h1
    injection h with h
    simp only [h1, ↓reduceIte]
    split at h <;> (injection h with ha _; rw [← ha]; simp [hc])
  · rename_i h1
    simp only [h1, Bool.false_eq_true, ↓reduceIte]
    split at h
    · rename_i h2
      simp only [h2, ↓reduceIte]
      split at h
      · cases h
      · split at h
        · injection h with h; injection h with ha _; rw [← ha]; simp [hc]
        · split at h
          · injection h with h
            split at h <;> (injection h with ha _; rw [← ha]; simp [hc])
          · simp only at h
            injection h with h; injection h with ha _
            rw [← ha]
            split
            · split
              · simp [hc]
              · simp [setContext_incontent, hc]
            · simp [hc]
    · rename_i h2
      simp only [h2, Bool.false_eq_true, ↓reduceIte]
      split at h
      · rename_i h3
        injection h with h; injection h with ha _; rw [← ha]; simp [hc, h3]
      · rename_i h3
        simp only [h3, Bool.false_eq_true, ↓reduceIte]
        split at h
        · rename_i h4
          obtain ⟨hd, he⟩ := startContent_ok _ _ _ _ _ _ _ h
          rw [hd, he]
          simp [h4, pushContent]
        · rename_i h4
          simp only [h4, Bool.false_eq_true, ↓reduceIte]
          split at h
          · rename_i k ty hk
            obtain ⟨hd, he⟩ := startContent_ok _ _ _ _ _ _ _ h
            rw [hd, he]
            simp [hk, pushContent]
          · rename_i hk
            split at h
            · cases h
            · simp only at h
              split at h
              · injection h with h; injection h with ha _; rw [← ha]; simp [hc, hk]
              · injection h with h; injection h with ha _; rw [← ha]; simp [setContext_incontent, hc, hk]

/-- what `dispOpen` names is a key a title / plain text-construct handler pushes -/
theorem dispOpen_plain (h k : Str) (hk : dispOpen h = some k) : isPlainKey k = true := by
  unfold dispOpen at hk
  split at hk
  · cases hk
  · split at hk
    · cases hk
    · split at hk
      · cases hk
      · apply contentEndKey_plain h k
        unfold contentEndKey
        exact hk

/-- stage 4: a link / guid end handler leaves version, prefix map and `incontent` alone -/
theorem endLG_proj (o : Ops) (s : MSt) (kind : Str) (hc : s.c.incontent = false) :
    (match endLG o s kind with | .ok s' => some (projX s') | .unmodelled _ => none) =
      if lgOk kind then some ⟨proj s.c, none⟩ else none := by
  have hok := endLG_isOk o s kind
  cases h : endLG o s kind with
  | unmodelled w => rw [h] at hok; simp only at hok; simp [← hok]
  | ok s' =>
    rw [h] at hok
    simp only at hok
    obtain ⟨c1, st, hf, hs', _⟩ := endLG_ok o s s' kind h
    have hic : c1.incontent = false := hf.2.2.2.2.2.2.2.1.trans hc
    simp only [← hok, ↓reduceIte, hs', projX, endFinish, hic, Bool.false_eq_true, Option.some.injEq, VX.mk.injEq, and_true]
    simp only [proj, hf.2.1, hf.2.2.1]

theorem step_proj (o : Ops) (s : MSt) (e : MEv) :
    (match mstep o s e with | .ok s' => some (projX s') | .unmodelled _ => none) = vStep o.loose (projX s) e := by
  cases e with
  | start tag attrs =>
    simp only [mstep, startTag, vStep]
    by_cases hc : s.c.incontent = true
    · simp [projX, hc]
    have hc' : s.c.incontent = false := by simpa using hc
    have hx : (projX s).openC = none := by simp [projX, hc']
    have hv : (projX s).v = proj s.c := rfl
    simp only [hc', Bool.false_eq_true, ↓reduceIte, hx, Option.isSome_none, startTag0, hv]
    have hp := startPre_proj o s.c tag attrs
    rw [hp.2, handlerName_proj, hp.1]
    cases hxk : extKind (hnV (declFold (attrs.map (normAttr o.loose)) (proj s.c)) tag) with
    | some kind =>
      -- stage 3: a summary / description / content start handler
      simp only
      have hok := startExt_isOk (startPre o s.c tag attrs).1 kind (dictOf (attrs.map (normAttr o.loose)))
      cases hr : startExt (startPre o s.c tag attrs).1 kind (dictOf (attrs.map (normAttr o.loose))) with
      | error w =>
        rw [hr] at hok
        simp only [applyExt]
        rw [← hok]; rfl
      | ok r =>
        obtain ⟨c', es⟩ := r
        rw [hr] at hok
        have hf := startExt_frame _ _ _ _ _ hr
        obtain ⟨e, rest, hes, hnp⟩ := startExt_top _ _ _ _ _ hr
        simp only [applyExt]
        rw [← hok]
        simp only [Except.isOk, Except.toBool, ↓reduceIte, projX, hf.2.2.2.2.2.2.2.2.1, Option.some.injEq, VX.mk.injEq]
        refine ⟨?_, ?_⟩
        · rw [← hp.1]; simp only [proj, hf.2.2.2.1, hf.2.2.2.2.1]
        · simp [topPlain, hes, hnp]
    | none =>
    simp only
    cases hlk : lgKind (hnV (declFold (attrs.map (normAttr o.loose)) (proj s.c)) tag) with
    | some kind =>
      -- stage 4: a link / guid start handler
      simp only
      have hok := startLG_isOk o (startPre o s.c tag attrs).1 kind (dictOf (attrs.map (normAttr o.loose)))
      cases hr : startLG o (startPre o s.c tag attrs).1 kind (dictOf (attrs.map (normAttr o.loose))) with
      | error w =>
        rw [hr] at hok
        simp only [applyExt]
        rw [← hok]; rfl
      | ok r =>
        obtain ⟨c', es⟩ := r
        rw [hr] at hok
        have hf := startLG_frame4 _ _ _ _ _ _ hr
        simp only [applyExt]
        rw [← hok]
        have hic : c'.incontent = false := hf.2.2.2.2.2.2.2.1.trans (by rw [startPre_incontent]; exact hc')
        simp only [Except.isOk, Except.toBool, ↓reduceIte, projX, hic, Bool.false_eq_true, Option.some.injEq, VX.mk.injEq, and_true]
        rw [← hp.1]; simp only [proj, hf.2.1, hf.2.2.1]
    | none =>
    simp only
    have hok := dispatch_isOk (startPre o s.c tag attrs).1
      { version := (declFold (attrs.map (normAttr o.loose)) (proj s.c)).version, nsMap := (declFold (attrs.map (normAttr o.loose)) (proj s.c)).nsMap }
      (hnV (declFold (attrs.map (normAttr o.loose)) (proj s.c)) tag) (dictOf (attrs.map (normAttr o.loose)))
    cases hd : dispatchCore (startPre o s.c tag attrs).1 (hnV (declFold (attrs.map (normAttr o.loose)) (proj s.c)) tag) (dictOf (attrs.map (normAttr o.loose))) with
    | error w =>
      rw [hd] at hok
      simp only [applyDispatch]
      rw [← hok]; rfl
    | ok r =>
      obtain ⟨d, pe⟩ := r
      rw [hd] at hok
      have hv := dispatch_ver _ _ _ d pe hd
      have ho := dispatch_open _ _ _ d pe hd (by rw [startPre_incontent]; exact hc')
      have h1 : (startPre o s.c tag attrs).1.version = (declFold (attrs.map (normAttr o.loose)) (proj s.c)).version := congrArg VS.version hp.1
      have h2 : (startPre o s.c tag attrs).1.nsMap = (declFold (attrs.map (normAttr o.loose)) (proj s.c)).nsMap := congrArg VS.nsMap hp.1
      rw [← hok]
      cases pe with
      | none =>
        simp only [applyDispatch, Except.isOk, Except.toBool, ↓reduceIte, projX, proj, hv.1, hv.2, h1, h2, Option.some.injEq, VX.mk.injEq, true_and]
        simp only [proj] at ho
        rw [← ho]
        cases hdi : d.incontent with
        | false => simp
        | true =>
          rw [hdi] at ho
          simp only [↓reduceIte, Option.map_none] at ho
          cases hdo : dispOpen (hnV (declFold (List.map (normAttr o.loose) attrs) { version := s.c.version, nsMap := s.c.nsMap }) tag) with
          | none => rw [hdo] at ho; simp at ho
          | some k => rw [hdo] at ho; simp at ho
      | some el =>
        simp only [applyDispatch, Except.isOk, Except.toBool, ↓reduceIte, projX, proj, hv.1, hv.2, h1, h2, Option.some.injEq, VX.mk.injEq, true_and]
        simp only [proj] at ho
        -- the pushed element is the title / plain key `dispOpen` names, so it survives the `isPlainKey` filter
        cases hdi : d.incontent with
        | false =>
          rw [hdi] at ho
          simp only [Bool.false_eq_true, ↓reduceIte] at ho ⊢
          exact ho
        | true =>
          rw [hdi] at ho
          simp only [↓reduceIte, Option.map_some] at ho ⊢
          rw [← ho]
          have hpk := dispOpen_plain (hnV (declFold (List.map (normAttr o.loose) attrs) { version := s.c.version, nsMap := s.c.nsMap }) tag) el.name
            (by have := ho; cases hdo : dispOpen (hnV (declFold (List.map (normAttr o.loose) attrs) { version := s.c.version, nsMap := s.c.nsMap }) tag) with
                | none => rw [hdo] at this; simp at this
                | some k => rw [hdo] at this; simp at this; rw [this])
          simp [topPlain, hpk]
  | stop tag =>
    simp only [mstep, endTag, vStep]
    have hvv : (projX s).v = proj s.c := rfl
    by_cases hc : s.c.incontent = true
    · -- the end tag of the open text construct
      have hx : (projX s).openC = some (topPlain s.stack) := by simp [projX, hc]
      simp only [hc, ↓reduceIte, hx, hvv, handlerName_proj]
      cases hxk : extKind (hnV (proj s.c) tag) with
      | some kind =>
        -- stage 3: summary / description / content
        simp only [endExt, projX, Option.some.injEq, VX.mk.injEq]
        have hf := endExtCore_frame o s kind
        have hpf := popFull_proj o s (endPlan s.c kind).1
        refine ⟨?_, ?_⟩
        · simp only [proj, endFinish, hf.2.1, hf.2.2.1]
          simp only [proj] at hpf
          simpa [popContent] using hpf
        · simp only [endFinish, hf.2.2.2.1]
          simp
      | none =>
      simp only
      unfold endContent
      cases hk : contentEndKey (hnV (proj s.c) tag) with
      | none => simp
      | some k =>
        have hpk := contentEndKey_plain _ k hk
        cases hs : s.stack with
        | nil => simp [topPlain]
        | cons top rest =>
          by_cases hne : (top.name != k) = true
          · simp only [hne, ↓reduceIte, topPlain, List.head?_cons, Option.map_some]
            by_cases hpt : isPlainKey top.name = true
            · simp [Option.filter, hpt, hne]
            · simp [Option.filter, hpt]
          · have hnk : top.name = k := by simpa using hne
            simp only [hne, Bool.false_eq_true, ↓reduceIte, projX, topPlain, List.head?_cons, Option.map_some, hnk, Option.filter, hpk,
              bne_self_eq_false, Option.some.injEq, VX.mk.injEq]
            have ha := afterTitle_frame k (popContent o s k)
            have hpf := popFull_proj o s k
            refine ⟨?_, ?_⟩
            · simp only [proj, endFinish, ha.2.2.2.1, ha.2.2.2.2.1]
              simp only [proj] at hpf
              simpa [popContent, hs] using hpf
            · simp only [endFinish, ha.2.2.2.2.2.2.2.2.2.1]
              simp [popContent]
    have hc' : s.c.incontent = false := by simpa using hc
    have hx : (projX s).openC = none := by simp [projX, hc']
    simp only [hc', Bool.false_eq_true, ↓reduceIte, hx, hvv, handlerName_proj]
    by_cases hk : ((contentEndKey (hnV (proj s.c) tag)).isSome || (extKind (hnV (proj s.c) tag)).isSome) = true
    · simp only [hk, ↓reduceIte]
    simp only [hk, Bool.false_eq_true, ↓reduceIte, endTag0, handlerName_proj]
    have e1 : ∀ (c : Core) (st : List Elem), projX ⟨endFinish o c, st⟩ = ⟨proj c, if c.incontent then some (topPlain st) else none⟩ := fun _ _ => rfl
    have e2 : ∀ (c : Core) (b : Bool), proj { c with infeed := b } = proj c := fun _ _ => rfl
    have e3 : ∀ (c : Core) (b : Bool), proj { c with inentry := b } = proj c := fun _ _ => rfl
    have e4 : ∀ (c : Core) (k : Str) (v : V), proj (setContext c k v) = proj c := by
      intro c k v; have := setContext_ver c k v; simp only [proj, this.1, this.2]
    have hpx : projX s = ⟨proj s.c, none⟩ := by simp [projX, hc']
    cases hlk : lgKind (hnV (proj s.c) tag) with
    | some kind =>
      -- stage 4: a link / guid end handler
      obtain ⟨_, _, _, _, _, n2, n3, n4, n5⟩ := lgKind_facts _ kind hlk
      simp only [n2, n3, n4, n5, Bool.or_self, Bool.false_eq_true, ↓reduceIte, hpx]
      exact endLG_proj o s kind hc'
    | none =>
    cases hdk : dateKey (hnV (proj s.c) tag) with
    | some kp =>
      by_cases hA : (hnV (proj s.c) tag == S "channel") = true <;> by_cases hB : (hnV (proj s.c) tag == S "feed") = true <;>
        by_cases hC : (hnV (proj s.c) tag == S "item") = true <;> by_cases hD : (hnV (proj s.c) tag == S "entry") = true <;>
        (simp [hA, hB, hC, hD, e1, e2, e3, e4, hpx, hc', (pop_proj o s _).1, (pop_proj o s _).2, setContext_incontent]) <;> first | rfl | exact (pop_proj o s _).1
    | none =>
      by_cases hA : (hnV (proj s.c) tag == S "channel") = true <;> by_cases hB : (hnV (proj s.c) tag == S "feed") = true <;>
        by_cases hC : (hnV (proj s.c) tag == S "item") = true <;> by_cases hD : (hnV (proj s.c) tag == S "entry") = true <;>
        by_cases hE : hasEnd (hnV (proj s.c) tag) = true <;> (simp [hA, hB, hC, hD, hE, e1, e2, e3, hpx, hc', (pop_proj o s _).1, (pop_proj o s _).2]) <;> first | rfl | exact (pop_proj o s _).1
  | data t =>
    simp only [mstep, vStep]
    unfold handleData
    split
    · rfl
    · rename_i top rest hs
      simp [projX, hs, topPlain]
  | ns p u =>
    simp only [mstep, vStep, projX, track_incontent]
    rw [← track_proj]
  | cref r =>
    simp only [mstep, vStep]
    cases crefText r with
    | none => rfl
    | some t =>
      simp only [Option.isSome_some, ↓reduceIte]
      unfold handleData
      split
      · rfl
      · rename_i top rest hs
        simp [projX, hs, topPlain]
  | eref r =>
    simp only [mstep, vStep]
    unfold handleData
    split
    · rfl
    · rename_i top rest hs
      simp [projX, hs, topPlain]

/-- **The version sub-machine**: for every `Ops`, state and event sequence, the version (and the
prefix map) the handler machine ends with is what `vRun` computes from the version and prefix map it
started with (and the open text construct, if any) — nothing else in the state, and nothing in `Ops` but the back end flag, has any influence. -/
theorem version_submachine (o : Ops) (evs : List MEv) : ∀ s : MSt,
    (match mrun o s evs with | .ok s' => some (projX s') | .unmodelled _ => none) = vRun o.loose (projX s) evs := by
  induction evs with
  | nil => intro s; rfl
  | cons e rest ih =>
    intro s
    have hs := step_proj o s e
    simp only [mrun, vRun]
    cases hm : mstep o s e with
    | ok s' => rw [hm] at hs; simp only at hs; rw [← hs]; exact ih s'
    | unmodelled w => rw [hm] at hs; simp only at hs; rw [← hs]

def verOf (o : Outcome) : Option Str := match o with | .ok s => some s.c.version | .unmodelled _ => none

theorem verOf_eq (o : Ops) (evs : List MEv) : verOf (mrun o {} evs) = (vRun o.loose ⟨⟨[], []⟩, none⟩ evs).map (·.v.version) := by
  have := version_submachine o evs {}
  have hp : projX ({} : MSt) = ⟨⟨[], []⟩, none⟩ := rfl
  rw [hp] at this
  unfold verOf
  cases hm : mrun o {} evs with
  | ok s' => rw [hm] at this; simp only at this; rw [← this]; rfl
  | unmodelled w => rw [hm] at this; simp only at this; rw [← this]; rfl

/-! the root events of the six XML serialisations (tools/feedgen.py), as either back end delivers them -/
def evRss (v : String) : List MEv := [.start (S "rss") [(S "version", S v)]]
def evAtom10Strict : List MEv := [.ns none (S "http://www.w3.org/2005/Atom"), .start (S "feed") []]
def evAtom10Loose : List MEv := [.start (S "feed") [(S "xmlns", S "http://www.w3.org/2005/Atom")]]
def evAtom03Strict : List MEv := [.ns none (S "http://purl.org/atom/ns#"), .start (S "feed") [(S "version", S "0.3")]]
def evAtom03Loose : List MEv := [.start (S "feed") [(S "version", S "0.3"), (S "xmlns", S "http://purl.org/atom/ns#")]]
def evRss10Strict : List MEv :=
  [.ns (some (S "rdf")) (S "http://www.w3.org/1999/02/22-rdf-syntax-ns#"), .ns none (S "http://purl.org/rss/1.0/"), .start (S "rdf:rdf") []]
def evRss10Loose : List MEv :=
  [.start (S "rdf:rdf") [(S "xmlns:rdf", S "http://www.w3.org/1999/02/22-rdf-syntax-ns#"), (S "xmlns", S "http://purl.org/rss/1.0/")]]

def vVer (loose : Bool) (evs : List MEv) : Option Str := (vRun loose ⟨⟨[], []⟩, none⟩ evs).map (·.v.version)

theorem vv_rss091 : ∀ b, vVer b (evRss "0.91") = some (S "rss091u") := by decide +kernel
theorem vv_rss092 : ∀ b, vVer b (evRss "0.92") = some (S "rss092") := by decide +kernel
theorem vv_rss20 : ∀ b, vVer b (evRss "2.0") = some (S "rss20") := by decide +kernel
theorem vv_atom10s : ∀ b, vVer b evAtom10Strict = some (S "atom10") := by decide +kernel
theorem vv_atom10l : ∀ b, vVer b evAtom10Loose = some (S "atom10") := by decide +kernel
theorem vv_atom03s : ∀ b, vVer b evAtom03Strict = some (S "atom03") := by decide +kernel
theorem vv_atom03l : ∀ b, vVer b evAtom03Loose = some (S "atom03") := by decide +kernel
theorem vv_rss10s : ∀ b, vVer b evRss10Strict = some (S "rss10") := by decide +kernel
theorem vv_rss10l : ∀ b, vVer b evRss10Loose = some (S "rss10") := by decide +kernel

theorem verOf_vVer (o : Ops) (evs : List MEv) : verOf (mrun o {} evs) = vVer o.loose evs := verOf_eq o evs

/-- RSS 0.91 / 0.92 / 2.0: `<rss version="…">` — either back end, any `Ops` -/
theorem version_rss (o : Ops) :
    verOf (mrun o {} (evRss "0.91")) = some (S "rss091u") ∧ verOf (mrun o {} (evRss "0.92")) = some (S "rss092") ∧
    verOf (mrun o {} (evRss "2.0")) = some (S "rss20") := by
  simp only [verOf_vVer, vv_rss091, vv_rss092, vv_rss20, and_self]

/-- Atom 1.0: the namespace decides — delivered as a prefix-mapping event (strict) or as an attribute (loose) -/
theorem version_atom10 (o : Ops) :
    verOf (mrun o {} evAtom10Strict) = some (S "atom10") ∧ verOf (mrun o {} evAtom10Loose) = some (S "atom10") := by
  simp only [verOf_vVer, vv_atom10s, vv_atom10l, and_self]

/-- …and that holds for EVERY prefix the document binds the Atom 1.0 / RSS 1.0 namespace to (a producer is free to write
`<a:feed xmlns:a="http://www.w3.org/2005/Atom">`), in any letter case of the URI the tables recognise: the version decision
of `track_namespace` does not look at the prefix. -/
def verPick (isDefault : Bool) (lower0 : Str) : Str :=
  if isDefault && lower0 == S "http://my.netscape.com/rdf/simple/0.9/" then S "rss090"
  else if lower0 == S "http://purl.org/rss/1.0/" then S "rss10"
  else if lower0 == S "http://www.w3.org/2005/atom" then S "atom10"
  else []

theorem trackV_version_fresh (p : Option Str) (nm : List (Option Str × Str)) (u : Str) :
    (trackV ⟨[], nm⟩ p u).version = verPick p.isNone (lowerS u) := by
  unfold trackV verPick; simp only []; split <;> rfl

theorem verPick_atom10 : ∀ b, verPick b (lowerS (S "http://www.w3.org/2005/Atom")) = S "atom10" := by decide +kernel
theorem verPick_atom10_lower : ∀ b, verPick b (lowerS (S "http://www.w3.org/2005/atom")) = S "atom10" := by decide +kernel
theorem verPick_atom10_upper : ∀ b, verPick b (lowerS (S "HTTP://WWW.W3.ORG/2005/ATOM")) = S "atom10" := by decide +kernel
theorem verPick_rss10 : ∀ b, verPick b (lowerS (S "http://purl.org/rss/1.0/")) = S "rss10" := by decide +kernel

theorem track_version_any_prefix (p : Option Str) (nm : List (Option Str × Str)) :
    (trackV ⟨[], nm⟩ p (S "http://www.w3.org/2005/Atom")).version = S "atom10" ∧
    (trackV ⟨[], nm⟩ p (S "HTTP://WWW.W3.ORG/2005/ATOM")).version = S "atom10" ∧
    (trackV ⟨[], nm⟩ p (S "http://purl.org/rss/1.0/")).version = S "rss10" := by
  simp only [trackV_version_fresh, verPick_atom10, verPick_atom10_upper, verPick_rss10, and_self]

/-- non-vacuity: a concrete prefixed root -/
example : vVer false [.ns (some (S "a")) (S "http://www.w3.org/2005/Atom"), .start (S "a:feed") []] = some (S "atom10") := by decide +kernel

/-- Atom 0.3: the `version` attribute decides (its namespace sets no version) -/
theorem version_atom03 (o : Ops) :
    verOf (mrun o {} evAtom03Strict) = some (S "atom03") ∧ verOf (mrun o {} evAtom03Loose) = some (S "atom03") := by
  simp only [verOf_vVer, vv_atom03s, vv_atom03l, and_self]

/-- RSS 1.0: the default namespace of the `rdf:RDF` root decides -/
theorem version_rss10 (o : Ops) :
    verOf (mrun o {} evRss10Strict) = some (S "rss10") ∧ verOf (mrun o {} evRss10Loose) = some (S "rss10") := by
  simp only [verOf_vVer, vv_rss10s, vv_rss10l, and_self]

end FeedVerif.Mixin

/-! ### date elements of the XML formats (M-mixin stage 1.5: handlers recognised from their source) -/

namespace FeedVerif.Mixin

theorem date_keys_not_uri : Gen.Mixin.dateElementsL.all (fun e => !canBeRelativeUri.contains e.2.1) = true := by decide +kernel

theorem dateKey_not_uri (h : Str) (k pk : Str) (hk : dateKey h = some (k, pk)) : canBeRelativeUri.contains k = false := by
  unfold dateKey at hk
  cases hf : Gen.Mixin.dateElementsL.find? (·.1 == h) with
  | none => rw [hf] at hk; cases hk
  | some e =>
    rw [hf] at hk
    have hm := List.mem_of_find?_eq_some hf
    have hall := List.all_eq_true.mp date_keys_not_uri e hm
    simp only [Option.map_some, Option.some.injEq] at hk
    rw [hk] at hall
    simpa using hall

theorem dateKey_not_structural (h : Str) (kp : Str × Str) (hk : dateKey h = some kp) :
    (h == S "rss") = false ∧ (h == S "channel") = false ∧ (h == S "feed") = false ∧ (h == S "item") = false ∧ (h == S "entry") = false := by
  obtain ⟨a, b, c, d, e⟩ := dateKey_structural
  refine ⟨?_, ?_, ?_, ?_, ?_⟩ <;>
  · cases hb : (h == _) with
    | false => rfl
    | true => have := beq_iff_eq.mp hb; subst this; simp_all

theorem dget_dset_same (d : D) (k : Str) (v : V) : dget (dset d k v) k = some v := by
  unfold dget dset
  by_cases hany : d.any (·.1 == k) = true
  · simp only [hany, ↓reduceIte]
    induction d with
    | nil => simp at hany
    | cons p rest ih =>
      simp only [List.map_cons, List.find?_cons]
      by_cases hp : (p.1 == k) = true
      · simp [hp]
      · have hp' : (p.1 == k) = false := by simpa using hp
        simp only [hp', Bool.false_eq_true, ↓reduceIte]
        have hr : rest.any (·.1 == k) = true := by simpa [hp'] using hany
        exact ih hr
  · simp only [hany, Bool.false_eq_true, ↓reduceIte, List.find?_append]
    have : d.find? (·.1 == k) = none := by
      rw [List.find?_eq_none]; intro q hq
      simp only [List.any_eq_true, not_exists, not_and] at hany
      exact hany q hq
    simp [this]

theorem date_keys_plain : Gen.Mixin.dateElementsL.all (fun e => !(e.2.1 == S "category" || e.2.1 == S "tags" || e.2.1 == S "itunes_keywords")) = true := by decide +kernel

theorem dateKey_plain (h : Str) (k pk : Str) (hk : dateKey h = some (k, pk)) :
    (k == S "category" || k == S "tags" || k == S "itunes_keywords") = false := by
  unfold dateKey at hk
  cases hf : Gen.Mixin.dateElementsL.find? (·.1 == h) with
  | none => rw [hf] at hk; cases hk
  | some e =>
    rw [hf] at hk
    have hm := List.mem_of_find?_eq_some hf
    have hall := List.all_eq_true.mp date_keys_plain e hm
    simp only [Option.map_some, Option.some.injEq] at hk
    rw [hk] at hall
    simpa using hall

/-- start tag of a simple date element without attributes: push `K`, nothing else that matters changes -/
theorem date_start (o : Ops) (s : MSt) (tag k pk : Str) (hk : dateKey (handlerName s.c tag) = some (k, pk)) (hnc : s.c.incontent = false) :
    ∃ c1, mstep o s (.start tag []) = .ok ⟨c1, ⟨k, true, []⟩ :: s.stack⟩ ∧ c1.entries = s.c.entries ∧ c1.inentry = s.c.inentry ∧ c1.nsMap = s.c.nsMap ∧
      c1.incontent = false := by
  have hpre : (startPre o s.c tag []).1.entries = s.c.entries ∧ (startPre o s.c tag []).1.inentry = s.c.inentry ∧
      (startPre o s.c tag []).1.nsMap = s.c.nsMap ∧ (startPre o s.c tag []).2 = [] := by
    unfold startPre
    simp only [List.map_nil, List.foldl_nil, dictOf]
    split
    · split <;> simp
    · simp
  have hh : handlerName (startPre o s.c tag []).1 tag = handlerName s.c tag := by
    unfold handlerName; rw [hpre.2.2.1]
  obtain ⟨n1, n2, n3, n4, n5⟩ := dateKey_not_structural _ _ hk
  refine ⟨(startPre o s.c tag []).1, ?_, hpre.1, hpre.2.1, hpre.2.2.1, by rw [startPre_incontent]; exact hnc⟩
  simp only [mstep, startTag, hnc, Bool.false_eq_true, ↓reduceIte, startTag0, hh, hpre.2.2.2, dateKey_not_ext _ _ hk, dateKey_not_lg _ _ hk]
  unfold dispatchCore
  simp only [n1, n2, n3, n4, n5, Bool.false_eq_true, ↓reduceIte, Bool.or_self, hk, Option.isSome_some, Option.map_some, applyDispatch]


/-- `_parse_date(value)` as the end handler calls it: None for an empty string -/
def parsedOf (o : Ops) (v : Str) : Option (List Int) := if v.isEmpty then none else o.parseDate v

/-- end tag of a simple date element in an entry whose element is on top of the stack: `K_parsed` of
the current entry is what `_parse_date` answers for the (stripped, repaired) joined text -/
theorem date_stop (o : Ops) (s : MSt) (tag k pk : Str) (ps : List Str) (rest : List Elem) (e0 : Entry) (es : List Entry)
    (hk : dateKey (handlerName s.c tag) = some (k, pk)) (hst : s.stack = ⟨k, true, ps⟩ :: rest)
    (hin : s.c.inentry = true) (hen : s.c.entries = e0 :: es) (hnc : s.c.incontent = false) :
    ∃ s', mstep o s (.stop tag) = .ok s' ∧ s'.stack = rest ∧ s'.c.inentry = true ∧
      ∃ e', s'.c.entries = e' :: es ∧ dget e'.d (canonKey pk) = some (.t (parsedOf o (o.fix (o.decodeEnt (S "xml") (stripS ps.flatten))))) := by
  obtain ⟨n1, n2, n3, n4, n5⟩ := dateKey_not_structural _ _ hk
  have hu := dateKey_not_uri _ _ _ hk
  have hp := dateKey_plain _ _ _ hk
  have hv : popValue o s k = some (o.fix (o.decodeEnt (S "xml") (stripS ps.flatten))) := by
    have hu' : k ∉ canBeRelativeUri := by simpa using hu
    unfold popValue; simp [hst, hu']
  have hpop : pop o s k = ⟨{ s.c with entries := writeEntry k (o.fix (o.decodeEnt (S "xml") (stripS ps.flatten))) s.c.depth e0 :: es }, rest⟩ := by
    unfold pop
    simp only [hst, bne_self_eq_false, Bool.false_eq_true, ↓reduceIte, Bool.not_true, hu, Bool.false_and, hp, hin, hen, updHead]
  refine ⟨⟨endFinish o (setContext (pop o s k).c pk (.t (parsedOf o (o.fix (o.decodeEnt (S "xml") (stripS ps.flatten)))))), (pop o s k).stack⟩, ?_, ?_, ?_, ?_⟩
  · simp only [mstep, endTag, hnc, dateKey_not_content _ _ hk, dateKey_not_ext _ _ hk, dateKey_not_lg _ _ hk, Option.isSome_none, Bool.or_self, endTag0, n2, n3, n4, n5, Bool.or_self, Bool.false_eq_true, ↓reduceIte, hk, hv, parsedOf]
  · simp only [hpop]
  · simp only [hpop, endFinish, setContext, hin, ↓reduceIte]
  · refine ⟨{ (writeEntry k (o.fix (o.decodeEnt (S "xml") (stripS ps.flatten))) s.c.depth e0) with d := fset (writeEntry k (o.fix (o.decodeEnt (S "xml") (stripS ps.flatten))) s.c.depth e0).d pk (.t (parsedOf o (o.fix (o.decodeEnt (S "xml") (stripS ps.flatten))))) }, ?_, ?_⟩
    · simp only [hpop, endFinish, setContext, hin, ↓reduceIte, updHead]
    · simp only [fset]; exact dget_dset_same _ _ _


/-- **A date element of an entry is stored as what `_parse_date` makes of its text** — for every element
the translator recognised from the handlers' SOURCE as a simple date element (`pubDate`, `published`,
`issued`, `updated`, `modified`, `lastBuildDate`, `created`, `expirationDate`, `dc:date`,
`dcterms:created / issued / modified`, under whatever prefix the document binds), for every text (however
the tokenizer chunks it: C10), either back end: after `<X>text</X>` inside an entry the entry's
`K_parsed` is `_parse_date(repair(strip(text)))`, None for an empty string.  With C09's theorems about
`_parse_date` on the renderings of an instant this is the XML half of "every instant comes back as the
correct UTC tuple". -/
theorem date_element_parsed (o : Ops) (s : MSt) (tag k pk t : Str) (e0 : Entry) (es : List Entry)
    (hk : dateKey (handlerName s.c tag) = some (k, pk)) (hin : s.c.inentry = true) (hen : s.c.entries = e0 :: es)
    (hnc : s.c.incontent = false) :
    ∃ s' e', mrun o s [.start tag [], .data t, .stop tag] = .ok s' ∧ s'.stack = s.stack ∧ s'.c.entries = e' :: es ∧
      dget e'.d (canonKey pk) = some (.t (parsedOf o (o.fix (o.decodeEnt (S "xml") (stripS t))))) := by
  obtain ⟨c1, h1, he1, hi1, hn1, hc1⟩ := date_start o s tag k pk hk hnc
  have hk1 : dateKey (handlerName c1 tag) = some (k, pk) := by
    have : handlerName c1 tag = handlerName s.c tag := by unfold handlerName; rw [hn1]
    rw [this]; exact hk
  have h2 : mstep o ⟨c1, ⟨k, true, []⟩ :: s.stack⟩ (.data t) = .ok ⟨c1, ⟨k, true, [t]⟩ :: s.stack⟩ := by
    simp [mstep, handleData]
  obtain ⟨s3, h3, hs3, _, e', he', hd'⟩ := date_stop o ⟨c1, ⟨k, true, [t]⟩ :: s.stack⟩ tag k pk [t] s.stack e0 es hk1 rfl
    (by simpa using hi1.trans hin) (by simpa using he1.trans hen) hc1
  refine ⟨s3, e', ?_, hs3, he', ?_⟩
  · simp only [mrun, h1, h2, h3]
  · simpa using hd'

/-- non-vacuity: `<pubDate>` in an RSS item with a stub `_parse_date` -/
example :
    (match mrun { looseOps with parseDate := fun _ => some [2004, 1, 1, 19, 48, 21, 3, 1, 0] }
        { c := { entries := [{}], inentry := true, infeed := true } } [.start (S "pubdate") [], .data (S " Thu, 01 Jan 2004 19:48:21 GMT "), .stop (S "pubdate")] with
      | .ok s' => (s'.c.entries.head?.bind fun e => dget e.d (S "published_parsed")) == some (.t (some [2004, 1, 1, 19, 48, 21, 3, 1, 0])) &&
                  (s'.c.entries.head?.bind fun e => dget e.d (S "published")) == some (.s (S "Thu, 01 Jan 2004 19:48:21 GMT"))
      | .unmodelled _ => false) = true := by decide +kernel

end FeedVerif.Mixin

/-! ### text constructs of the XML formats (M-mixin stage 2: `push_content` / `pop_content` / `pop()` with content parameters) -/

namespace FeedVerif.Mixin

theorem title_table_facts :
    Gen.Mixin.titleHandlersL.all (fun h => !(h == S "rss") && !(h == S "channel") && !(h == S "feed") && !(h == S "item") && !(h == S "entry") && (dateKey h).isNone) = true ∧
    canBeRelativeUri.contains (S "title") = false ∧ htmlTypes.contains (S "text/plain") = false ∧
    (canonKey (S "title") == canonKey (S "title_detail")) = false ∧ canonKey (S "title") = S "title" := by decide +kernel

theorem isTitle_facts (h : Str) (ht : isTitle h = true) :
    (h == S "rss") = false ∧ (h == S "channel") = false ∧ (h == S "feed") = false ∧ (h == S "item") = false ∧ (h == S "entry") = false ∧ dateKey h = none := by
  unfold isTitle at ht
  obtain ⟨e, hm, he⟩ := List.any_eq_true.mp ht
  have hall := List.all_eq_true.mp title_table_facts.1 e hm
  have : e = h := by simpa using he
  rw [this] at hall
  simp only [Bool.and_eq_true, Bool.not_eq_true', Option.isNone_iff_eq_none] at hall
  obtain ⟨⟨⟨⟨⟨a, b⟩, c⟩, d⟩, e'⟩, f⟩ := hall
  exact ⟨a, b, c, d, e', f⟩

theorem find_map_other (k k' : Str) (v : V) (hne : (k' == k) = false) : ∀ d : D,
    ((d.map fun p => if (p.1 == k') = true then (k', v) else p).find? (·.1 == k)).map (·.2) = (d.find? (·.1 == k)).map (·.2) := by
  intro d
  induction d with
  | nil => rfl
  | cons p rest ih =>
    simp only [List.map_cons, List.find?_cons]
    by_cases hp : (p.1 == k') = true
    · have hpk : p.1 = k' := by simpa using hp
      have h2 : (p.1 == k) = false := by rw [hpk]; exact hne
      simp only [hp, ↓reduceIte, hne, h2]
      exact ih
    · have hp' : (p.1 == k') = false := by simpa using hp
      simp only [hp', Bool.false_eq_true, ↓reduceIte]
      cases (p.1 == k) with
      | true => rfl
      | false => exact ih

theorem dget_dset_other (d : D) (k k' : Str) (v : V) (hne : (k' == k) = false) : dget (dset d k' v) k = dget d k := by
  unfold dget dset
  by_cases hany : d.any (·.1 == k') = true
  · simp only [hany, ↓reduceIte]
    exact find_map_other k k' v hne d
  · simp only [hany, Bool.false_eq_true, ↓reduceIte, List.find?_append]
    cases hf : d.find? (·.1 == k) with
    | some x => simp
    | none => simp [hne]

/-- the core after the start tag of an attribute-less element: what matters is unchanged -/
theorem startPre_nil (o : Ops) (c : Core) (tag : Str) :
    (startPre o c tag []).1.entries = c.entries ∧ (startPre o c tag []).1.inentry = c.inentry ∧ (startPre o c tag []).1.nsMap = c.nsMap ∧
    (startPre o c tag []).2 = [] ∧ (startPre o c tag []).1.version = c.version ∧ (startPre o c tag []).1.titleDepth = c.titleDepth ∧
    (startPre o c tag []).1.incontent = c.incontent ∧ (startPre o c tag []).1.depth = c.depth + 1 ∧ (startPre o c tag []).1.infeed = c.infeed := by
  unfold startPre
  simp only [List.map_nil, List.foldl_nil, dictOf]
  split
  · split <;> simp
  · simp

/-- **The title of an Atom entry comes back character for character** (C02): for every handler name that reaches the title handlers
(`title`, `dc:title` under whatever prefix the document binds), every text `t` (however the tokenizer chunks it: C10) and every state
inside an entry that has no title yet, after `<title>t</title>` in an Atom feed the entry's `title` is `repair(strip(t))` — no guess,
no sanitizer, no resolver is consulted — the element stack is as before and the text construct is closed again. -/
theorem atom_entry_title_verbatim (o : Ops) (s : MSt) (tag t : Str) (e0 : Entry) (es : List Entry)
    (ht : isTitle (handlerName s.c tag) = true) (hnc : s.c.incontent = false)
    (hin : s.c.inentry = true) (hen : s.c.entries = e0 :: es) (hfresh : e0.depths.find? (·.1 == S "title") = none)
    (htd : s.c.titleDepth = -1) (hatom : (S "atom").isPrefixOf s.c.version = true) (hde : o.decodeEnt = fun _ x => x) :
    ∃ s' e', mrun o s [.start tag [], .data t, .stop tag] = .ok s' ∧ s'.stack = s.stack ∧ s'.c.entries = e' :: es ∧
      dget e'.d (S "title") = some (.s (o.fix (stripS t))) ∧ s'.c.incontent = false := by
  obtain ⟨f1, f2, f3, f4, f5, f6⟩ := isTitle_facts _ ht
  obtain ⟨_, tu, tp, tk, tc⟩ := title_table_facts
  have hpre := startPre_nil o s.c tag
  have hh : handlerName (startPre o s.c tag []).1 tag = handlerName s.c tag := by
    unfold handlerName; rw [hpre.2.2.1]
  -- the state after the start tag
  let c0 := (startPre o s.c tag []).1
  let c1 := (pushContent c0 (S "title") [] (S "text/plain") (c0.infeed || c0.inentry)).1
  have h1 : mstep o s (.start tag []) = .ok ⟨c1, ⟨S "title", true, []⟩ :: s.stack⟩ := by
    simp only [mstep, startTag, hnc, Bool.false_eq_true, ↓reduceIte, startTag0, hh, hpre.2.2.2.1, isTitle_not_ext _ ht, isTitle_not_lg _ ht]
    unfold dispatchCore
    simp only [f1, f2, f3, f4, f5, f6, ht, Bool.false_eq_true, ↓reduceIte, Bool.or_self, Option.isSome_none]
    have hx : startContent c0 (S "title") [] (S "text/plain") (c0.infeed || c0.inentry) = .ok (c1, some ⟨S "title", true, []⟩) := by
      have he : (c0.infeed || c0.inentry) = true := by simp [c0, hpre.2.1, hin]
      have hx1 : (some (mapContentType (S "text/plain")) == some XHTML) = false := by decide +kernel
      unfold startContent
      simp only [pushContent, sget, List.find?_nil, Option.map_none, Option.getD_none, Option.map_some, c1, he, hx1, Bool.false_eq_true, ↓reduceIte]
    simp only [c0] at hx
    rw [hx]
    rfl
  have h2 : mstep o ⟨c1, ⟨S "title", true, []⟩ :: s.stack⟩ (.data t) = .ok ⟨c1, ⟨S "title", true, [t]⟩ :: s.stack⟩ := by
    simp [mstep, handleData]
  -- facts about c1
  have c1i : c1.incontent = true := rfl
  have c1e : c1.entries = e0 :: es := by simp only [c1, pushContent, c0, hpre.1, hen]
  have c1n : c1.inentry = true := by simp only [c1, pushContent, c0, hpre.2.1, hin]
  have c1v : c1.version = s.c.version := by simp only [c1, pushContent, c0, hpre.2.2.2.2.1]
  have c1t : c1.titleDepth = -1 := by simp only [c1, pushContent, c0, hpre.2.2.2.2.2.1, htd]
  have c1m : c1.nsMap = s.c.nsMap := by simp only [c1, pushContent, c0, hpre.2.2.1]
  have c1b : cpBase64 c1 = false := by
    have hx2 : isBase64 [] (mapContentType (S "text/plain")) = false := by decide +kernel
    simp only [c1, pushContent, cpBase64, sget, List.find?_nil, Option.map_none, Option.getD_none, hx2]
  have c1ty : c1.cp.map (·.type) = some (S "text/plain") := by
    have hx3 : mapContentType (S "text/plain") = S "text/plain" := by decide +kernel
    simp only [c1, pushContent, sget, List.find?_nil, Option.map_none, Option.getD_none, Option.map_some, hx3]
  have hh1 : handlerName c1 tag = handlerName s.c tag := by unfold handlerName; rw [c1m]
  -- what pop() computes
  have hout : contentOutput o c1 (S "title") (stripS t) = (some (S "text/plain"), o.fix (stripS t)) := by
    unfold contentOutput
    simp only [c1b, tu, c1ty, c1v, hatom, hde, Bool.false_eq_true, ↓reduceIte, Bool.false_and, Bool.not_true, Option.getD_some]
    have : htmlTypes.contains (mapContentType (S "text/plain")) = false := by decide +kernel
    simp only [this, Bool.false_and, Bool.false_eq_true, ↓reduceIte]
  have hdepth : (decide ((-1 : Int) < c1.titleDepth) && decide (c1.titleDepth ≤ c1.depth)) = false := by rw [c1t]; simp
  refine ⟨⟨endFinish o (afterTitle (S "title") (popContent o ⟨c1, ⟨S "title", true, [t]⟩ :: s.stack⟩ (S "title"))),
           (popContent o ⟨c1, ⟨S "title", true, [t]⟩ :: s.stack⟩ (S "title")).2.stack⟩,
          { d := fset (fset e0.d (S "title") (.s (o.fix (stripS t)))) (S "title" ++ S "_detail") (detailOf c1.cp (some (S "text/plain")) (o.fix (stripS t))),
            depths := (e0.depths.filter (·.1 != S "title")) ++ [(S "title", c1.depth)] }, ?_, ?_, ?_, ?_, ?_⟩
  · simp only [mrun, h1, h2]
    simp only [mstep, endTag, c1i, ↓reduceIte, hh1, isTitle_not_ext _ ht]
    unfold endContent contentEndKey
    simp only [ht, ↓reduceIte, bne_self_eq_false, Bool.false_eq_true]
  · simp only [popContent, popFull, bne_self_eq_false, Bool.false_eq_true, ↓reduceIte, Bool.not_true, List.flatten_cons, List.flatten_nil,
      List.append_nil, hout, c1n]
    have : ((S "title" == S "category") || (S "title" == S "tags") || (S "title" == S "itunes_keywords")) = false := by decide +kernel
    have hd3 : (S "title" == S "content") = false := by decide +kernel
    simp only [this, Bool.false_eq_true, ↓reduceIte, beq_self_eq_true, Bool.true_and, hdepth, hd3, Bool.and_false]
  · have ha := afterTitle_frame (S "title") (popContent o ⟨c1, ⟨S "title", true, [t]⟩ :: s.stack⟩ (S "title"))
    simp only [endFinish, ha.1]
    simp only [popContent, popFull, bne_self_eq_false, Bool.false_eq_true, ↓reduceIte, Bool.not_true, List.flatten_cons, List.flatten_nil,
      List.append_nil, hout, c1n, c1i, c1e, updHead]
    have : ((S "title" == S "category") || (S "title" == S "tags") || (S "title" == S "itunes_keywords")) = false := by decide +kernel
    have hd2 : ((S "title" == S "description")) = false := by decide +kernel
    have hd3 : (S "title" == S "content") = false := by decide +kernel
    simp only [this, Bool.false_eq_true, ↓reduceIte, beq_self_eq_true, Bool.true_and, hdepth, hd2, hd3, Bool.and_false, writeEntry, hfresh, Option.map_none]
  · simp only [fset]
    have hk2 : (canonKey (S "title" ++ S "_detail") == S "title") = false := by decide +kernel
    rw [dget_dset_other _ _ _ _ hk2]
    have := dget_dset_same e0.d (canonKey (S "title")) (.s (o.fix (stripS t)))
    rw [tc] at this
    rw [tc]
    exact this
  · have ha := afterTitle_frame (S "title") (popContent o ⟨c1, ⟨S "title", true, [t]⟩ :: s.stack⟩ (S "title"))
    simp only [endFinish, ha.2.2.2.2.2.2.2.2.2.1]
    rfl


/-- non-vacuity: `<title>` with padded text in an Atom 1.0 entry (strict back end, destructive stub sanitizer that is never consulted) -/
example :
    (match mrun { base := ⟨fun _ r => r, fun u => u, fun _ r => r⟩, join := fun _ u => u, fix := id, loose := false, sanitize := fun _ _ => S "CLEAN", looksHtml := fun _ => true }
        { c := { entries := [{}], inentry := true, infeed := true, version := S "atom10" } } [.start (S "title") [], .data (S "  a <b> & c "), .stop (S "title")] with
      | .ok s' => (s'.c.entries.head?.bind fun e => dget e.d (S "title")) == some (.s (S "a <b> & c")) && !s'.c.incontent && s'.stack.isEmpty
      | .unmodelled _ => false) = true := by decide +kernel

end FeedVerif.Mixin

namespace FeedVerif.Mixin

/-! ### summary, description and content of an entry (M-mixin stage 3) -/

theorem kind_eqs : (S "description" == S "description") = true ∧ (S "summary" == S "description") = false ∧ (S "summary" == S "abstract") = false ∧
    (S "summary" == S "summary") = true ∧ (S "content" == S "description") = false ∧ (S "content" == S "abstract") = false ∧
    (S "content" == S "summary") = false ∧ (S "content" == S "content") = true ∧
    (S "content_encoded" == S "description") = false ∧ (S "content_encoded" == S "abstract") = false ∧ (S "content_encoded" == S "summary") = false ∧
    (S "content_encoded" == S "content") = false ∧ (S "content_encoded" == S "content_encoded") = true := by decide +kernel

/-- **A description after the content is the summary, not a second content block** (the role of `hasContent`): once a content element
(`<content>`, `<content:encoded>`, `<fullitem>`) has been seen in the entry, `<description>` / `<summary>` open an ordinary `description` /
`summary` construct whatever `summary` the entry already has (e.g. the copy `_end_content` made) — they do not go through `_start_content`. -/
theorem description_after_content_is_summary (s : Core) (a : List (Str × Str)) (h : s.hasContent = true) :
    startExt s (S "description") a = startContentL s (S "description") a (S "text/html") (s.infeed || s.inentry) ∧
    startExt s (S "summary") a = startContentL { s with summaryKey := some (S "summary") } (S "summary") a (S "text/plain") true := by
  obtain ⟨k1, k2, k3, k4, _⟩ := kind_eqs
  unfold startExt
  simp only [h, Bool.not_true, Bool.and_false, Bool.false_eq_true, ↓reduceIte, k1, k2, k3, k4, and_self]

/-- …and every content element raises the flag: after `<content>` / `<content:encoded>` the state has `hasContent` -/
theorem content_sets_hasContent (s : Core) (a : List (Str × Str)) (c' : Core) (es : List Elem) :
    (startExt s (S "content") a = .ok (c', es) → c'.hasContent = true) ∧
    (startExt s (S "content_encoded") a = .ok (c', es) → c'.hasContent = true) := by
  obtain ⟨_, _, _, _, k5, k6, k7, k8, k9, k10, k11, k12, k13⟩ := kind_eqs
  unfold startExt
  simp only [k5, k6, k7, k8, k9, k10, k11, k12, k13, Bool.false_eq_true, ↓reduceIte]
  refine ⟨fun h => ?_, fun h => ?_⟩
  · rw [(startContentElem_ok _ _ _ _ h).1]; rfl
  · rw [(startContentL_ok _ _ _ _ _ _ _ h).1]; rfl

/-- a SECOND description (no content element seen, a summary already stored) becomes a content element: `_summaryKey = "content"` -/
theorem second_description_becomes_content (s : Core) (a : List (Str × Str)) (hs : (dget (contextD s) (S "summary")).isSome = true)
    (h : s.hasContent = false) :
    startExt s (S "description") a = startContentElem { s with summaryKey := some (S "content") } a := by
  obtain ⟨k1, _⟩ := kind_eqs
  unfold startExt
  simp only [h, hs, Bool.not_false, Bool.and_self, ↓reduceIte, k1]

/-- non-vacuity, and the guard of the source fingerprints: an RSS item with `<content:encoded>` BEFORE `<description>` — summary is the
description, content is the one content block; then the usual order; then two descriptions (the second becomes content) -/
example :
    let o : Ops := { base := ⟨fun _ r => r, fun u => u, fun _ r => r⟩, join := fun _ u => u, fix := id, loose := false }
    let start : MSt := { c := { entries := [{}], inentry := true, infeed := true, version := S "rss20" } }
    let sumOf (r : Outcome) : Option V := match r with | .ok s' => s'.c.entries.head?.bind fun e => dget e.d (S "summary") | .unmodelled _ => none
    let nContent (r : Outcome) : Nat := match r with
      | .ok s' => (match s'.c.entries.head?.bind fun e => dget e.d (S "content") with | some (.l items) => items.length | _ => 0)
      | .unmodelled _ => 99
    (sumOf (mrun o start [.start (S "content_encoded") [], .data (S "FULL"), .stop (S "content_encoded"), .start (S "description") [], .data (S "SHORT"), .stop (S "description")]),
     nContent (mrun o start [.start (S "content_encoded") [], .data (S "FULL"), .stop (S "content_encoded"), .start (S "description") [], .data (S "SHORT"), .stop (S "description")]),
     sumOf (mrun o start [.start (S "description") [], .data (S "SHORT"), .stop (S "description"), .start (S "content_encoded") [], .data (S "FULL"), .stop (S "content_encoded")]),
     nContent (mrun o start [.start (S "description") [], .data (S "ONE"), .stop (S "description"), .start (S "description") [], .data (S "TWO"), .stop (S "description")]),
     sumOf (mrun o start [.start (S "summary") [], .data (S "S"), .stop (S "summary"), .start (S "content") [], .data (S "C"), .stop (S "content")]),
     sumOf (mrun o start [.start (S "abstract") [], .data (S "A"), .stop (S "abstract")]))
    = (some (.s (S "SHORT")), 1, some (.s (S "SHORT")), 1, some (.s (S "S")), some (.s (S "A"))) := by decide +kernel

end FeedVerif.Mixin


namespace FeedVerif.Mixin

/-! ### id and link of an entry (M-mixin stage 4) -/

theorem lg_eqs : (S "link" == S "link") = true ∧ (S "guid" == S "link") = false ∧ (S "guid" == S "guid") = true ∧
    canonKey (S "id") = S "id" ∧ canonKey (S "link") = S "link" ∧ canBeRelativeUri.contains (S "id") = true ∧
    (S "id" == S "category" || S "id" == S "tags" || S "id" == S "itunes_keywords") = false ∧
    (S "guidislink" == S "id") = false ∧ (S "link" == S "id") = false ∧ (S "guidislink" == S "link") = false ∧ (S "id" == S "link") = false := by decide +kernel

/-- `_start_guid` / `_start_id`: the flag is the `isPermaLink` attribute (default true), the element pushed is `id` -/
theorem guid_start (o : Ops) (c : Core) (a : List (Str × Str)) :
    startLG o c (S "guid") a = .ok ({ c with guidislink := ((sget a (S "ispermalink")).getD (S "true") == S "true") }, [⟨S "id", true, []⟩]) := by
  obtain ⟨_, k2, k3, _⟩ := lg_eqs
  unfold startLG
  simp only [k2, k3, Bool.false_eq_true, ↓reduceIte]

theorem dsetDefault_other (d : D) (k k' : Str) (v : V) (hne : (k' == k) = false) : dget (dsetDefault d k' v) k = dget d k := by
  unfold dsetDefault
  split
  · rfl
  · exact dget_dset_other d k k' v hne

theorem dsetDefault_absent (d : D) (k : Str) (v : V) (h : dget d k = none) : dsetDefault d k v = dset d k v := by
  unfold dsetDefault; simp [h]

/-- **A guid that is not a permalink is stored verbatim**: with `isPermaLink="false"` (the flag false), for every text, the entry's `id` is
`repair(strip(text))` — `_urljoin` is not applied to it — and the entry's `link` is left exactly as it was. -/
theorem guid_not_permalink_verbatim (o : Ops) (s : MSt) (ps : List Str) (rest : List Elem) (e0 : Entry) (es : List Entry)
    (hst : s.stack = ⟨S "id", true, ps⟩ :: rest) (hin : s.c.inentry = true) (hen : s.c.entries = e0 :: es)
    (hg : s.c.guidislink = false) (hfresh : e0.depths.find? (·.1 == S "id") = none) :
    dget (contextD (endGuidCore o s)) (S "id") = some (.s (o.fix (o.decodeEnt (S "xml") (stripS ps.flatten)))) ∧
    dget (contextD (endGuidCore o s)) (S "link") = dget e0.d (S "link") := by
  obtain ⟨_, _, _, k4, _, _, k7, k8, _, k10, k11⟩ := lg_eqs
  have hpop : pop o s (S "id") = ⟨{ s.c with entries := writeEntry (S "id") (o.fix (o.decodeEnt (S "xml") (stripS ps.flatten))) s.c.depth e0 :: es }, rest⟩ := by
    unfold pop
    simp only [hst, bne_self_eq_false, Bool.false_eq_true, ↓reduceIte, Bool.not_true, hg, Bool.or_false, Bool.and_false, k7, hin, hen, updHead]
  have hw : (writeEntry (S "id") (o.fix (o.decodeEnt (S "xml") (stripS ps.flatten))) s.c.depth e0).d = dset e0.d (S "id") (.s (o.fix (o.decodeEnt (S "xml") (stripS ps.flatten)))) := by
    unfold writeEntry
    simp only [hfresh, Option.map_none, ↓reduceIte, fset, k4]
  unfold endGuidCore
  simp only [hpop, hg, Bool.false_and, Bool.false_eq_true, ↓reduceIte]
  unfold saveDefault contextD
  simp only [hin, ↓reduceIte, updHead, List.head?_cons, Option.map_some, Option.getD_some, hw]
  exact ⟨by rw [dsetDefault_other _ _ _ _ k8]; exact dget_dset_same _ _ _,
         by rw [dsetDefault_other _ _ _ _ k10]; exact dget_dset_other _ _ _ _ k11⟩

/-- the value `pop("id")` computes for a permalink guid: the stripped text joined against the current base (when non-empty), repaired -/
def guidValue (o : Ops) (c : Core) (ps : List Str) : Str :=
  o.fix (o.decodeEnt (S "xml") (if !(stripS ps.flatten).isEmpty then o.join c.base.baseuri.toList (stripS ps.flatten) else stripS ps.flatten))

/-- **A permalink guid is the entry's link when the entry has none** (`_end_guid`): with the flag true (no `isPermaLink` attribute, or
`"true"`), for every text, in an entry that has no `link` yet, both `id` and `link` of the entry are the text resolved against the
current base. -/
theorem guid_permalink_is_link (o : Ops) (s : MSt) (ps : List Str) (rest : List Elem) (e0 : Entry) (es : List Entry)
    (hst : s.stack = ⟨S "id", true, ps⟩ :: rest) (hin : s.c.inentry = true) (hen : s.c.entries = e0 :: es)
    (hg : s.c.guidislink = true) (hfresh : e0.depths.find? (·.1 == S "id") = none) (hnl : dget e0.d (S "link") = none) :
    dget (contextD (endGuidCore o s)) (S "id") = some (.s (guidValue o s.c ps)) ∧
    dget (contextD (endGuidCore o s)) (S "link") = some (.s (guidValue o s.c ps)) := by
  obtain ⟨_, _, _, k4, _, k6, k7, k8, k9, k10, k11⟩ := lg_eqs
  have hv : popValue o s (S "id") = some (guidValue o s.c ps) := by
    unfold popValue guidValue
    simp only [hst, bne_self_eq_false, Bool.false_eq_true, ↓reduceIte, k6, hg, Bool.or_true, Bool.and_true, Bool.true_and]
  have hpop : pop o s (S "id") = ⟨{ s.c with entries := writeEntry (S "id") (guidValue o s.c ps) s.c.depth e0 :: es }, rest⟩ := by
    unfold pop guidValue
    simp only [hst, bne_self_eq_false, Bool.false_eq_true, ↓reduceIte, Bool.not_true, hg, Bool.or_true, Bool.and_true, Bool.true_and, k6, k7, hin, hen, updHead]
  have hw : (writeEntry (S "id") (guidValue o s.c ps) s.c.depth e0).d = dset e0.d (S "id") (.s (guidValue o s.c ps)) := by
    unfold writeEntry
    simp only [hfresh, Option.map_none, ↓reduceIte, fset, k4]
  have hl1 : dget (dsetDefault (dset e0.d (S "id") (.s (guidValue o s.c ps))) (S "guidislink")
      (.b (true && (dget (dset e0.d (S "id") (.s (guidValue o s.c ps))) (S "link")).isNone))) (S "link") = none := by
    rw [dsetDefault_other _ _ _ _ k10, dget_dset_other _ _ _ _ k11]; exact hnl
  unfold endGuidCore
  simp only [hpop, hv, hg, ↓reduceIte]
  unfold saveDefault contextD
  simp only [hin, ↓reduceIte, updHead, List.head?_cons, Option.map_some, Option.getD_some, hw]
  rw [dsetDefault_absent _ _ _ hl1]
  exact ⟨by rw [dget_dset_other _ _ _ _ k9, dsetDefault_other _ _ _ _ k8]; exact dget_dset_same _ _ _, dget_dset_same _ _ _⟩

theorem contextD_putContext (c : Core) (d : D) (e0 : Entry) (es : List Entry) (hin : c.inentry = true) (hen : c.entries = e0 :: es) :
    contextD (putContext c d) = d := by
  unfold putContext contextD
  simp [hin, hen, updHead]

/-- **The link of an entry is the (resolved) href of its alternate HTML link** (`_start_link`): for every attribute dict whose completed
form (defaults for rel / type added) says `rel="alternate"` with an HTML-ish type and carries a reference, in an entry whose `links` is
absent or the parser's own list, the entry's `link` becomes the stored — resolved, see Props/C05 `link_href_is_join` — href, and the
dict is appended to `links`; nothing is pushed. -/
theorem alternate_link_is_entry_link (o : Ops) (c : Core) (a : List (Str × Str)) (h : Str) (e0 : Entry) (es : List Entry)
    (hin : c.inentry = true) (hen : c.entries = e0 :: es)
    (hl : dget e0.d (S "links") = none ∨ ∃ items, dget e0.d (S "links") = some (.l items))
    (halt : isEntryLink (linkAttrs o c a) = true) (hh : sget (linkAttrs o c a) (S "href") = some h) :
    ∃ c', startLG o c (S "link") a = .ok (c', []) ∧ dget (contextD c') (S "link") = some (.s h) ∧
      ∃ items, dget (contextD c') (S "links") = some (.l (items ++ [(linkAttrs o c a).map fun kv => (kv.1, some kv.2)])) := by
  obtain ⟨k1, _, _, _, k5, _⟩ := lg_eqs
  have kl : (S "link" == S "links") = false := by decide +kernel
  have hctx : contextD c = e0.d := by unfold contextD; simp [hin, hen]
  unfold startLG
  simp only [k1, ↓reduceIte]
  unfold startLink
  simp only [hctx, halt, Bool.or_true, hh, ↓reduceIte]
  have hcp : ∀ d, contextD (putContext { c with isentrylink := true } d) = d := fun d => contextD_putContext _ d e0 es hin hen
  rcases hl with hl | ⟨items, hl⟩
  · simp only [appendLink, hl]
    refine ⟨_, rfl, ?_, [], ?_⟩
    · rw [hcp]; unfold fset; rw [k5]; exact dget_dset_same _ _ _
    · rw [hcp]; unfold fset; rw [k5, dget_dset_other _ _ _ _ kl]; simpa using dget_dset_same _ _ _
  · simp only [appendLink, hl]
    refine ⟨_, rfl, ?_, items, ?_⟩
    · rw [hcp]; unfold fset; rw [k5]; exact dget_dset_same _ _ _
    · rw [hcp]; unfold fset; rw [k5, dget_dset_other _ _ _ _ kl]; exact dget_dset_same _ _ _

/-- non-vacuity and the guard of the source fingerprints: an RSS item with a permalink guid and no link; one with a link before the
guid (the link stays, `guidislink` is false); one with `isPermaLink="false"` -/
example :
    let o : Ops := { base := ⟨fun _ r => r, fun u => u, fun b r => b ++ r⟩, join := fun b u => b ++ S "|" ++ u, fix := id, loose := false }
    let start : MSt := { c := { entries := [{}], inentry := true, infeed := true, version := S "rss20", base := ⟨"http://b/", none, ["http://b/"], [none]⟩ } }
    let get (k : String) (r : Outcome) : Option V := match r with | .ok s' => s'.c.entries.head?.bind fun e => dget e.d (S k) | .unmodelled _ => none
    (get "link" (mrun o start [.start (S "guid") [], .data (S " g1 "), .stop (S "guid")]),
     get "guidislink" (mrun o start [.start (S "guid") [], .data (S " g1 "), .stop (S "guid")]),
     get "link" (mrun o start [.start (S "link") [], .data (S "L"), .stop (S "link"), .start (S "guid") [], .data (S "g2"), .stop (S "guid")]),
     get "guidislink" (mrun o start [.start (S "link") [], .data (S "L"), .stop (S "link"), .start (S "guid") [], .data (S "g2"), .stop (S "guid")]),
     get "id" (mrun o start [.start (S "guid") [(S "isPermaLink", S "false")], .data (S "g3"), .stop (S "guid")]),
     get "link" (mrun o start [.start (S "guid") [(S "isPermaLink", S "false")], .data (S "g3"), .stop (S "guid")]))
    = (some (.s (S "http://b/|g1")), some (.b true), some (.s (S "http://b/|L")), some (.b false), some (.s (S "g3")), none) := by decide +kernel

/-! ### tags and enclosures of an entry (M-mixin stage 5) -/

/-- the term of a tag dict -/
def termOf (t : List (Str × Option Str)) : Option Str := (t.find? (·.1 == S "term")).bind (·.2)

theorem termOf_tagItem (a b c : Option Str) : termOf (tagItem a b c) = a := by
  have : (S "term" == S "term") = true := by decide +kernel
  simp [termOf, tagItem, this]

theorem termOf_lset (t : List (Str × Option Str)) (v : Str) : termOf (lset t (S "term") (some v)) = some v := by
  unfold termOf lset
  by_cases h : t.any (·.1 == S "term") = true
  · simp only [h, ↓reduceIte]
    induction t with
    | nil => simp at h
    | cons p rest ih =>
      simp only [List.map_cons, List.find?_cons]
      by_cases hp : (p.1 == S "term") = true
      · simp [hp]
      · have hp' : (p.1 == S "term") = false := by simpa using hp
        simp only [hp', Bool.false_eq_true, ↓reduceIte]
        exact ih (by simpa [hp'] using h)
  · simp only [h, Bool.false_eq_true, ↓reduceIte, List.find?_append]
    have : t.find? (·.1 == S "term") = none := by
      rw [List.find?_eq_none]; intro q hq
      simp only [List.any_eq_true, not_exists, not_and] at h
      exact h q hq
    simp [this]

theorem tags_ne : (S "tags" == S "tags") = true := by decide +kernel

/-- **Every non-empty category text becomes the term of a tag** (`_end_category` + `_add_tag`): for every context dict whose `tags` is absent
or the parser's own list, and every non-empty value, afterwards `tags` is a list that contains a tag whose term is that value — whether it
filled the term-less tag the start handler made from `scheme` / `label`, was already there, or was appended. -/
theorem category_text_is_a_term (d : D) (v : Str) (hv : v.isEmpty = false)
    (hl : dget d (S "tags") = none ∨ ∃ items, dget d (S "tags") = some (.l items)) :
    ∃ items', dget (endCategoryD d (some v)) (S "tags") = some (.l items') ∧ ∃ t ∈ items', termOf t = some v := by
  have hadd : ∀ (d0 : D) (items : List (List (Str × Option Str))), dget d0 (S "tags") = some (.l items) →
      ∃ items', dget (addTag d0 (some v) none none) (S "tags") = some (.l items') ∧ ∃ t ∈ items', termOf t = some v := by
    intro d0 items h0
    unfold addTag
    simp only [h0, falsyO, hv, Bool.false_and, Bool.false_eq_true, ↓reduceIte]
    by_cases hc : items.contains (tagItem (some v) none none) = true
    · simp only [hc, ↓reduceIte]
      exact ⟨items, h0, tagItem (some v) none none, by simpa using hc, termOf_tagItem _ _ _⟩
    · simp only [hc, Bool.false_eq_true, ↓reduceIte]
      exact ⟨_, dget_dset_same _ _ _, tagItem (some v) none none, by simp, termOf_tagItem _ _ _⟩
  unfold endCategoryD
  simp only [hv, Bool.false_eq_true, ↓reduceIte]
  rcases hl with hl | ⟨items, hl⟩
  · simp only [hl]
    exact hadd _ [] (dget_dset_same _ _ _)
  · simp only [hl]
    by_cases hf : (!items.isEmpty && lastTermFalsy items) = true
    · simp only [hf, ↓reduceIte]
      cases hr : items.reverse with
      | nil =>
        have : items = [] := by simpa using hr
        simp [this] at hf
      | cons last before =>
        simp only
        exact ⟨_, dget_dset_same _ _ _, lset last (S "term") (some v), by simp, termOf_lset _ _⟩
    · simp only [hf, Bool.false_eq_true, ↓reduceIte]
      exact hadd d items hl

/-- **An enclosure becomes a link with `rel="enclosure"`** whose href is the picked reference (url, uri or href — `_enforce_href`; NOT
resolved by this handler), appended to `links` of the current context -/
theorem enclosure_is_a_link (c : Core) (a : List (Str × Str)) (e0 : Entry) (es : List Entry)
    (hin : c.inentry = true) (hen : c.entries = e0 :: es)
    (hl : dget e0.d (S "links") = none ∨ ∃ items, dget e0.d (S "links") = some (.l items)) :
    ∃ items, dget (contextD (startEnclosure c a)) (S "links") =
      some (.l (items ++ [(sset (enforceHref a) (S "rel") (S "enclosure")).map fun kv => (kv.1, some kv.2)])) ∧
      sget (sset (enforceHref a) (S "rel") (S "enclosure")) (S "rel") = some (S "enclosure") := by
  have hctx : contextD c = e0.d := by unfold contextD; simp [hin, hen]
  have hcp : ∀ d, contextD (putContext c d) = d := fun d => contextD_putContext _ d e0 es hin hen
  unfold startEnclosure
  simp only [hctx]
  rcases hl with hl | ⟨items, hl⟩
  · simp only [appendLink, hl, hcp]
    exact ⟨[], by simpa using dget_dset_same _ _ _, sget_sset_same _ _ _⟩
  · simp only [appendLink, hl, hcp]
    exact ⟨items, dget_dset_same _ _ _, sget_sset_same _ _ _⟩

/-- non-vacuity and the guard of the source fingerprints: categories with a domain, a duplicate, `dc:subject`, and an enclosure -/
example :
    let o : Ops := { base := ⟨fun _ r => r, fun u => u, fun b r => b ++ r⟩, join := fun b u => b ++ S "|" ++ u, fix := id, loose := false }
    let start : MSt := { c := { entries := [{}], inentry := true, infeed := true, version := S "rss20", base := ⟨"http://b/", none, ["http://b/"], [none]⟩ } }
    let get (k : String) (r : Outcome) : Option V := match r with | .ok s' => s'.c.entries.head?.bind fun e => dget e.d (S k) | .unmodelled _ => none
    (get "tags" (mrun o start [.start (S "category") [(S "domain", S "d")], .data (S " News "), .stop (S "category"),
                               .start (S "category") [], .data (S "News"), .stop (S "category"),
                               .start (S "category") [], .data (S "News"), .stop (S "category"),
                               .start (S "dc:subject") [], .data (S "Tech"), .stop (S "dc:subject")]),
     get "links" (mrun o start [.start (S "enclosure") [(S "url", S "u.mp3"), (S "length", S "1"), (S "type", S "audio/mpeg")], .stop (S "enclosure")]))
    = (some (.l [[(S "term", some (S "News")), (S "scheme", some (S "d")), (S "label", none)],
                 [(S "term", some (S "News")), (S "scheme", none), (S "label", none)],
                 [(S "term", some (S "Tech")), (S "scheme", none), (S "label", none)]]),
       some (.l [[(S "length", some (S "1")), (S "type", some (S "audio/mpeg")), (S "href", some (S "u.mp3")), (S "rel", some (S "enclosure"))]])) := by decide +kernel

/-! ### author of an entry (M-mixin stage 7) -/

theorem author_key : canonKey (S "author") = S "author" := by decide +kernel

/-- **`author` is rebuilt from the structured author as `name (email)`** (`_sync_author_detail`): whenever the last entry of `authors` carries a non-empty name and a
non-empty e-mail address, the author string of that context is exactly `name (email)` — whatever it was before -/
theorem author_string_from_name_and_email (o : Ops) (d : D) (before : List Item) (last : Item) (n e : Str)
    (hl : dget d (S "authors") = some (.l (before ++ [last]))) (hn : iget last (S "name") = some n) (he : iget last (S "email") = some e)
    (hn0 : n.isEmpty = false) (he0 : e.isEmpty = false) :
    dget (syncAuthor o d) (S "author") = some (.s (n ++ S " (" ++ e ++ S ")")) := by
  have hne : last ≠ [] := by intro h; rw [h] at hn; simp [iget] at hn
  have hk : S "author" ++ ['s'] = S "authors" := by decide +kernel
  unfold syncAuthor syncKey
  simp only [hk, listOf, hl, List.reverse_append, List.reverse_cons, List.reverse_nil, List.nil_append, List.cons_append]
  cases last with
  | nil => exact absurd rfl hne
  | cons p rest =>
    simp only [hn, he, truthyO, hn0, he0, Bool.not_false, Bool.and_self, ↓reduceIte, Option.getD_some]
    unfold fset
    rw [author_key]
    exact dget_dset_same _ _ _

/-- …and as the name alone when there is no e-mail address -/
theorem author_string_from_name (o : Ops) (d : D) (before : List Item) (last : Item) (n : Str)
    (hl : dget d (S "authors") = some (.l (before ++ [last]))) (hn : iget last (S "name") = some n) (he : truthyO (iget last (S "email")) = false)
    (hn0 : n.isEmpty = false) :
    dget (syncAuthor o d) (S "author") = some (.s n) := by
  have hne : last ≠ [] := by intro h; rw [h] at hn; simp [iget] at hn
  have hk : S "author" ++ ['s'] = S "authors" := by decide +kernel
  unfold syncAuthor syncKey
  simp only [hk, listOf, hl, List.reverse_append, List.reverse_cons, List.reverse_nil, List.nil_append, List.cons_append]
  cases last with
  | nil => exact absurd rfl hne
  | cons p rest =>
    have hn' : truthyO (some n) = true := by simp [truthyO, hn0]
    simp only [hn, hn', he, Bool.true_and, Bool.false_eq_true, ↓reduceIte, Option.getD_some]
    unfold fset
    rw [author_key]
    exact dget_dset_same _ _ _

/-- non-vacuity and the guard of the source fingerprints: an Atom author with name, e-mail and uri; an RSS author text with an address (taken apart: the same dict is
`author_detail` and the last entry of `authors`); two authors in one entry; a contributor -/
example :
    let o : Ops := { base := ⟨fun _ r => r, fun u => u, fun b r => b ++ r⟩, join := fun b u => b ++ S "|" ++ u, fix := id, loose := false,
                     emailMatch := fun a => if a == S "jane@example.org (Jane Doe)" then some (S "jane@example.org") else none }
    let start : MSt := { c := { entries := [{}], inentry := true, infeed := true, version := S "atom10", base := ⟨"http://b/", none, ["http://b/"], [none]⟩ } }
    let get (k : String) (r : Outcome) : Option V := match r with | .ok s' => s'.c.entries.head?.bind fun e => dget e.d (S k) | .unmodelled _ => none
    let atom := mrun o start [.start (S "author") [], .start (S "name") [], .data (S "Jane"), .stop (S "name"), .start (S "email") [], .data (S "j@x.example"), .stop (S "email"),
                             .start (S "uri") [], .data (S "jane"), .stop (S "uri"), .stop (S "author")]
    let rss := mrun o start [.start (S "author") [], .data (S "jane@example.org (Jane Doe)"), .stop (S "author")]
    let two := mrun o start [.start (S "author") [], .start (S "name") [], .data (S "A"), .stop (S "name"), .stop (S "author"),
                            .start (S "author") [], .start (S "name") [], .data (S "B"), .stop (S "name"), .stop (S "author"),
                            .start (S "contributor") [], .start (S "name") [], .data (S "C"), .stop (S "name"), .stop (S "contributor")]
    ((get "author" atom, get "authors" atom, get "author_detail" atom, get "author" rss, get "author_detail" rss, get "authors" rss, get "author" two, get "authors" two, get "contributors" two) ==
     (some (.s (S "Jane (j@x.example)")),
      some (.l [[(S "name", some (S "Jane")), (S "email", some (S "j@x.example")), (S "href", some (S "http://b/|jane"))]]),
      some (.det [(S "name", some (S "Jane")), (S "email", some (S "j@x.example")), (S "href", some (S "http://b/|jane"))]),
      some (.s (S "jane@example.org (Jane Doe)")), some (.ref 0), some (.l [[(S "name", some (S "Jane Doe")), (S "email", some (S "jane@example.org"))]]),
      some (.s (S "B")), some (.l [[(S "name", some (S "A"))], [(S "name", some (S "B"))]]), some (.l [[(S "name", some (S "C"))]]))) = true := by decide +kernel

end FeedVerif.Mixin
