/-
C05 — relative URIs resolve against the innermost base; xml:base / xml:lang scope is lexical.
Model: FeedVerif/Model/Base.lean.
-/
import FeedVerif.Model.Base
import FeedVerif.Model.Mixin
import FeedVerif.Props.C19

namespace FeedVerif.Base

/-- invariant inside the root element of a document with a non-empty base: both stacks
non-empty, every base entry non-empty, current base / language are the stack tops -/
def Inv (s : St) : Prop :=
  (∃ t rest, s.basestack = t :: rest ∧ s.baseuri = t) ∧ (∀ x ∈ s.basestack, x ≠ "") ∧
  (∃ l rest, s.langstack = l :: rest ∧ s.lang = l)

theorem run_append (o : Ops) (s : St) (a b : List Ev) : run o s (a ++ b) = run o (run o s a) b := by
  simp [run, List.foldl_append]

theorem newBase_ne (o : Ops) (cur : String) (xb : Option String) (h : cur ≠ "") :
    newBase o cur xb ≠ "" := by
  have hor : ∀ a, pyOr a cur ≠ "" := by
    intro a; unfold pyOr; split
    · assumption
    · exact h
  unfold newBase
  simp only [ne_eq, h, not_false_eq_true, ↓reduceIte]
  exact hor _

theorem start_inv (o : Ops) (s : St) (xb xl) (h : Inv s) : Inv (step o s (.start xb xl)) := by
  obtain ⟨⟨t, rest, hs, hb⟩, hne, _⟩ := h
  have hbne : s.baseuri ≠ "" := by rw [hb]; exact hne t (by simp [hs])
  refine ⟨⟨_, _, rfl, rfl⟩, ?_, ⟨_, _, rfl, rfl⟩⟩
  intro x hx
  simp only [step, List.mem_cons] at hx
  rcases hx with hx | hx
  · subst hx; exact newBase_ne o _ xb hbne
  · exact hne x hx

/-- an end tag undoes exactly what the matching start tag did -/
theorem pop_undoes_push (o : Ops) (s : St) (xb xl) (h : Inv s) :
    step o (step o s (.start xb xl)) .stop = s := by
  obtain ⟨⟨t, r, hst, hbt⟩, hne, ⟨l, lr, hls, hl⟩⟩ := h
  have ht : t ≠ "" := hne t (by simp [hst])
  cases s with
  | mk b lg bs ls =>
    simp only at hst hbt hls hl
    subst hst; subst hbt; subst hls; subst hl
    simp [step, ht]

/-- **Lexical scoping.** Every well-nested block of start/end events — any depth, any xml:base and
xml:lang values, safe or not — leaves base URI, language and both stacks exactly as it found
them: following siblings and later entries see the enclosing values again. -/
theorem balanced_restores (o : Ops) (evs : List Ev) (hb : Balanced evs) :
    ∀ s, Inv s → run o s evs = s := by
  induction hb with
  | nil => intro s _; rfl
  | wrap xb xl inner rest _ _ ih1 ih2 =>
    intro s hs
    have h1 := start_inv o s xb xl hs
    have e : run o s (Ev.start xb xl :: inner ++ Ev.stop :: rest)
        = run o (step o (run o (step o s (.start xb xl)) inner) .stop) rest := by
      simp [run, List.foldl_append]
    rw [e, ih1 _ h1, pop_undoes_push o s xb xl hs]
    exact ih2 s hs

/-- the invariant holds from the root element on whenever the document base is non-empty
(`parse()` constructs the parser with `baseuri`, empty stacks) -/
theorem inv_of_absolute_root (o : Ops) (docbase : String) (doclang : Option String)
    (h : docbase ≠ "") (xb xl) :
    Inv (step o ⟨docbase, doclang, [], []⟩ (.start xb xl)) := by
  refine ⟨⟨_, _, rfl, rfl⟩, ?_, ⟨_, _, rfl, rfl⟩⟩
  intro x hx
  simp only [step, List.mem_cons, List.not_mem_nil, or_false] at hx
  subst hx; exact newBase_ne o _ xb h

/-- siblings: after any balanced block the next element computes its base and language from the
same enclosing values as the block's first element did -/
theorem sibling_sees_enclosing (o : Ops) (s : St) (hs : Inv s) (blk : List Ev) (hb : Balanced blk) (xb xl) :
    step o (run o s blk) (.start xb xl) = step o s (.start xb xl) := by
  rw [balanced_restores o blk hb s hs]

/-- **Innermost base wins / unsafe values are ignored**: the base in effect inside an element is
the safe join of its xml:base onto the enclosing base, and the enclosing base itself when the
element has no xml:base or the safe join rejects it (non-allow-listed scheme). -/
theorem effective_base (o : Ops) (cur : String) (hc : cur ≠ "") (xb : Option String) :
    newBase o cur xb =
      match xb with
      | some b => if b ≠ "" then (if o.safe2 cur b ≠ "" then o.safe2 cur b else cur)
                  else (if o.safe2 cur cur ≠ "" then o.safe2 cur cur else cur)
      | none => if o.safe2 cur cur ≠ "" then o.safe2 cur cur else cur := by
  unfold newBase pyOr
  cases xb with
  | none => simp [hc]
  | some b => by_cases hb : b = "" <;> simp [hc, hb]

theorem unsafe_xmlbase_ignored (o : Ops) (cur b : String) (hc : cur ≠ "") (hb : b ≠ "")
    (hu : o.safe2 cur b = "") : newBase o cur (some b) = cur := by
  rw [effective_base o cur hc]; simp [hb, hu]

theorem no_xmlbase_keeps_base (o : Ops) (cur : String) (hc : cur ≠ "")
    (hj : o.safe2 cur cur = cur ∨ o.safe2 cur cur = "") : newBase o cur none = cur := by
  rw [effective_base o cur hc]
  rcases hj with h | h <;> simp [h]

/-- language: innermost xml:lang wins, `xml:lang=""` resets to `None`, absence inherits -/
theorem effective_lang (cur : Option String) :
    newLang cur none = cur ∧ newLang cur (some "") = none ∧
    ∀ l, l ≠ "" → newLang cur (some l) = some l := by
  refine ⟨rfl, rfl, ?_⟩
  intro l hl
  unfold newLang
  split
  · next h => simp at h; exact absurd h hl
  · next h => simp at h; rw [h]
  · next h => simp at h

/-- with an EMPTY document base the stack discipline does not restore the base (the pop only
re-installs non-empty stack entries): the property's hypothesis "absolute base" is needed. -/
theorem empty_docbase_leak_counterexample :
    let o : Ops := { safe2 := fun _ r => r, safe1 := fun u => u, join := fun _ r => r }
    run o ⟨"", none, [""], [none]⟩ [.start (some "http://e1/") none, .stop] ≠ ⟨"", none, [""], [none]⟩ := by
  decide

/-! non-vacuity -/
example : Inv ⟨"http://base/", some "en", ["http://base/"], [some "en"]⟩ := by
  refine ⟨⟨_, _, rfl, rfl⟩, ?_, ⟨_, _, rfl, rfl⟩⟩
  intro x hx; simp at hx; subst hx; decide

example : Balanced [.start (some "a/") none, .start none (some "fr"), .stop, .stop, .start none none, .stop] :=
  Balanced.wrap (some "a/") none [.start none (some "fr"), .stop] [.start none none, .stop]
    (Balanced.wrap none (some "fr") [] [] Balanced.nil Balanced.nil)
    (Balanced.wrap none none [] [] Balanced.nil Balanced.nil)


/-! ### the base half of the state is a sub-machine of its own (language plays no part in it) -/

/-- base URI and base stack -/
def bpair (s : St) : String × List String := (s.baseuri, s.basestack)

theorem step_bpair (o : Ops) (s t : St) (e : Ev) (h : bpair s = bpair t) : bpair (step o s e) = bpair (step o t e) := by
  have h1 : s.baseuri = t.baseuri := congrArg Prod.fst h
  have h2 : s.basestack = t.basestack := congrArg Prod.snd h
  cases e with
  | start xb xl => simp only [step, bpair, h1, h2]
  | stop =>
    simp only [step, bpair, h1, h2]

theorem run_bpair (o : Ops) (evs : List Ev) : ∀ s t : St, bpair s = bpair t → bpair (run o s evs) = bpair (run o t evs) := by
  induction evs with
  | nil => intro s t h; exact h
  | cons e rest ih =>
    intro s t h
    simp only [run, List.foldl_cons]
    exact ih _ _ (step_bpair o s t e h)

/-- the base half of `Inv` -/
def BInv (s : St) : Prop := (∃ t rest, s.basestack = t :: rest ∧ s.baseuri = t) ∧ ∀ x ∈ s.basestack, x ≠ ""

/-- **Lexical scoping of the base, whatever the language stack looks like**: every balanced block restores base URI and base stack -/
theorem balanced_restores_base (o : Ops) (evs : List Ev) (hb : Balanced evs) (s : St) (hs : BInv s) :
    bpair (run o s evs) = bpair s := by
  have hinv : Inv { s with lang := none, langstack := [none] } := ⟨hs.1, hs.2, ⟨none, [], rfl, rfl⟩⟩
  have h1 := balanced_restores o evs hb _ hinv
  have h2 := run_bpair o evs s { s with lang := none, langstack := [none] } rfl
  rw [h2, h1]
  rfl

end FeedVerif.Base


namespace FeedVerif.Mixin

/-! ### element-level URIs of link elements (M-mixin stage 4): resolved against the base in effect INSIDE the element

`_start_link` runs after `unknown_starttag` has applied the element's own `xml:base` (the model's `startPre`), and resolves the href
with `resolve_uri` = `_urljoin(self.baseuri or "", ·)` (the parameter `o.join`).  The two theorems below say: (1) the base the handler
sees is exactly M-base's state after this start tag — so everything Props/C05 proves about the effective base (`effective_base`,
`balanced_restores`, `sibling_sees_enclosing`, `unsafe_xmlbase_ignored`) applies to it; (2) whatever of url / uri / href the element
carries, the stored href is the join of THAT value against THAT base — never the raw value, never another base. -/

/-- the raw reference `_enforce_href` picks: the first PRESENT of url, uri, href -/
def rawHref (a : List (Str × Str)) : Option Str :=
  (sget a (S "url")).orElse fun _ => (sget a (S "uri")).orElse fun _ => sget a (S "href")

theorem href_key_ne : (S "href" == S "url") = false ∧ (S "href" == S "uri") = false ∧ (S "rel" == S "href") = false ∧ (S "type" == S "href") = false ∧
    (S "rel" == S "url") = false ∧ (S "type" == S "url") = false ∧ (S "rel" == S "uri") = false ∧ (S "type" == S "uri") = false := by decide +kernel

/-- after `_enforce_href` the `href` entry is the picked reference when that is non-empty, else whatever `href` was -/
theorem enforceHref_href (a : List (Str × Str)) :
    sget (enforceHref a) (S "href") = match rawHref a with
      | some h => if h.isEmpty then sget a (S "href") else some h
      | none => sget a (S "href") := by
  unfold enforceHref rawHref
  cases h : (sget a (S "url")).orElse fun _ => (sget a (S "uri")).orElse fun _ => sget a (S "href") with
  | none => rfl
  | some v =>
    simp only
    split
    · rfl
    · exact sget_sset_same _ _ _

/-- (1) the state the start handler runs in has M-base's state after this element's start tag -/
theorem handler_sees_inner_base (o : Ops) (c : Core) (tag : Str) (attrs : List (Str × Str)) :
    (startPre o c tag attrs).1.base =
      Base.step o.base c.base (.start
        (((sget (dictOf (attrs.map (normAttr o.loose))) (S "xml:base")).orElse fun _ => sget (dictOf (attrs.map (normAttr o.loose))) (S "base")).map toBaseStr)
        (((sget (dictOf (attrs.map (normAttr o.loose))) (S "xml:lang")).orElse fun _ => sget (dictOf (attrs.map (normAttr o.loose))) (S "lang")).map toBaseStr)) := by
  have hf : ∀ (l : List (Str × Str)) (c0 : Core), (l.foldl (fun st kv =>
      if (S "xmlns:").isPrefixOf kv.1 then trackNamespace st (some (kv.1.drop 6)) kv.2
      else if kv.1 == S "xmlns" then trackNamespace st none kv.2 else st) c0).base = c0.base := by
    intro l
    induction l with
    | nil => intro c0; rfl
    | cons x rest ih =>
      intro c0
      simp only [List.foldl_cons]
      have ht : ∀ p u, (trackNamespace c0 p u).base = c0.base := by
        intro p u; unfold trackNamespace; simp only; split <;> rfl
      split
      · rw [ih, ht]
      · split
        · rw [ih, ht]
        · rw [ih]
  unfold startPre
  simp only
  split
  · split <;> rw [hf]
  · rw [hf]

/-- (2) **the href a link element stores is the picked reference joined against the current base** — for every attribute dict, every
state, every `_urljoin` -/
theorem link_href_resolved (o : Ops) (c : Core) (a : List (Str × Str)) :
    sget (linkAttrs o c a) (S "href") =
      (sget (enforceHref (sdefault (sdefault a (S "rel") (S "alternate")) (S "type")
        (if sget (sdefault a (S "rel") (S "alternate")) (S "rel") == some (S "self") then S "application/atom+xml" else S "text/html"))) (S "href")).map
        (o.join c.base.baseuri.toList) := by
  unfold linkAttrs
  simp only
  split
  · rename_i h hh
    rw [hh]
    exact sget_sset_same _ _ _
  · rename_i hh
    rw [hh]
    rfl

/-- the defaults `_start_link` adds (rel, type) never touch url / uri / href -/
theorem sdefault_other (a : List (Str × Str)) (k v k' : Str) (hne : (k == k') = false) : sget (sdefault a k v) k' = sget a k' := by
  unfold sdefault
  split
  · rfl
  · unfold sget
    rw [List.find?_append]
    cases hf : a.find? (·.1 == k') with
    | some x => simp
    | none => simp [hne]

/-- …so, put together: with a non-empty reference in url, uri or href (in that order of precedence), the stored href is
`_urljoin(base, reference)` -/
theorem link_href_is_join (o : Ops) (c : Core) (a : List (Str × Str)) (h : Str) (hr : rawHref a = some h) (hne : h.isEmpty = false) :
    sget (linkAttrs o c a) (S "href") = some (o.join c.base.baseuri.toList h) := by
  obtain ⟨_, _, k3, k4, k5, k6, k7, k8⟩ := href_key_ne
  rw [link_href_resolved, enforceHref_href]
  have hraw : rawHref (sdefault (sdefault a (S "rel") (S "alternate")) (S "type")
      (if sget (sdefault a (S "rel") (S "alternate")) (S "rel") == some (S "self") then S "application/atom+xml" else S "text/html")) = rawHref a := by
    unfold rawHref
    simp only [sdefault_other _ _ _ _ k3, sdefault_other _ _ _ _ k4, sdefault_other _ _ _ _ k5, sdefault_other _ _ _ _ k6,
      sdefault_other _ _ _ _ k7, sdefault_other _ _ _ _ k8]
  rw [hraw, hr]
  simp [hne]

/-- non-vacuity and the guard of the source fingerprints (an empty `stage4L` makes `<link>` unmodelled): an Atom entry whose link carries
its own `xml:base` — the href is joined against the INNER base, the sibling after it sees the outer base again -/
example :
    let o : Ops := { base := ⟨fun _ r => r, fun u => u, fun b r => b ++ r⟩, join := fun b u => b ++ S "|" ++ u, fix := id, loose := false }
    let start : MSt := { c := { entries := [{}], inentry := true, infeed := true, version := S "atom10", base := ⟨"http://outer/", none, ["http://outer/"], [none]⟩ } }
    (match mrun o start [.start (S "link") [(S "xml:base", S "http://inner/"), (S "href", S "a.html")], .stop (S "link"),
                         .start (S "link") [(S "rel", S "self"), (S "href", S "b.xml")], .stop (S "link")] with
     | .ok s' => (s'.c.entries.head?.bind fun e => dget e.d (S "link"), s'.c.entries.head?.bind fun e => dget e.d (S "links"))
     | .unmodelled _ => (none, none)) =
    (some (.s (S "http://inner/|a.html")),
     some (.l [[(S "xml:base", some (S "http://inner/")), (S "href", some (S "http://inner/|a.html")), (S "rel", some (S "alternate")), (S "type", some (S "text/html"))],
               [(S "rel", some (S "self")), (S "href", some (S "http://outer/|b.xml")), (S "type", some (S "application/atom+xml"))]])) := by decide +kernel


/-! ### the base component of the handler machine IS M-base run on the tag events (a sub-machine, like the version one)

Together with `balanced_restores_base` this carries C05's headline to the handlers: whatever children an element has (balanced), its END
handler — where `pop()` resolves the element-level URI and the relative URIs of embedded markup — runs with the base the START handler
saw, i.e. the element's own effective base. -/

/-- the M-base events of a handler-machine event -/
def toBaseEv (loose : Bool) : MEv → List Base.Ev
  | .start _ attrs =>
    [.start (((sget (dictOf (attrs.map (normAttr loose))) (S "xml:base")).orElse fun _ => sget (dictOf (attrs.map (normAttr loose))) (S "base")).map toBaseStr)
            (((sget (dictOf (attrs.map (normAttr loose))) (S "xml:lang")).orElse fun _ => sget (dictOf (attrs.map (normAttr loose))) (S "lang")).map toBaseStr)]
  | .stop _ => [.stop]
  | _ => []

theorem pushContent_bpair (c : Core) (tag : Str) (a : List (Str × Str)) (d : Str) (e : Bool) :
    Base.bpair (pushContent c tag a d e).1.base = Base.bpair c.base := rfl

theorem setContext_base (c : Core) (k : Str) (v : V) : (setContext c k v).base = c.base := by
  unfold setContext; split <;> rfl

theorem track_base (c : Core) (p : Option Str) (u : Str) : (trackNamespace c p u).base = c.base := by
  unfold trackNamespace; simp only; split <;> rfl

theorem popFull_base (o : Ops) (s : MSt) (el : Str) : (popFull o s el).2.c.base = s.c.base := by
  unfold popFull
  split
  · rfl
  · split
    · rfl
    · simp only
      split
      · rfl
      · split
        · rfl
        · split
          · rfl
          · split
            · rfl
            · split
              · rfl
              · split <;> rfl

theorem popContent_base (o : Ops) (s : MSt) (k : Str) : (popContent o s k).2.c.base = s.c.base := popFull_base o s k

theorem startContent_bpair (s : Core) (k : Str) (a : List (Str × Str)) (ty : Str) (e : Bool) (c' : Core) (pe : Option Elem)
    (h : startContent s k a ty e = .ok (c', pe)) : Base.bpair c'.base = Base.bpair s.base := by
  rw [(startContent_ok _ _ _ _ _ _ _ h).1]; rfl

theorem dispatch_bpair (c : Core) (hn : Str) (a : List (Str × Str)) (c' : Core) (pe : Option Elem)
    (h : dispatchCore c hn a = .ok (c', pe)) : Base.bpair c'.base = Base.bpair c.base := by
  unfold dispatchCore at h
  split at h
  · injection h with h
    split at h <;> (injection h with h1 _; rw [← h1])
  · split at h
    · split at h
      · cases h
      · split at h
        · injection h with h; injection h with h1 _; rw [← h1]
        · split at h
          · injection h with h
            split at h <;> (injection h with h1 _; rw [← h1])
          · simp only at h
            injection h with h; injection h with h1 _
            rw [← h1]
            split
            · split
              · rfl
              · rw [setContext_base]
            · rfl
    · split at h
      · injection h with h; injection h with h1 _; rw [← h1]
      · split at h
        · exact startContent_bpair _ _ _ _ _ _ _ h
        · split at h
          · exact startContent_bpair _ _ _ _ _ _ _ h
          · split at h
            · cases h
            · simp only at h
              split at h
              · injection h with h; injection h with h1 _; rw [← h1]
              · injection h with h; injection h with h1 _; rw [← h1, setContext_base]

theorem startExt_bpair (s : Core) (kind : Str) (a : List (Str × Str)) (c' : Core) (es : List Elem)
    (h : startExt s kind a = .ok (c', es)) : Base.bpair c'.base = Base.bpair s.base := by
  unfold startExt at h
  simp only at h
  have L : ∀ (s0 : Core) k ty e, startContentL s0 k a ty e = .ok (c', es) → s0.base = s.base → Base.bpair c'.base = Base.bpair s.base := by
    intro s0 k ty e hh hb
    rw [(startContentL_ok _ _ _ _ _ _ _ hh).1, pushContent_bpair, hb]
  have E : ∀ (s0 : Core), startContentElem s0 a = .ok (c', es) → s0.base = s.base → Base.bpair c'.base = Base.bpair s.base := by
    intro s0 hh hb
    rw [(startContentElem_ok _ _ _ _ hh).1]
    unfold contentElemCore
    simp only
    rw [← hb]
    rfl
  split at h
  · split at h
    · exact E _ h rfl
    · exact L _ _ _ _ h rfl
  · split at h
    · exact L _ _ _ _ h rfl
    · split at h
      · split at h
        · exact E _ h rfl
        · exact L _ _ _ _ h rfl
      · split at h
        · exact E _ h rfl
        · split at h
          · exact L _ _ _ _ h rfl
          · cases h

theorem endFinish_base (o : Ops) (c : Core) : (endFinish o c).base = Base.step o.base c.base .stop := rfl

/-- one step of the handler machine moves the base component exactly as M-base moves on the step's tag events -/
theorem step_base (o : Ops) (s s' : MSt) (e : MEv) (h : mstep o s e = .ok s') :
    Base.bpair s'.c.base = Base.bpair (Base.run o.base s.c.base (toBaseEv o.loose e)) := by
  cases e with
  | start tag attrs =>
    simp only [mstep, startTag] at h
    split at h
    · cases h
    simp only [startTag0] at h
    have hb := handler_sees_inner_base o s.c tag attrs
    have goal : ∀ c' : Core, Base.bpair c'.base = Base.bpair (startPre o s.c tag attrs).1.base →
        Base.bpair c'.base = Base.bpair (Base.run o.base s.c.base (toBaseEv o.loose (.start tag attrs))) := by
      intro c' hc
      rw [hc, hb]; rfl
    cases hx : extKind (handlerName (startPre o s.c tag attrs).1 tag) with
    | some kind =>
      rw [hx] at h
      simp only at h
      cases hr : startExt (startPre o s.c tag attrs).1 kind (startPre o s.c tag attrs).2 with
      | error w => rw [hr] at h; simp [applyExt] at h
      | ok r =>
        obtain ⟨c', es⟩ := r
        rw [hr] at h
        simp only [applyExt, Outcome.ok.injEq] at h
        rw [← h]
        exact goal c' (startExt_bpair _ _ _ _ _ hr)
    | none =>
    rw [hx] at h
    simp only at h
    cases hl : lgKind (handlerName (startPre o s.c tag attrs).1 tag) with
    | some kind =>
      rw [hl] at h
      simp only at h
      cases hr : startLG o (startPre o s.c tag attrs).1 kind (startPre o s.c tag attrs).2 with
      | error w => rw [hr] at h; simp [applyExt] at h
      | ok r =>
        obtain ⟨c', es⟩ := r
        rw [hr] at h
        simp only [applyExt, Outcome.ok.injEq] at h
        rw [← h]
        exact goal c' (by rw [(startLG_frame4 _ _ _ _ _ _ hr).2.2.2.2.2.2.1])
    | none =>
    rw [hl] at h
    simp only at h
    cases hd : dispatchCore (startPre o s.c tag attrs).1 (handlerName (startPre o s.c tag attrs).1 tag) (startPre o s.c tag attrs).2 with
    | error w => rw [hd] at h; simp [applyDispatch] at h
    | ok r =>
      obtain ⟨c', pe⟩ := r
      rw [hd] at h
      have hdb := dispatch_bpair _ _ _ _ _ hd
      cases pe with
      | none => simp only [applyDispatch, Outcome.ok.injEq] at h; rw [← h]; exact goal c' hdb
      | some el => simp only [applyDispatch, Outcome.ok.injEq] at h; rw [← h]; exact goal c' hdb
  | stop tag =>
    have fin : ∀ (c1 : Core) (st : List Elem), c1.base = s.c.base →
        Base.bpair (⟨endFinish o c1, st⟩ : MSt).c.base = Base.bpair (Base.run o.base s.c.base (toBaseEv o.loose (.stop tag))) := by
      intro c1 st hc
      simp only [endFinish_base, hc]; rfl
    simp only [mstep, endTag] at h
    split at h
    · split at h
      · rename_i kind _
        rw [endExt_ok o s s' kind h]
        apply fin
        have hf : (endExtCore o s kind).base = (popContent o s (endPlan s.c kind).1).2.c.base := by
          unfold endExtCore endExtSaved
          split <;> (split <;> first | rfl | exact (saveDefault_frame _ _ _).2.2.2.2.2.2.1)
        rw [hf, popContent_base]
      · obtain ⟨k, top, rest, _, _, _, hs'⟩ := endContent_ok o s s' _ h
        rw [hs']
        apply fin
        rw [(afterTitle_frame k (popContent o s k)).2.2.2.2.2.2.2.2.1, popContent_base]
    split at h
    · cases h
    simp only [endTag0] at h
    split at h
    · injection h with h; rw [← h]; exact fin _ _ rfl
    · split at h
      · injection h with h; rw [← h]; exact fin _ _ (pop_frame4 o s _).2.2.2.2.2.2.1
      · split at h
        · obtain ⟨c1, st, hf, hs', _⟩ := endLG_ok o s s' _ h
          rw [hs']; exact fin _ _ hf.2.2.2.2.2.2.1
        · split at h
          · injection h with h; rw [← h]
            exact fin _ _ (by rw [setContext_base]; exact (pop_frame4 o s _).2.2.2.2.2.2.1)
          · split at h
            · cases h
            · injection h with h; rw [← h]; exact fin _ _ (pop_frame4 o s _).2.2.2.2.2.2.1
  | data t =>
    simp only [mstep] at h
    injection h with h
    rw [← h]
    unfold handleData
    split <;> rfl
  | ns p u =>
    simp only [mstep] at h
    injection h with h
    rw [← h]
    simp only [track_base]; rfl
  | cref r =>
    simp only [mstep] at h
    split at h
    · injection h with h
      rw [← h]
      unfold handleData
      split <;> rfl
    · cases h
  | eref r =>
    simp only [mstep] at h
    injection h with h
    rw [← h]
    unfold handleData
    split <;> rfl

/-- **The base sub-machine**: for every event sequence in the model's domain the base URI and base stack the machine ends with are what
M-base computes from the tag events alone — no handler, no text, no option has any influence on them. -/
theorem base_submachine (o : Ops) (evs : List MEv) : ∀ s s' : MSt, mrun o s evs = .ok s' →
    Base.bpair s'.c.base = Base.bpair (Base.run o.base s.c.base (evs.flatMap (toBaseEv o.loose))) := by
  induction evs with
  | nil => intro s s' h; simp only [mrun] at h; injection h with h; rw [← h]; rfl
  | cons e rest ih =>
    intro s s' h
    simp only [mrun] at h
    split at h
    · rename_i s1 hs1
      have h1 := step_base o s s1 e hs1
      have h2 := ih s1 s' h
      rw [h2, List.flatMap_cons, Base.run_append]
      exact Base.run_bpair o.base _ _ _ h1
    · cases h

/-- **An element's end handler runs with the element's own base**: after the start tag (state `s1`) and ANY children whose tags are
balanced — whatever their `xml:base` values, handlers and text — the base URI is again the one the start handler saw; so the
element-level URI and the embedded markup that `pop()` resolves at the end tag are resolved against the element's own effective base. -/
theorem end_handler_sees_own_base (o : Ops) (s1 s2 : MSt) (children : List MEv)
    (hrun : mrun o s1 children = .ok s2) (hb : Base.Balanced (children.flatMap (toBaseEv o.loose))) (hinv : Base.BInv s1.c.base) :
    s2.c.base.baseuri = s1.c.base.baseuri := by
  have h1 := base_submachine o children s1 s2 hrun
  rw [Base.balanced_restores_base o.base _ hb _ hinv] at h1
  exact congrArg Prod.fst h1

/-- non-vacuity of `end_handler_sees_own_base`: a state whose base half satisfies `BInv`, children with their own `xml:base` whose tag events are balanced, and
a run inside the model's domain -/
example :
    let o : Ops := { base := ⟨fun _ r => r, fun u => u, fun b r => b ++ r⟩, join := fun b u => b ++ S "|" ++ u, fix := id, loose := false }
    let s1 : MSt := { c := { entries := [{}], inentry := true, infeed := true, base := ⟨"http://outer/", none, ["http://outer/"], [none]⟩ } }
    let children : List MEv := [.start (S "x:a") [(S "xml:base", S "http://inner/")], .data (S "t"), .start (S "x:b") [], .stop (S "x:b"), .stop (S "x:a")]
    (match mrun o s1 children with | .ok s2 => s2.c.base.baseuri == "http://outer/" | .unmodelled _ => false) = true ∧
    Base.Balanced (children.flatMap (toBaseEv o.loose)) ∧ Base.BInv s1.c.base := by
  refine ⟨by decide +kernel, ?_, ⟨⟨_, _, rfl, rfl⟩, by intro x hx; simp at hx; subst hx; decide⟩⟩
  exact Base.Balanced.wrap _ _ [.start _ _, .stop] [] (Base.Balanced.wrap _ _ [] [] Base.Balanced.nil Base.Balanced.nil) Base.Balanced.nil

end FeedVerif.Mixin
