/-
C05 — relative URIs resolve against the innermost base; xml:base / xml:lang scope is lexical.
Model: FeedVerif/Model/Base.lean.
-/
import FeedVerif.Model.Base

namespace FeedVerif.Base

/-- invariant inside the root element of a document with a non-empty base: both stacks
non-empty, every base entry non-empty, current base / language are the stack tops -/
def Inv (s : St) : Prop :=
  (∃ t rest, s.basestack = t :: rest ∧ s.baseuri = t) ∧ (∀ x ∈ s.basestack, x ≠ "") ∧
  (∃ l rest, s.langstack = l :: rest ∧ s.lang = l)

theorem run_append (o : Ops) (s : St) (a b : List Ev) : run o s (a ++ b) = run o (run o s a) b := by
  simp [run, List.foldl_append]

theorem newBase_ne (o : Ops) (cur : String) (xb : Option String) (h : cur ≠ "") :
    newBase o cur xb ≠ "" := by
  have hor : ∀ a, pyOr a cur ≠ "" := by
    intro a; unfold pyOr; split
    · assumption
    · exact h
  unfold newBase
  simp only [ne_eq, h, not_false_eq_true, ↓reduceIte]
  exact hor _

theorem start_inv (o : Ops) (s : St) (xb xl) (h : Inv s) : Inv (step o s (.start xb xl)) := by
  obtain ⟨⟨t, rest, hs, hb⟩, hne, _⟩ := h
  have hbne : s.baseuri ≠ "" := by rw [hb]; exact hne t (by simp [hs])
  refine ⟨⟨_, _, rfl, rfl⟩, ?_, ⟨_, _, rfl, rfl⟩⟩
  intro x hx
  simp only [step, List.mem_cons] at hx
  rcases hx with hx | hx
  · subst hx; exact newBase_ne o _ xb hbne
  · exact hne x hx

/-- an end tag undoes exactly what the matching start tag did -/
theorem pop_undoes_push (o : Ops) (s : St) (xb xl) (h : Inv s) :
    step o (step o s (.start xb xl)) .stop = s := by
  obtain ⟨⟨t, r, hst, hbt⟩, hne, ⟨l, lr, hls, hl⟩⟩ := h
  have ht : t ≠ "" := hne t (by simp [hst])
  cases s with
  | mk b lg bs ls =>
    simp only at hst hbt hls hl
    subst hst; subst hbt; subst hls; subst hl
    simp [step, ht]

/-- **Lexical scoping.** Every well-nested block of start/end events — any depth, any xml:base and
xml:lang values, safe or not — leaves base URI, language and both stacks exactly as it found
them: following siblings and later entries see the enclosing values again. -/
theorem balanced_restores (o : Ops) (evs : List Ev) (hb : Balanced evs) :
    ∀ s, Inv s → run o s evs = s := by
  induction hb with
  | nil => intro s _; rfl
  | wrap xb xl inner rest _ _ ih1 ih2 =>
    intro s hs
    have h1 := start_inv o s xb xl hs
    have e : run o s (Ev.start xb xl :: inner ++ Ev.stop :: rest)
        = run o (step o (run o (step o s (.start xb xl)) inner) .stop) rest := by
      simp [run, List.foldl_append]
    rw [e, ih1 _ h1, pop_undoes_push o s xb xl hs]
    exact ih2 s hs

/-- the invariant holds from the root element on whenever the document base is non-empty
(`parse()` constructs the parser with `baseuri`, empty stacks) -/
theorem inv_of_absolute_root (o : Ops) (docbase : String) (doclang : Option String)
    (h : docbase ≠ "") (xb xl) :
    Inv (step o ⟨docbase, doclang, [], []⟩ (.start xb xl)) := by
  refine ⟨⟨_, _, rfl, rfl⟩, ?_, ⟨_, _, rfl, rfl⟩⟩
  intro x hx
  simp only [step, List.mem_cons, List.not_mem_nil, or_false] at hx
  subst hx; exact newBase_ne o _ xb h

/-- siblings: after any balanced block the next element computes its base and language from the
same enclosing values as the block's first element did -/
theorem sibling_sees_enclosing (o : Ops) (s : St) (hs : Inv s) (blk : List Ev) (hb : Balanced blk) (xb xl) :
    step o (run o s blk) (.start xb xl) = step o s (.start xb xl) := by
  rw [balanced_restores o blk hb s hs]

/-- **Innermost base wins / unsafe values are ignored**: the base in effect inside an element is
the safe join of its xml:base onto the enclosing base, and the enclosing base itself when the
element has no xml:base or the safe join rejects it (non-allow-listed scheme). -/
theorem effective_base (o : Ops) (cur : String) (hc : cur ≠ "") (xb : Option String) :
    newBase o cur xb =
      match xb with
      | some b => if b ≠ "" then (if o.safe2 cur b ≠ "" then o.safe2 cur b else cur)
                  else (if o.safe2 cur cur ≠ "" then o.safe2 cur cur else cur)
      | none => if o.safe2 cur cur ≠ "" then o.safe2 cur cur else cur := by
  unfold newBase pyOr
  cases xb with
  | none => simp [hc]
  | some b => by_cases hb : b = "" <;> simp [hc, hb]

theorem unsafe_xmlbase_ignored (o : Ops) (cur b : String) (hc : cur ≠ "") (hb : b ≠ "")
    (hu : o.safe2 cur b = "") : newBase o cur (some b) = cur := by
  rw [effective_base o cur hc]; simp [hb, hu]

theorem no_xmlbase_keeps_base (o : Ops) (cur : String) (hc : cur ≠ "")
    (hj : o.safe2 cur cur = cur ∨ o.safe2 cur cur = "") : newBase o cur none = cur := by
  rw [effective_base o cur hc]
  rcases hj with h | h <;> simp [h]

/-- language: innermost xml:lang wins, `xml:lang=""` resets to `None`, absence inherits -/
theorem effective_lang (cur : Option String) :
    newLang cur none = cur ∧ newLang cur (some "") = none ∧
    ∀ l, l ≠ "" → newLang cur (some l) = some l := by
  refine ⟨rfl, rfl, ?_⟩
  intro l hl
  unfold newLang
  split
  · next h => simp at h; exact absurd h hl
  · next h => simp at h; rw [h]
  · next h => simp at h

/-- with an EMPTY document base the stack discipline does not restore the base (the pop only
re-installs non-empty stack entries): the property's hypothesis "absolute base" is needed. -/
theorem empty_docbase_leak_counterexample :
    let o : Ops := { safe2 := fun _ r => r, safe1 := fun u => u, join := fun _ r => r }
    run o ⟨"", none, [""], [none]⟩ [.start (some "http://e1/") none, .stop] ≠ ⟨"", none, [""], [none]⟩ := by
  decide

/-! non-vacuity -/
example : Inv ⟨"http://base/", some "en", ["http://base/"], [some "en"]⟩ := by
  refine ⟨⟨_, _, rfl, rfl⟩, ?_, ⟨_, _, rfl, rfl⟩⟩
  intro x hx; simp at hx; subst hx; decide

example : Balanced [.start (some "a/") none, .start none (some "fr"), .stop, .stop, .start none none, .stop] :=
  Balanced.wrap (some "a/") none [.start none (some "fr"), .stop] [.start none none, .stop]
    (Balanced.wrap none (some "fr") [] [] Balanced.nil Balanced.nil)
    (Balanced.wrap none none [] [] Balanced.nil Balanced.nil)

end FeedVerif.Base
