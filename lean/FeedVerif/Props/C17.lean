/-
C17 — HTTP retrieval equals offline parsing; transport faults become bozo.
Model: FeedVerif/Model/Api.lean (result assembly with the HTTP stage; header merge; base URI choice).
The transport itself (requests / urllib3 / sockets) is runtime: faults are injected by the harness.
-/
import FeedVerif.Model.Api
import FeedVerif.Props.C01
import FeedVerif.Model.Dict

namespace FeedVerif.Api

theorem find_filter_ne (k k' : String) (h : k' ≠ k) : ∀ d : Hdrs,
    (d.filter (·.1 != k)).find? (·.1 == k') = d.find? (·.1 == k') := by
  intro d
  induction d with
  | nil => rfl
  | cons p rest ih =>
    by_cases hp : p.1 = k
    · have h1 : (p.1 != k) = false := by simp [hp]
      have h2 : (p.1 == k') = false := by rw [hp]; simpa using fun e => h e.symm
      simp only [List.filter_cons, h1, Bool.false_eq_true, ↓reduceIte, List.find?_cons, h2, ih]
    · have h1 : (p.1 != k) = true := by simpa using hp
      simp only [List.filter_cons, h1, ↓reduceIte, List.find?_cons, ih]

theorem dget_dictSet (d : Hdrs) (k v k' : String) : dget (dictSet d k v) k' = if k' = k then some v else dget d k' := by
  unfold dictSet dget
  by_cases hk : k' = k
  · subst hk; simp
  · have : (k == k') = false := by simpa using fun e => hk e.symm
    simp only [List.find?_cons, this, hk, ↓reduceIte, find_filter_ne k k' hk]

/-- the last item with a given (transformed) name wins -/
def lastOf (f : String → String) (items : Hdrs) (k : String) : Option String := (items.reverse.find? (fun p => f p.1 == k)).map (·.2)

/-- lookups after a run of assignments: the last assignment to that key, else what was there -/
theorem dget_foldl (f : String → String) (items : Hdrs) : ∀ (d : Hdrs) (k : String),
    dget (items.foldl (fun d p => dictSet d (f p.1) p.2) d) k = (lastOf f items k).or (dget d k) := by
  induction items with
  | nil => intro d k; simp [lastOf]
  | cons p rest ih =>
    intro d k
    simp only [List.foldl_cons]
    rw [ih]
    unfold lastOf
    rw [List.reverse_cons, List.find?_append]
    cases hr : rest.reverse.find? (fun q => f q.1 == k) with
    | some q => simp
    | none =>
      simp only [Option.none_or, List.find?_cons, List.find?_nil, Option.map_none, Option.none_or]
      rw [dget_dictSet]
      by_cases hk : k = f p.1
      · subst hk; simp
      · have : (f p.1 == k) = false := by simpa using fun h => hk h.symm
        simp [hk, this]

theorem dget_dictOfLower (lower : String → String) (items : Hdrs) (k : String) : dget (dictOfLower lower items) k = lastOf lower items k := by
  unfold dictOfLower
  rw [dget_foldl]
  simp [dget]

theorem dget_dictUpdate (d other : Hdrs) (k : String) : dget (dictUpdate d other) k = (lastOf id other k).or (dget d k) := by
  unfold dictUpdate
  exact dget_foldl id other d k

/-- each key at most once -/
def KeysUnique (d : Hdrs) : Prop := ∀ p q, p ∈ d → q ∈ d → p.1 = q.1 → p = q

theorem dictSet_unique (d : Hdrs) (k v : String) (h : KeysUnique d) : KeysUnique (dictSet d k v) := by
  intro p q hp hq hpq
  simp only [dictSet, List.mem_cons, List.mem_filter, bne_iff_ne, ne_eq] at hp hq
  rcases hp with hp | ⟨hp, hpk⟩ <;> rcases hq with hq | ⟨hq, hqk⟩
  · rw [hp, hq]
  · rw [hp] at hpq; exact absurd hpq.symm hqk
  · rw [hq] at hpq; exact absurd hpq hpk
  · exact h p q hp hq hpq

theorem foldl_unique (f : String → String) (items : Hdrs) : ∀ d, KeysUnique d → KeysUnique (items.foldl (fun d p => dictSet d (f p.1) p.2) d) := by
  induction items with
  | nil => intro d h; exact h
  | cons p rest ih => intro d h; exact ih _ (dictSet_unique d _ _ h)

theorem dictOfLower_unique (lower : String → String) (items : Hdrs) : KeysUnique (dictOfLower lower items) :=
  foldl_unique lower items [] (by intro p q hp; cases hp)

/-- with unique keys "the last pair with this key" is "the pair with this key" -/
theorem lastOf_unique (d : Hdrs) (k : String) (h : KeysUnique d) : lastOf id d k = dget d k := by
  unfold lastOf dget
  congr 1
  cases hf : d.find? (·.1 == k) with
  | none =>
    rw [List.find?_eq_none] at hf ⊢
    intro q hq; exact hf q (List.mem_reverse.mp hq)
  | some x =>
    have hx := List.find?_some hf
    have hxm := List.mem_of_find?_eq_some hf
    cases hr : d.reverse.find? (fun p => id p.1 == k) with
    | none =>
      rw [List.find?_eq_none] at hr
      exact absurd hx (hr x (List.mem_reverse.mpr hxm))
    | some y =>
      have hy := List.find?_some hr
      have hym := List.mem_reverse.mp (List.mem_of_find?_eq_some hr)
      simp only [id, beq_iff_eq] at hx hy
      rw [h y x hym hxm (by rw [hy, hx])]

/-- **What the parsers see**: for every header name, the caller's value (last spelling, any case) if the
caller supplied one, else the response's (last occurrence, any case) -/
theorem effective_lookup (lower : String → String) (resp caller : Hdrs) (k : String) :
    dget (effectiveHeaders lower resp caller) k = (lastOf lower caller k).or (lastOf lower resp k) := by
  unfold effectiveHeaders
  rw [dget_dictUpdate, lastOf_unique _ _ (dictOfLower_unique lower caller), dget_dictOfLower, dget_dictOfLower]

/-- **The caller's headers override the response's, case-insensitively** -/
theorem caller_overrides (lower : String → String) (resp caller : Hdrs) (k v : String) (h : lastOf lower caller k = some v) :
    dget (effectiveHeaders lower resp caller) k = some v := by
  rw [effective_lookup, h]; rfl

/-- …a name only the response carries passes through -/
theorem response_passes_through (lower : String → String) (resp caller : Hdrs) (k : String) (h : lastOf lower caller k = none) :
    dget (effectiveHeaders lower resp caller) k = lastOf lower resp k := by
  rw [effective_lookup, h]; rfl

theorem lastOf_append (f : String → String) (a b : Hdrs) (k : String) : lastOf f (a ++ b) k = (lastOf f b k).or (lastOf f a k) := by
  unfold lastOf
  rw [List.reverse_append, List.find?_append]
  cases b.reverse.find? (fun p => f p.1 == k) <;> rfl

/-- **Online = offline (the headers)**: fetching hands `_parse_file_inplace` the headers
`lower(response) ∪ lower(caller)`; parsing the body offline with `response_headers = response ++ caller`
hands it a dict with the same lookups — for every header name. -/
theorem online_headers_eq_offline (lower : String → String) (resp caller : Hdrs) (k : String) :
    dget (effectiveHeaders lower resp caller) k = dget (effectiveHeaders lower [] (resp ++ caller)) k := by
  rw [effective_lookup, effective_lookup, lastOf_append]
  simp [lastOf]

/-- **Online = offline (the base URI)**: online the base is `make_safe_absolute_uri(href, contentloc)`
with `href` the final URL; when the response has no Content-Location this is what offline parsing
computes from `Content-Location := final URL` — given the two library facts about
`make_safe_absolute_uri` (M-uri, C04): with an empty relative part the two-argument form is the
one-argument check, and that check returns an http(s) URL unchanged (only such URLs are fetched). -/
theorem online_base_eq_offline (safe2 : String → String → String) (safe1 : String → String) (url : String)
    (h : safe2 url "" = safe1 url) (hsafe : safe1 url = url) :
    baseUri safe2 safe1 url "" = url ∧ baseUri safe2 safe1 "" url = url := by
  unfold baseUri
  by_cases hu : url.isEmpty = true
  · have : url = "" := by simpa using hu
    subst this
    simp [hsafe]
  · have hu' : url.isEmpty = false := by simpa using hu
    simp [hu', h, hsafe]

/-- a failed transfer: bozo set, the transport exception attached, no parser constructed, no HTTP
keys recorded — and `parse` returns (C01's `transport_failure` restated with the key set) -/
theorem transport_fault_is_bozo (s : Stages) (hu : s.urlError = false) (hi : s.isUrl = true) (ht : s.transportFails = true) :
    (parse s).bozo = true ∧ (parse s).exc = some .transport ∧ (parse s).ran = [] ∧ "status" ∉ (parse s).keys ∧ "bozo_exception" ∈ (parse s).keys := by
  obtain ⟨h1, h2, h3⟩ := transport_failure s hu hi ht
  refine ⟨h1, h2, h3, ?_, ?_⟩
  · unfold parse isEmpty httpKeys; simp [hu, hi, ht, baseKeys]
  · exact (bozo_iff_exception s).2.mpr h1

/-- a successful transfer records status and href, and etag / modified exactly when the headers carry them -/
theorem http_keys_recorded (s : Stages) (hu : s.urlError = false) (hi : s.isUrl = true) (ht : s.transportFails = false) :
    "status" ∈ (parse s).keys ∧ "href" ∈ (parse s).keys ∧ (("etag" ∈ (parse s).keys) ↔ s.hasEtag = true) ∧
    (("updated" ∈ (parse s).keys) ↔ s.hasModified = true) ∧ (("updated_parsed" ∈ (parse s).keys) ↔ s.hasModified = true) := by
  obtain ⟨a, b, c, d, e, f, g, h, i, j, k, l, m⟩ := s
  simp only at hu hi ht
  subst hu hi ht
  revert b c d e f g h i l m
  decide +kernel

/-- `modified` / `modified_parsed` are reachable under those names: the alias table (regenerated from
/repo) maps them to the keys the assignment is stored under -/
theorem modified_alias : Dict.canon Dict.keymap "modified" = "updated" ∧ Dict.canon Dict.keymap "modified_parsed" = "updated_parsed" := by
  constructor <;> decide +kernel

/-- for an empty body the caller's headers are NOT merged into the returned `headers` (witnessed; recorded as a finding) -/
example : dget (resultHeaders (fun s => s.map Char.toLower) true [("Content-Type", "a/b")] [("content-type", "c/d")]) "content-type" = some "a/b" := by decide +kernel

example : dget (effectiveHeaders (fun s => s.map Char.toLower) [("Content-Type", "text/xml; charset=iso-8859-1"), ("ETag", "x")] [("CONTENT-TYPE", "application/xml; charset=utf-8")]) "content-type"
    = some "application/xml; charset=utf-8" := by decide +kernel

end FeedVerif.Api
