/-
C04 — URIs with a scheme outside the allow-list never survive scheme filtering.
Model: FeedVerif/Model/Uri.lean; helper lemmas: FeedVerif/Lemmas/Uri.lean.
-/
import FeedVerif.Lemmas.Uri
import FeedVerif.Gen.RefUrls

namespace FeedVerif.Uri
open List

/-- every entry is non-empty, starts with an ASCII letter, consists of lower-case scheme chars -/
def AllowOK (allow : List Str) : Prop := ∀ a ∈ allow, goodEntry a = true

/-- the conclusion of the property for one returned string -/
def SchemeSafe (allow : List Str) (r : Str) : Prop :=
  r = [] ∨ whatwgScheme r = none ∨ ∃ a ∈ allow, whatwgScheme r = some a

/-! ### table facts on the regenerated allow-list -/

/-- TABLE FACT: every shipped entry has the shape the theorems need. -/
theorem allow_ok : allowList.all goodEntry = true := by decide +kernel

theorem allowList_AllowOK : AllowOK allowList := by
  intro a ha
  have := allow_ok
  rw [List.all_eq_true] at this
  exact this a ha

/-- TABLE FACT: the script-capable / data-carrying schemes are not allow-listed. -/
theorem allow_excludes_dangerous :
    ["javascript", "vbscript", "data", "livescript", "mocha", "about", "jar", "view-source", "blob"].all
      (fun s => !Gen.Urls.uriSchemes.contains s) = true := by decide +kernel

/-- TABLE FACT: nothing was added to the allow-list relative to the frozen reference snapshot. -/
theorem allow_subset_reference :
    Gen.Urls.uriSchemes.all (fun s => Ref.Urls.uriSchemes.contains s) = true := by decide +kernel

/-- TABLE FACT: the resolver's (element, attribute) table did not lose an entry (C04's
"every attribute of the documented URI-attribute table" refers to this table). -/
theorem relative_uris_superset_reference :
    Ref.Urls.relativeUris.all (fun p => Gen.Urls.relativeUris.contains p) = true := by decide +kernel

/-! ### two-argument form: for EVERY join function -/

theorem safe2_scheme (allow : List Str) (hok : AllowOK allow) (joined : Str) :
    SchemeSafe allow (safe2 allow joined) := by
  unfold safe2
  by_cases h : allow.contains (pyHead joined) = true
  · rw [if_pos h]
    have hmem : pyHead joined ∈ allow := by simpa using h
    rcases safe2_core joined (pyHead joined) (hok _ hmem) rfl with h1 | h1
    · exact Or.inr (Or.inl h1)
    · exact Or.inr (Or.inr ⟨_, hmem, h1⟩)
  · rw [if_neg h]; exact Or.inl rfl

/-- **C04, two-argument form.** With a non-empty base and a non-empty reference the helper returns
the empty string or a URI whose WHATWG scheme is absent or allow-listed — whatever `urljoin`
does (`join` is universally quantified). -/
theorem makeSafe_two_arg_scheme (allow : List Str) (hok : AllowOK allow) (hne : allow ≠ [])
    (join : Str → Str → Str) (raises : Str → Bool) (base rel : Str)
    (hb : base ≠ []) (hr : rel ≠ []) :
    SchemeSafe allow (makeSafe allow join raises base (some rel)) := by
  unfold makeSafe
  have h1 : allow.isEmpty = false := by cases allow <;> simp_all
  have h2 : base.isEmpty = false := by cases base <;> simp_all
  have h3 : rel.isEmpty = false := by cases rel <;> simp_all
  simp only [Option.getD_some, h1, h2, h3, Bool.false_eq_true, ↓reduceIte]
  exact safe2_scheme allow hok _

/-! ### one-argument form: Python's scheme extraction agrees with the WHATWG states -/

theorem all_append_false {p : Char → Bool} (a : Str) (d : Char) (x : Str) (hd : p d = false) :
    (a ++ d :: x).all p = false := by
  simp [List.all_append, hd]

theorem filter_all {p q : Char → Bool} (t : Str) (h : t.all p = true) : (t.filter q).all p = true := by
  simp only [all_eq_true] at *
  intro x hx; exact h x (List.mem_filter.mp hx).1

theorem c0sp_not_colon {c : Char} (h : c0sp c = true) : isColon c = false := by
  cases hc : isColon c
  · rfl
  · have := colon_not_c0sp hc; rw [h] at this; cases this

theorem noColon_of_all {p : Char → Bool} (a : Str) (h : a.all p = true)
    (hp : ∀ c, p c = true → isColon c = false) : a.all (fun c => !isColon c) = true := by
  simp only [all_eq_true] at *
  intro x hx; simp [hp x (h x hx)]

theorem whatwgScheme_core (uri : Str) :
    whatwgScheme uri = whatwgCore ((strip c0sp uri).filter (fun c => !tabnl c)) := by
  unfold whatwgScheme whatwgCore
  cases (strip c0sp uri).filter (fun c => !tabnl c) <;> rfl

/-- core of the agreement: `sw` is the WHATWG-preprocessed input, `t'` the trailing C0/space
characters Python does not strip -/
theorem core_eq (sw t' : Str) (ht' : t'.all c0sp = true) : pyCore (sw ++ t') = whatwgCore sw := by
  have ht'c : t'.all (fun c => !isColon c) = true := noColon_of_all t' ht' (fun c => c0sp_not_colon)
  have hsw : sw = sw.takeWhile schemeCh ++ sw.dropWhile schemeCh := by simp
  generalize hP : sw.takeWhile schemeCh = p at hsw
  have hp : p.all schemeCh = true := by rw [← hP]; exact takeWhile_all _ _
  have hpc : p.all (fun c => !isColon c) = true := noColon_of_all p hp (fun c => scheme_not_colon)
  cases hq : sw.dropWhile schemeCh with
  | nil =>
    rw [hq, append_nil] at hsw
    have hnc : (sw ++ t').all (fun c => !isColon c) = true := by
      rw [hsw, all_append, hpc, ht'c]; rfl
    have hd : (sw ++ t').dropWhile (fun c => !isColon c) = [] := by
      have := dropWhile_append_of_all (p := fun c => !isColon c) (sw ++ t') [] hnc
      simpa using this
    have h1 : pyCore (sw ++ t') = none := by unfold pyCore; rw [hd]
    have h2 : whatwgCore sw = none := by
      unfold whatwgCore
      cases sw with
      | nil => rfl
      | cons c r => simp only [hq]; split <;> rfl
    rw [h1, h2]
  | cons d q =>
    rw [hq] at hsw
    have hdns : schemeCh d = false := dropWhile_head schemeCh sw d q hq
    by_cases hdc : isColon d = true
    · have htw : (sw ++ t').takeWhile (fun c => !isColon c) = p := by
        rw [hsw, append_assoc, takeWhile_append_of_all p _ hpc]
        simp [takeWhile_cons, hdc]
      have hdw : (sw ++ t').dropWhile (fun c => !isColon c) = d :: q ++ t' := by
        rw [hsw, append_assoc, dropWhile_append_of_all p _ hpc]
        simp [dropWhile_cons, hdc]
      unfold pyCore
      rw [htw, hdw]
      cases p with
      | nil =>
        simp only [nil_append] at hsw
        have hna : alpha d = false := by
          cases ha : alpha d
          · rfl
          · have : schemeCh d = true := by simp [schemeCh, ha]
            rw [hdns] at this; cases this
        unfold whatwgCore
        rw [hsw]
        simp [hna]
      | cons c r =>
        have hsw' : sw = c :: (r ++ d :: q) := by rw [hsw]; rfl
        unfold whatwgCore
        simp only [cons_append]
        rw [hsw'] at hq hP ⊢
        simp only [hq, hP]
        by_cases hac : alpha c = true
        · simp [hac, hp, hdc]
        · simp [hac]
    · have hdc' : isColon d = false := by simpa using hdc
      have h2 : whatwgCore sw = none := by
        unfold whatwgCore
        cases sw with
        | nil => rfl
        | cons c r => simp only [hq, hdc']; split <;> rfl
      have h1 : pyCore (sw ++ t') = none := by
        unfold pyCore
        cases hY : (sw ++ t').dropWhile (fun c => !isColon c) with
        | nil => rfl
        | cons e y =>
          simp only
          have hpre : ∃ z, (sw ++ t').takeWhile (fun c => !isColon c) = p ++ d :: z := by
            rw [hsw, append_assoc, takeWhile_append_of_all p _ hpc]
            refine ⟨(q ++ t').takeWhile (fun c => !isColon c), ?_⟩
            simp [takeWhile_cons, hdc']
          obtain ⟨z, hz⟩ := hpre
          rw [hz]
          have hall : (p ++ d :: z).all schemeCh = false := all_append_false p d z hdns
          cases hpz : p ++ d :: z with
          | nil => rfl
          | cons c r => rw [hpz] at hall; simp [hall]
      rw [h1, h2]

/-- Python 3.12 `urlsplit` assigns exactly the scheme the WHATWG scheme-start/scheme states
assign (empty scheme ↔ no scheme), for every string. -/
theorem pyScheme_eq_whatwg (uri : Str) : pyScheme uri = whatwgScheme uri := by
  obtain ⟨t, hL, ht⟩ := rstrip_decomp c0sp (lstrip c0sp uri)
  have hstrip : strip c0sp uri = rstrip c0sp (lstrip c0sp uri) := rfl
  rw [whatwgScheme_core]
  unfold pyScheme
  have hpy : (lstrip c0sp uri).filter (fun c => !tabnl c)
      = (strip c0sp uri).filter (fun c => !tabnl c) ++ t.filter (fun c => !tabnl c) := by
    rw [hstrip, ← filter_append, ← hL]
  rw [hpy]
  exact core_eq _ _ (filter_all t ht)

/-- **C04, one-argument form.** `make_safe_absolute_uri(u)` returns the empty string or a URI
whose WHATWG scheme is absent or allow-listed. -/
theorem makeSafe_one_arg_scheme (allow : List Str) (hne : allow ≠ [])
    (join : Str → Str → Str) (raises : Str → Bool) (u : Str) :
    SchemeSafe allow (makeSafe allow join raises u none) := by
  unfold makeSafe
  have h1 : allow.isEmpty = false := by cases allow <;> simp_all
  simp only [Option.getD_none, h1, Bool.false_eq_true, ↓reduceIte, isEmpty_nil]
  by_cases hu : u.isEmpty = true
  · simp only [hu, ↓reduceIte]; exact Or.inl rfl
  · simp only [hu, Bool.false_eq_true, ↓reduceIte]
    by_cases hr : raises u = true
    · simp only [hr, ↓reduceIte]; exact Or.inl rfl
    · simp only [hr, Bool.false_eq_true, ↓reduceIte]
      cases hs : pyScheme u with
      | none => exact Or.inr (Or.inl (by rw [← pyScheme_eq_whatwg]; exact hs))
      | some sch =>
        simp only
        by_cases hc : allow.contains sch = true
        · rw [if_pos hc]
          exact Or.inr (Or.inr ⟨sch, by simpa using hc, by rw [← pyScheme_eq_whatwg]; exact hs⟩)
        · rw [if_neg hc]; exact Or.inl rfl

/-- the property's statement for the shipped allow-list, both forms at once -/
theorem makeSafe_scheme_shipped (join : Str → Str → Str) (raises : Str → Bool) (base : Str)
    (rel : Option Str) (hb : base ≠ []) :
    SchemeSafe allowList (makeSafe allowList join raises base rel) := by
  have hne : allowList ≠ [] := by decide +kernel
  cases rel with
  | none => exact makeSafe_one_arg_scheme allowList hne join raises base
  | some r =>
    by_cases hr : r = []
    · subst hr
      have := makeSafe_one_arg_scheme allowList hne join raises base
      unfold makeSafe at this ⊢
      simpa using this
    · exact makeSafe_two_arg_scheme allowList allowList_AllowOK hne join raises base r hb hr

/-- C18: emptying the allow-list disables scheme filtering and nothing else: the result is the
plain join. -/
theorem empty_allowlist_disables_filter_only (join : Str → Str → Str) (raises : Str → Bool)
    (base : Str) (rel : Option Str) :
    makeSafe [] join raises base rel = join base (rel.getD []) := by
  simp [makeSafe]

/-! ### consequences for the call sites (sanitizer href check, resolver attribute) -/

/-- sanitizer.py:807-816 after the `fix:` commits: the value kept for an href-type attribute is
`make_safe_absolute_uri(value)` if `make_safe_absolute_uri(unescape(value))` is non-empty, else "". -/
def sanitizerHref (allow : List Str) (join : Str → Str → Str) (raises : Str → Bool)
    (unescape : Str → Str) (value : Str) : Str :=
  if (makeSafe allow join raises (unescape value) none).isEmpty then []
  else makeSafe allow join raises value none

/-- whatever survives the sanitizer's href check has, in its character-reference-DECODED form,
no scheme or an allow-listed one (the decoded form is what a browser hands to its URL parser). -/
theorem sanitizer_href_safe (allow : List Str) (hne : allow ≠ [])
    (join : Str → Str → Str) (raises : Str → Bool) (unescape : Str → Str) (value : Str)
    (hkept : sanitizerHref allow join raises unescape value ≠ []) :
    whatwgScheme (unescape value) = none ∨ ∃ a ∈ allow, whatwgScheme (unescape value) = some a := by
  unfold sanitizerHref at hkept
  by_cases he : (makeSafe allow join raises (unescape value) none).isEmpty = true
  · rw [if_pos he] at hkept; exact absurd rfl hkept
  · have hs := makeSafe_one_arg_scheme allow hne join raises (unescape value)
    have hne' : makeSafe allow join raises (unescape value) none ≠ [] := by
      intro h; rw [h] at he; simp at he
    -- a non-empty one-argument result is the argument itself
    have hid : makeSafe allow join raises (unescape value) none = unescape value := by
      unfold makeSafe at hne' ⊢
      have h1 : allow.isEmpty = false := by cases allow <;> simp_all
      simp only [Option.getD_none, h1, Bool.false_eq_true, ↓reduceIte, isEmpty_nil] at hne' ⊢
      by_cases hu : (unescape value).isEmpty = true
      · simp [hu] at hne'
      · simp only [hu, Bool.false_eq_true, ↓reduceIte] at hne' ⊢
        by_cases hr : raises (unescape value) = true
        · simp [hr] at hne'
        · simp only [hr, Bool.false_eq_true, ↓reduceIte] at hne' ⊢
          cases hsc : pyScheme (unescape value) with
          | none => rfl
          | some sch =>
            simp only [hsc] at hne' ⊢
            by_cases hc : allow.contains sch = true
            · rw [if_pos hc]
            · rw [if_neg hc] at hne'; exact absurd rfl hne'
    rw [hid] at hs
    rcases hs with h | h | h
    · rw [← hid] at h; exact absurd h hne'
    · exact Or.inl h
    · exact Or.inr h

/-- urls.py:159-171 after the `fix:` commit: an attribute of the resolver table is REPLACED by the
safe join (no fall-back to the authored value). -/
def resolverAttr (inTable : Bool) (safeJoin : Str → Str) (value : Str) : Str :=
  if inTable then safeJoin value else value

theorem resolver_attr_safe (allow : List Str) (hok : AllowOK allow) (hne : allow ≠ [])
    (join : Str → Str → Str) (raises : Str → Bool) (base value : Str) (hb : base ≠ []) (hv : value ≠ []) :
    SchemeSafe allow (resolverAttr true (fun v => makeSafe allow join raises base (some v)) value) := by
  unfold resolverAttr
  simp only [↓reduceIte]
  exact makeSafe_two_arg_scheme allow hok hne join raises base value hb hv

theorem resolve_identity_off_table (safeJoin : Str → Str) (value : Str) :
    resolverAttr false safeJoin value = value := rfl

/-! ### non-vacuity and witnesses -/

example : goodEntry "http".toList = true ∧ "http".toList ∈ allowList := by decide +kernel
example : whatwgScheme " \tJaVa\nScRiPt:alert(1)".toList = some "javascript".toList := by decide +kernel
example : pyScheme " \tJaVa\nScRiPt:alert(1)".toList = some "javascript".toList := by decide +kernel
example : makeSafe allowList (fun _ r => r) (fun _ => false) "http://a/".toList (some " javascript:alert(1)".toList) = [] := by
  decide +kernel
example : makeSafe allowList (fun _ r => r) (fun _ => false) "http://a/".toList (some "https://b/".toList) = "https://b/".toList := by
  decide +kernel

end FeedVerif.Uri
