/-
C09 — dates in every supported format parse to the right UTC instant; dispatcher semantics.
Models: FeedVerif/Model/Civil.lean, FeedVerif/Model/Date.lean; civil lemmas in Lemmas/Civil.lean.
-/
import FeedVerif.Lemmas.Civil
import FeedVerif.Model.Date

namespace FeedVerif.Date
open FeedVerif.Civil

/-! ### civil arithmetic: every instant has a well-defined civil time -/

/-- **Python's `_ord2ymd` is a right inverse of `_ymd2ord` for every ordinal ≥ 1** (no bound):
the civil date computed for a day number is a date whose day number it is. Together with
`shift` this makes "the 9-tuple of the same instant" well defined for every instant × offset. -/
theorem ordinal_roundtrip (n : Nat) (hn : 1 ≤ n) :
    ymd2ord (ord2ymd n).1 (ord2ymd n).2.1 (ord2ymd n).2.2 = n :=
  ymd2ord_ord2ymd n hn

/-! ### `shift`: the tuple is determined by the instant alone -/

/-- seconds (from ordinal 0) of the instant denoted by local civil fields at a UTC offset -/
def instantOf (y m d hh mm ss : Int) (tzhour tzmin : Int) : Int :=
  (ymd2ord y.toNat m.toNat d.toNat : Nat) * 86400 + hh * 3600 + mm * 60 + ss - (tzhour * 3600 + tzmin * 60)

/-- **Same instant, same tuple**: two (local time, offset) descriptions of the same instant are
mapped to the same UTC tuple (or both rejected as out of range), whatever the two offsets are —
the sign and minutes of the offset enter only through the instant. -/
theorem shift_depends_on_instant (y m d hh mm ss th tm y' m' d' hh' mm' ss' th' tm' : Int)
    (hv : validDT y m d hh mm ss = true) (hv' : validDT y' m' d' hh' mm' ss' = true)
    (ho : (th * 3600 + tm * 60).natAbs ≤ 86399999913600) (ho' : (th' * 3600 + tm' * 60).natAbs ≤ 86399999913600)
    (h : instantOf y m d hh mm ss th tm = instantOf y' m' d' hh' mm' ss' th' tm') :
    shift y m d hh mm ss th tm = shift y' m' d' hh' mm' ss' th' tm' := by
  unfold shift
  unfold instantOf at h
  have e1 : ¬ ((th * 3600 + tm * 60).natAbs > 86399999913600) := by omega
  have e2 : ¬ ((th' * 3600 + tm' * 60).natAbs > 86399999913600) := by omega
  simp only [hv, hv', Bool.not_true, Bool.false_eq_true, ↓reduceIte, e1, e2]
  rw [h]

/-- the date part of a produced tuple is the civil date of the UTC day number, and the day number
is recovered from it (so the tuple names exactly the instant `total`) -/
theorem shift_tuple_names_instant (y m d hh mm ss th tm : Int) (t : Tuple9)
    (h : shift y m d hh mm ss th tm = some t) :
    let total := instantOf y m d hh mm ss th tm
    (ymd2ord t.y t.m t.d : Int) = total / 86400 ∧
    (t.hh * 3600 + t.mm * 60 + t.ss : Int) = total % 86400 ∧
    t.hh < 24 ∧ t.mm < 60 ∧ t.ss < 60 := by
  unfold shift at h
  simp only at h
  split at h
  · cases h
  · split at h
    · cases h
    · split at h
      · cases h
      · rename_i hv ho hd
        simp only [Option.some.injEq] at h
        subst h
        simp only [instantOf]
        simp only [Bool.or_eq_true, decide_eq_true_eq, not_or, Int.not_lt, Int.not_lt] at hd
        obtain ⟨hd1, hd2⟩ := hd
        generalize hT : ((ymd2ord y.toNat m.toNat d.toNat : Nat) : Int) * 86400 + hh * 3600 + mm * 60 + ss - (th * 3600 + tm * 60) = total at hd1 hd2 ⊢
        have hdn : 1 ≤ (total / 86400).toNat := by omega
        have hr := ordinal_roundtrip (total / 86400).toNat hdn
        have hm := Int.emod_nonneg total (by omega : (86400 : Int) ≠ 0)
        have hm2 := Int.emod_lt_of_pos total (by omega : (0 : Int) < 86400)
        refine ⟨?_, ?_, ?_, ?_, ?_⟩
        · rw [hr]; omega
        · omega
        · omega
        · omega
        · omega

/-! ### dispatcher (datetimes/__init__.py:48-63) -/

/-- **Newest-first**: the first registered-latest handler whose result is a truthy 9-sized value
wins; everything before it is skipped. -/
theorem dispatch_newest_first (h : HRes) (hs : List HRes) :
    dispatch false (h :: hs) = match accepted h with
      | some id => some id
      | none => dispatch false hs := by
  unfold dispatch
  simp only [Bool.false_eq_true, ↓reduceIte, List.findSome?_cons]
  cases accepted h <;> rfl

/-- a handler that raises ANY exception, returns a falsy value, an unsized value, or a sized
value of length ≠ 9 is skipped and the next handler is tried -/
theorem dispatch_skips (h : HRes) (hs : List HRes)
    (hskip : h = .raises ∨ h = .falsy ∨ h = .unsized ∨ ∃ l id, h = .sized l id ∧ l ≠ 9) :
    dispatch false (h :: hs) = dispatch false hs := by
  rw [dispatch_newest_first]
  rcases hskip with rfl | rfl | rfl | ⟨l, id, rfl, hl⟩
  · rfl
  · rfl
  · rfl
  · have : accepted (.sized l id) = none := by
      unfold accepted
      split
      · rename_i a b heq; injection heq with h1 h2; exact absurd h1 hl
      · rfl
    rw [this]

/-- the dispatcher is total: it returns a handler's 9-sized result or `None`, never raises
(the model has no failure outcome at all; the tie is the scripted-handler correspondence) -/
theorem dispatch_result (e : Bool) (rs : List HRes) (id : Nat) (h : dispatch e rs = some id) :
    e = false ∧ ∃ l, HRes.sized 9 id ∈ rs ∧ l = 9 := by
  unfold dispatch at h
  cases e with
  | true => simp at h
  | false =>
    simp only [Bool.false_eq_true, ↓reduceIte] at h
    refine ⟨rfl, 9, ?_, rfl⟩
    obtain ⟨a, ha, hacc⟩ := List.exists_of_findSome?_eq_some h
    unfold accepted at hacc
    split at hacc
    · rename_i id'; simp at hacc; subst hacc; exact ha
    · cases hacc

/-- `registerDateHandler` puts the new handler in front of all existing ones -/
theorem register_prepends (hs : List HRes) (h : HRes) :
    dispatch false (register hs h) = match accepted h with
      | some id => some id
      | none => dispatch false hs :=
  dispatch_newest_first h hs

/-- every history of registrations: the newest accepting handler decides -/
theorem registrations_newest_wins (base : List HRes) (regs : List HRes) :
    dispatch false (regs.foldl register base) =
      match regs.reverse.findSome? accepted with
      | some id => some id
      | none => dispatch false base := by
  induction regs generalizing base with
  | nil => simp [dispatch]
  | cons r rs ih =>
    simp only [List.foldl_cons, List.reverse_cons, List.findSome?_append]
    rw [ih]
    cases hrs : rs.reverse.findSome? accepted with
    | some id => simp
    | none =>
      simp only [Option.none_or, List.findSome?_cons, List.findSome?_nil]
      rw [show dispatch false (register base r) = _ from register_prepends base r]
      cases accepted r <;> rfl

/-! ### the two-digit-year window of `_parse_date_rfc822` -/

/-- a year written with three or more characters (`0050`, `1999`, `12345`) is taken verbatim, whatever its value -/
theorem year_written_long_is_verbatim (w : Str) (y : Int) (h : 3 ≤ w.length) : windowYear w y = y := by
  unfold windowYear; split
  · omega
  · rfl

/-- a year written with one or two digits lands in 1990..2089, on the century that puts it there -/
theorem year_written_short_is_windowed (w : Str) (y : Int) (h : w.length ≤ 2) (h0 : 0 ≤ y) (h1 : y ≤ 99) :
    1990 ≤ windowYear w y ∧ windowYear w y ≤ 2089 ∧ (windowYear w y - y = 2000 ∨ windowYear w y - y = 1900) := by
  unfold windowYear; simp only [h, ↓reduceIte]; split <;> omega

/-- the window looks at the spelling only: the two spellings `50` and `0050` of the same number give different years -/
example : windowYear "50".toList 50 = 2050 ∧ windowYear "0050".toList 50 = 50 := by decide

/-- the empty string is answered `None` without consulting any handler -/
theorem dispatch_empty (rs : List HRes) : dispatch true rs = none := rfl

/-! ### tables (regenerated) -/

/-- TABLE FACT: the RFC 822 zone names of the standard and the five documented extra names carry
the documented hour offsets. -/
theorem rfc822_zone_table :
    [("ut", (0 : Int)), ("gmt", 0), ("z", 0), ("est", -5), ("edt", -4), ("cst", -6), ("cdt", -5), ("mst", -7), ("mdt", -6),
     ("pst", -8), ("pdt", -7), ("a", -1), ("n", 1), ("m", -12), ("y", 12),
     ("at", -4), ("et", -5), ("ct", -6), ("mt", -7), ("pt", -8)].all
      (fun p => lookupInt Gen.Dates.rfc822Zones p.1.toList == some p.2) = true := by decide +kernel

theorem rfc822_month_table :
    ["jan", "feb", "mar", "apr", "may", "jun", "jul", "aug", "sep", "oct", "nov", "dec"].zipIdx.all
      (fun p => lookupNat Gen.Dates.rfc822Months p.1.toList == some (p.2 + 1)) = true := by decide +kernel

/-- TABLE FACT: the built-in handlers are registered in the documented priority order -/
theorem builtin_handler_order :
    Gen.Dates.dateHandlerNames = ["_parse_date_w3dtf", "_parse_date_rfc822", "_parse_date_iso8601",
      "_parse_date_asctime", "_parse_date_perforce", "_parse_date_hungarian", "_parse_date_greek",
      "_parse_date_nate", "_parse_date_onblog"] := by decide +kernel

/-! ### concrete instances (non-vacuity) -/
example : parseRfc822 "Thu, 01 Jan 04 19:48:21 -0830".toList =
    some ⟨2004, 1, 2, 4, 18, 21, 4, 2⟩ := by decide +kernel
example : parseW3dtf "2003-12-31T10:14:55-08:00".toList = some ⟨2003, 12, 31, 18, 14, 55, 2, 365⟩ := by decide +kernel
example : parseAsctime "Sun Jan  4 16:29:06 PST 2004".toList = some ⟨2004, 1, 5, 0, 29, 6, 0, 5⟩ := by decide +kernel
example : dispatch false [.raises, .sized 8 1, .falsy, .sized 9 7, .sized 9 2] = some 7 := by decide

end FeedVerif.Date
