/-
C08 — bozo tells the truth about well-formedness.
Model: FeedVerif/Model/Api.lean — the result assembly of `parse()` as a function of the stage
outcomes.  "Well-formed for an XML processor" is the SAX stage's outcome (`saxFails`); that the
pre-processing in front of it (declaration rewrite, DOCTYPE replacement) does not change that
outcome is the subject of C06 / C12 and of the damage search against raw expat.
-/
import FeedVerif.Model.Api
import FeedVerif.Props.C01

namespace FeedVerif.Api

/-- every one of the 2^13 combinations of stage outcomes, decided by the kernel -/
theorem bozo_paired (s : Stages) : ((parse s).bozo = true ↔ "bozo_exception" ∈ (parse s).keys) ∧ ((parse s).bozo = true ↔ (parse s).exc.isSome = true) := by
  have h := bozo_iff_exception s
  constructor
  · exact h.2.symm
  · rw [h.1]

/-- a fatal XML error ALWAYS surfaces: whatever conversion said before and whatever the loose / JSON
passes do afterwards, bozo is set -/
theorem fatal_error_is_bozo (s : Stages) (hu : s.urlError = false) (he : isEmpty s = false)
    (hx : s.encodingKnown = true) (ha : s.xmlAvailable = true) (hj : s.jsonType = false) (hf : s.saxFails = true) :
    (parse s).bozo = true := (sax_failure_is_bozo s hu he ⟨hx, ha, hj⟩ hf).1

/-- …and the attached exception is the SAX one, unless the loose pass found nothing at all and the JSON
pass that is then tried failed too (its exception replaces the SAX one: api.py:365-369) -/
theorem fatal_error_exception (s : Stages) (hu : s.urlError = false) (he : isEmpty s = false)
    (hx : s.encodingKnown = true) (ha : s.xmlAvailable = true) (hj : s.jsonType = false) (hf : s.saxFails = true) :
    (parse s).exc = if s.looseEmpty && s.jsonFails then some .json else some .sax := by
  unfold parse
  simp only [hu, he, hx, ha, hj, hf]
  cases s.looseEmpty <;> cases s.jsonFails <;> simp

/-- a well-formed document in its correctly declared encoding with an XML media type (or no headers):
encoding known, no complaint from the conversion, the SAX pass succeeds ⇒ bozo unset, no
bozo_exception key, and only the strict parser ran -/
theorem wellformed_is_clean (s : Stages) (hu : s.urlError = false) (he : isEmpty s = false) (ht : s.transportFails = false)
    (hx : s.encodingKnown = true) (ha : s.xmlAvailable = true) (hj : s.jsonType = false) (hc : s.convError = false) (hf : s.saxFails = false) :
    (parse s).bozo = false ∧ "bozo_exception" ∉ (parse s).keys ∧ (parse s).ran = [Parser.strict] := by
  have h := clean_strict_pass s hu he ht ⟨hx, ha, hj⟩ hc hf
  refine ⟨h.1, ?_, h.2⟩
  intro hk
  have := (bozo_iff_exception s).2.mp hk
  rw [h.1] at this
  cases this

/-- no silent fallback: if bozo is unset then no stage failed — no transport error, no conversion
complaint, and neither the SAX pass nor the JSON pass (where they ran) raised -/
theorem no_silent_fallback (s : Stages) (hu : s.urlError = false) (hb : (parse s).bozo = false) :
    (isEmpty s = false → s.convError = false) ∧
    (Parser.strict ∈ (parse s).ran → s.saxFails = false) ∧
    (Parser.json ∈ (parse s).ran → s.jsonFails = false) := by
  obtain ⟨a, b, c, d, e, f, g, h, i, j, k, l, m⟩ := s
  revert a b c d e f g h i j k l m
  decide +kernel

/-- non-vacuity: a damaged feed (SAX fails, loose pass finds data) vs the same feed undamaged -/
example : (parse { urlError := false, empty := false, encodingKnown := true, jsonType := false, convError := false, xmlAvailable := true,
                   saxFails := true, looseEmpty := false, jsonFails := false }).exc = some .sax ∧
          (parse { urlError := false, empty := false, encodingKnown := true, jsonType := false, convError := false, xmlAvailable := true,
                   saxFails := false, looseEmpty := false, jsonFails := false }).bozo = false := by decide

end FeedVerif.Api
