/-
C07 — the result does not depend on how the bytes are delivered.
Model: FeedVerif/Model/Stream.lean.
-/
import FeedVerif.Model.Stream
import FeedVerif.Model.Prefix

namespace FeedVerif.Stream

theorem readN_file (f : File) (size : Nat) :
    (f.readN size).1 ++ (f.readN size).2.rest = f.rest ∧ (f.readN size).1.length ≤ size ∧
    (size > 0 → f.rest ≠ [] → (f.readN size).1 ≠ []) := by
  unfold File.readN
  split
  · rename_i hs
    refine ⟨by simp, by simp, ?_⟩
    intro h; omega
  · rename_i hs
    refine ⟨by simp, ?_, ?_⟩
    · simp only [List.length_take]; omega
    · intro _ hne
      simp only [ne_eq, List.take_eq_nil_iff, not_or]
      refine ⟨?_, hne⟩
      split <;> omega

/-- loop invariant: output ++ remaining file content is preserved, never more than `size` new bytes -/
theorem loopN_spec (fuel : Nat) : ∀ (f : File) (size : Nat) (buf : Bytes) (off : Nat),
    let r := loopN fuel f size buf off
    (∃ got, r.1 = buf ++ got ∧ got ++ r.2.1.rest = f.rest ∧ got.length ≤ size ∧ r.2.2 = off + got.length) := by
  induction fuel with
  | zero => intro f size buf off; exact ⟨[], by simp [loopN]⟩
  | succ n ih =>
    intro f size buf off
    obtain ⟨h1, h2, _⟩ := readN_file f size
    simp only [loopN]
    split
    · rename_i he
      have : (f.readN size).1 = [] := by simpa using he
      refine ⟨[], by simp, ?_, by simp⟩
      rw [← h1, this]
    · split
      · exact ⟨(f.readN size).1, rfl, h1, h2, rfl⟩
      · obtain ⟨got, g1, g2, g3, g4⟩ := ih (f.readN size).2 (size - (f.readN size).1.length)
          (buf ++ (f.readN size).1) (off + (f.readN size).1.length)
        refine ⟨(f.readN size).1 ++ got, ?_, ?_, ?_, ?_⟩
        · rw [g1]; simp
        · rw [List.append_assoc, g2, h1]
        · simp only [List.length_append]; omega
        · rw [g4]; simp only [List.length_append]; omega

/-- the fuel is not a restriction: every non-final iteration consumes at least one byte of `size`,
so `size + 1` iterations always suffice — more fuel changes nothing (the model's bounded loop IS the
real `while True`) -/
theorem loopN_stable (fuel : Nat) : ∀ (f : File) (size : Nat) (buf : Bytes) (off : Nat),
    size + 1 ≤ fuel → loopN (fuel + 1) f size buf off = loopN fuel f size buf off := by
  induction fuel with
  | zero => intro f size buf off h; omega
  | succ n ih =>
    intro f size buf off h
    rw [loopN, loopN]
    simp only
    split
    · rfl
    · rename_i hne
      split
      · rfl
      · rename_i hs
        have hlen : 1 ≤ (f.readN size).1.length := by
          cases hc : (f.readN size).1 with
          | nil => rw [hc] at hne; simp at hne
          | cons a l => simp
        exact ih _ _ _ _ (by omega)

theorem loopN_enough (k : Nat) (f : File) (size : Nat) (buf : Bytes) (off : Nat) :
    loopN (size + 1 + k) f size buf off = loopN (size + 1) f size buf off := by
  induction k with
  | zero => rfl
  | succ k ih => rw [← ih]; exact loopN_stable (size + 1 + k) f size buf off (by omega)

/-- **A sized read never loses, duplicates or reorders data**: what it returns, followed by what is
still readable, is what was readable before — for EVERY short-read schedule of the underlying file. -/
theorem readN_preserves (w : PW) (size : Nat) :
    (w.readN size).1 ++ (w.readN size).2.logical = w.logical := by
  unfold PW.readN PW.logical
  simp only
  split
  · rename_i hlt
    generalize hP : w.prefix.drop w.offset = P
    have hdrop : ∀ k, w.prefix.drop (w.offset + k) = P.drop k := by
      intro k; rw [← hP, List.drop_drop]
    have key := loopN_spec (size - (P.take size).length + 1) w.file
      (size - (P.take size).length) (P.take size) (w.offset + (P.take size).length)
    simp only at key
    generalize loopN (size - (P.take size).length + 1) w.file
      (size - (P.take size).length) (P.take size) (w.offset + (P.take size).length) = L at key ⊢
    obtain ⟨got, g1, g2, g3, g4⟩ := key
    rw [g1, g4, Nat.add_assoc, hdrop]
    by_cases hfull : (P.take size).length < size
    · have hlen : P.length < size := by
        simp only [List.length_take] at hfull; omega
      have ht : P.take size = P := List.take_of_length_le (by omega)
      have hd : P.drop ((P.take size).length + got.length) = [] :=
        List.drop_eq_nil_of_le (by rw [ht]; omega)
      rw [hd, ht, List.nil_append, List.append_assoc, g2]
    · have hz : size - (P.take size).length = 0 := by
        have := List.length_take_le size P; omega
      rw [hz] at g3
      have hg : got = [] := List.eq_nil_of_length_eq_zero (by omega)
      subst hg
      simp only [List.append_nil, List.nil_append, List.length_nil, Nat.add_zero] at g2 ⊢
      rw [g2, ← List.append_assoc]
      congr 1
      have hle : size ≤ P.length := by
        simp only [List.length_take] at hfull; omega
      have : (P.take size).length = size := by simp [List.length_take, Nat.min_eq_left hle]
      rw [this, List.take_append_drop]
  · rename_i hge
    have key := loopN_spec (size + 1) w.file size [] w.offset
    simp only at key
    generalize loopN (size + 1) w.file size [] w.offset = L at key ⊢
    obtain ⟨got, g1, g2, _, g4⟩ := key
    rw [g1, g4, List.nil_append]
    have h1 : w.prefix.drop w.offset = [] := List.drop_eq_nil_of_le (by omega)
    have h2 : w.prefix.drop (w.offset + got.length) = [] := List.drop_eq_nil_of_le (by omega)
    rw [h1, h2]; simpa using g2

/-- **Every read-chunking pattern delivers the same bytes**: for every sequence of sized reads (the
SAX parser's, the validator's, `json.load`'s …) over every short-read schedule, the chunks
concatenated, followed by what is still readable, are exactly what was readable at the start. -/
theorem readSeq_preserves (sizes : List Nat) : ∀ w : PW,
    (w.readSeq sizes).1.flatten ++ (w.readSeq sizes).2.logical = w.logical := by
  induction sizes with
  | nil => intro w; simp [PW.readSeq]
  | cons n rest ih =>
    intro w
    simp only [PW.readSeq, List.flatten_cons, List.append_assoc]
    rw [ih, readN_preserves]

/-- `read()` on a fresh wrapper: prefix, then the whole file -/
theorem readAll_fresh (w : PW) (h : w.offset = 0) : (w.readAll).1 = w.logical ∧ (w.readAll).2.logical = [] := by
  unfold PW.readAll PW.logical File.readAll
  by_cases hp : 0 < w.prefix.length
  · simp [h, hp]
  · have : w.prefix = [] := List.eq_nil_of_length_eq_zero (by omega)
    simp [h, this]

/-- `read()` after the prefix has been consumed: the rest of the file -/
theorem readAll_past (w : PW) (h : w.prefix.length ≤ w.offset) : (w.readAll).1 = w.logical ∧ (w.readAll).2.logical = [] := by
  unfold PW.readAll PW.logical File.readAll
  have hn : ¬ w.offset < w.prefix.length := by omega
  have h1 : w.prefix.drop w.offset = [] := List.drop_eq_nil_of_le h
  simp only [hn, ↓reduceIte, h1, List.nil_append, true_and]
  have : w.prefix.drop (w.offset + w.file.rest.length) = [] := List.drop_eq_nil_of_le (by omega)
  simp [this]

/-- the hypothesis of the two theorems above is forced: a `read()` issued in the MIDDLE of the prefix
re-emits the whole prefix (witness; feedparser's own consumers never mix sized and unsized reads on
one wrapper — recorded by the correspondence run) -/
theorem mixed_read_counterexample :
    let w : PW := { «prefix» := [1, 2, 3], file := ⟨[4], []⟩ }
    let w1 := (w.readN 1).2
    (w1.readAll).1 = [1, 2, 3, 4] ∧ w1.logical = [2, 3, 4] := by decide

/-! ### re-reading, the probe, delivery forms -/

/-- `StreamFactory.reset` on a seekable source: a second pass reads exactly what the first read -/
theorem factory_reread (f : Seekable) (n m : Option Nat) :
    let r := RFW.mk' f
    let (a, f1) := r.file.read n
    let r1 : RFW := { r with file := (f1.read m).2 }
    (r1.reset.file.read n).1 = a := by
  simp only [RFW.mk', RFW.reset, Seekable.seek, Seekable.read]
  cases n <;> cases m <;> rfl

/-- the empty-content probe leaves the stream where it was -/
theorem probe_restores_offset (s : Seekable) : (probe s).2 = s ∧ ((probe s).1 = true ↔ s.content.drop s.pos = []) := by
  unfold probe Seekable.read Seekable.seek
  refine ⟨rfl, ?_⟩
  simp only [List.isEmpty_iff, List.take_eq_nil_iff]
  constructor
  · intro h; rcases h with h | h
    · omega
    · exact h
  · intro h; exact Or.inr h

/-- **All delivery forms hand the parsers the same bytes**: a bytes object, a seekable stream at any
offset, a non-seekable stream, a path — the payload is the content from the current position. -/
theorem delivery_form_payload (content : Bytes) (pos : Nat) :
    (openResource (.bytes (content.drop pos))).payload = content.drop pos ∧
    (openResource (.seekable content pos)).payload = content.drop pos ∧
    (openResource (.nonSeekable content pos)).payload = content.drop pos ∧
    (openResource (.path (content.drop pos))).payload = content.drop pos := by
  simp [openResource, Opened.payload]

/-- streams supplied by the caller are never closed; files feedparser opens itself always are
(`finally: if not hasattr(arg, "read"): file.close()`, api.py:235-238) -/
theorem close_iff_not_caller_owned (s : Source) :
    (openResource s).callerOwned = match s with | .seekable _ _ => true | .nonSeekable _ _ => true | _ => false := by
  cases s <;> rfl

/-- non-vacuity: a 5-byte prefix + 6-byte file read in sized chunks over a stuttering file -/
example : (({ «prefix» := [1, 2, 3, 4, 5], file := ⟨[6, 7, 8, 9, 10, 11], [1, 2, 1, 5]⟩ } : PW).readSeq [2, 4, 3, 100]).1
    = [[1, 2], [3, 4, 5, 6], [7, 8, 9], [10, 11]] := by decide

end FeedVerif.Stream

/-! ### the boundary search of the detection prefix (M-prefix: `convert_file_prefix_to_utf8`, encodings.py:452-520) -/

namespace FeedVerif.Prefix

/-- a candidate is *honest* when its answer is `conv` of exactly the bytes up to its offset, and its offset is in range -/
def Honest (conv : Bytes → R) (content : Bytes) (start lo hi : Nat) (c : Nat × R) : Prop :=
  c.2 = conv ((content.drop start).take (c.1 - start)) ∧ lo ≤ c.1 ∧ c.1 ≤ hi

theorem pickBest_mem : ∀ (l : List (Nat × R)) (c : Nat × R), pickBest l = some c → c ∈ l := by
  intro l
  induction l with
  | nil => intro c h; cases h
  | cons a rest ih =>
    intro c h
    simp only [pickBest] at h
    cases hr : pickBest rest with
    | none => rw [hr] at h; simp only [Option.some.injEq] at h; rw [← h]; simp
    | some b =>
      rw [hr] at h
      simp only at h
      split at h
      · injection h with h; rw [← h]; exact List.mem_cons_of_mem _ (ih b hr)
      · injection h with h; rw [← h]; simp

theorem retry_honest (conv : Bytes → R) (content : Bytes) (start lo : Nat) :
    ∀ (left attempt pos : Nat) (cands : List (Nat × R)) (last : Option (Nat × R)) (c : Nat × R),
      lo ≤ pos → (∀ x ∈ cands, Honest conv content start lo pos x) → (∀ x, last = some x → Honest conv content start lo pos x) →
      retry conv content start attempt left pos cands last = some c → Honest conv content start lo (pos + left) c := by
  intro left
  induction left with
  | zero =>
    intro attempt pos cands last c hlo hc _ h
    simp only [retry] at h
    exact hc c (pickBest_mem cands c h)
  | succ n ih =>
    intro attempt pos cands last c hlo hc hl h
    simp only [retry] at h
    split at h
    · -- EOF after at least one attempt: the previous answer stands
      obtain ⟨h1, h2, h3⟩ := hl c h
      exact ⟨h1, h2, by omega⟩
    · have hb : pos ≤ (if pos < content.length then pos + 1 else pos) ∧ (if pos < content.length then pos + 1 else pos) ≤ pos + 1 := by
        split <;> omega
      generalize (if pos < content.length then pos + 1 else pos) = p' at h hb
      split at h
      · -- success
        injection h with h
        rw [← h]
        exact ⟨rfl, by simp only; omega, by simp only; omega⟩
      · -- bozo: go on with one more byte
        have := ih (attempt + 1) p' (cands ++ [(p', conv ((content.drop start).take (p' - start)))])
          (some (p', conv ((content.drop start).take (p' - start)))) c
          (by omega)
          (by
            intro x hx
            rcases List.mem_append.mp hx with hx | hx
            · obtain ⟨a, b, d⟩ := hc x hx; exact ⟨a, b, by omega⟩
            · simp only [List.mem_singleton] at hx; rw [hx]; exact ⟨rfl, by simp only; omega, by simp only; omega⟩)
          (by intro x hx; injection hx with hx; rw [← hx]; exact ⟨rfl, by simp only; omega, by simp only; omega⟩)
          h
        obtain ⟨a, b, d⟩ := this
        exact ⟨a, b, by omega⟩

/-- **The prefix boundary search loses and duplicates nothing** (C07, `prefix_split_lossless`): for EVERY document, every start and
read position and EVERY behaviour of `convert_to_utf8`, the answer that `convert_file_prefix_to_utf8` keeps is `convert_to_utf8` of
exactly the bytes `content[start : offset]`, where `offset` is where the file is left (at most four bytes after the position the loop
started from, never before it) — so prefix and rest of the stream always make up the whole document, whichever attempt wins and also
when all four fail and the file is sought back to the best candidate. -/
theorem prefix_split_lossless (conv : Bytes → R) (content : Bytes) (start pos : Nat) (c : Nat × R)
    (h : boundarySearch conv content start pos = some c) :
    c.2 = conv ((content.drop start).take (c.1 - start)) ∧ pos ≤ c.1 ∧ c.1 ≤ pos + 4 := by
  have := retry_honest conv content start pos 4 0 pos [] none c (Nat.le_refl _) (by intro x hx; cases hx) (by intro x hx; cases hx) h
  exact this

theorem retry_some (conv : Bytes → R) (content : Bytes) (start : Nat) :
    ∀ (left attempt pos : Nat) (cands : List (Nat × R)) (last : Option (Nat × R)), (cands ≠ [] ∧ last.isSome = true) ∨ (attempt = 0 ∧ left ≠ 0) →
      (retry conv content start attempt left pos cands last).isSome = true := by
  intro left
  induction left with
  | zero =>
    intro attempt pos cands last h
    rcases h with ⟨hne, _⟩ | ⟨_, h0⟩
    · simp only [retry]
      cases cands with
      | nil => exact absurd rfl hne
      | cons a rest =>
        simp only [pickBest]
        cases pickBest rest with
        | none => rfl
        | some b => simp only; split <;> rfl
    · exact absurd rfl h0
  | succ n ih =>
    intro attempt pos cands last h
    simp only [retry]
    split
    · rename_i hc
      rcases h with ⟨_, hl⟩ | ⟨h0, _⟩
      · exact hl
      · simp [h0] at hc
    · generalize (if pos < content.length then pos + 1 else pos) = p'
      split
      · rfl
      · exact ih _ _ _ _ (Or.inl ⟨by simp, rfl⟩)

/-- the search always answers (the loop body runs at least once) -/
theorem boundarySearch_some (conv : Bytes → R) (content : Bytes) (start pos : Nat) : (boundarySearch conv content start pos).isSome = true :=
  retry_some conv content start 4 0 pos [] none (Or.inr ⟨rfl, by decide⟩)

/-- non-vacuity: a 4-byte character straddling the boundary — three bozo attempts, the fourth lands on the code-point boundary -/
example : boundarySearch (fun b => ⟨b, b.length % 4 != 0, 10, false⟩) [1, 2, 3, 4, 5, 6, 7, 8, 9] 0 4 = some (8, ⟨[1, 2, 3, 4, 5, 6, 7, 8], false, 10, false⟩) := by decide

/-- …and when no attempt succeeds the LAST candidate with the greatest key is taken and the offset is its offset -/
example : boundarySearch (fun b => ⟨b, true, if b.length == 6 then 10 else 20, false⟩) [1, 2, 3, 4, 5, 6, 7, 8, 9] 0 4 = some (8, ⟨[1, 2, 3, 4, 5, 6, 7, 8], true, 20, false⟩) := by decide

end FeedVerif.Prefix
