/-
C07 — the result does not depend on how the bytes are delivered.
Model: FeedVerif/Model/Stream.lean.
-/
import FeedVerif.Model.Stream

namespace FeedVerif.Stream

theorem readN_file (f : File) (size : Nat) :
    (f.readN size).1 ++ (f.readN size).2.rest = f.rest ∧ (f.readN size).1.length ≤ size ∧
    (size > 0 → f.rest ≠ [] → (f.readN size).1 ≠ []) := by
  unfold File.readN
  split
  · rename_i hs
    refine ⟨by simp, by simp, ?_⟩
    intro h; omega
  · rename_i hs
    refine ⟨by simp, ?_, ?_⟩
    · simp only [List.length_take]; omega
    · intro _ hne
      simp only [ne_eq, List.take_eq_nil_iff, not_or]
      refine ⟨?_, hne⟩
      split <;> omega

/-- loop invariant: output ++ remaining file content is preserved, never more than `size` new bytes -/
theorem loopN_spec (fuel : Nat) : ∀ (f : File) (size : Nat) (buf : Bytes) (off : Nat),
    let r := loopN fuel f size buf off
    (∃ got, r.1 = buf ++ got ∧ got ++ r.2.1.rest = f.rest ∧ got.length ≤ size ∧ r.2.2 = off + got.length) := by
  induction fuel with
  | zero => intro f size buf off; exact ⟨[], by simp [loopN]⟩
  | succ n ih =>
    intro f size buf off
    obtain ⟨h1, h2, _⟩ := readN_file f size
    simp only [loopN]
    split
    · rename_i he
      have : (f.readN size).1 = [] := by simpa using he
      refine ⟨[], by simp, ?_, by simp⟩
      rw [← h1, this]
    · split
      · exact ⟨(f.readN size).1, rfl, h1, h2, rfl⟩
      · obtain ⟨got, g1, g2, g3, g4⟩ := ih (f.readN size).2 (size - (f.readN size).1.length)
          (buf ++ (f.readN size).1) (off + (f.readN size).1.length)
        refine ⟨(f.readN size).1 ++ got, ?_, ?_, ?_, ?_⟩
        · rw [g1]; simp
        · rw [List.append_assoc, g2, h1]
        · simp only [List.length_append]; omega
        · rw [g4]; simp only [List.length_append]; omega

/-- the fuel is not a restriction: every non-final iteration consumes at least one byte of `size`,
so `size + 1` iterations always suffice — more fuel changes nothing (the model's bounded loop IS the
real `while True`) -/
theorem loopN_stable (fuel : Nat) : ∀ (f : File) (size : Nat) (buf : Bytes) (off : Nat),
    size + 1 ≤ fuel → loopN (fuel + 1) f size buf off = loopN fuel f size buf off := by
  induction fuel with
  | zero => intro f size buf off h; omega
  | succ n ih =>
    intro f size buf off h
    rw [loopN, loopN]
    simp only
    split
    · rfl
    · rename_i hne
      split
      · rfl
      · rename_i hs
        have hlen : 1 ≤ (f.readN size).1.length := by
          cases hc : (f.readN size).1 with
          | nil => rw [hc] at hne; simp at hne
          | cons a l => simp
        exact ih _ _ _ _ (by omega)

theorem loopN_enough (k : Nat) (f : File) (size : Nat) (buf : Bytes) (off : Nat) :
    loopN (size + 1 + k) f size buf off = loopN (size + 1) f size buf off := by
  induction k with
  | zero => rfl
  | succ k ih => rw [← ih]; exact loopN_stable (size + 1 + k) f size buf off (by omega)

/-- **A sized read never loses, duplicates or reorders data**: what it returns, followed by what is
still readable, is what was readable before — for EVERY short-read schedule of the underlying file. -/
theorem readN_preserves (w : PW) (size : Nat) :
    (w.readN size).1 ++ (w.readN size).2.logical = w.logical := by
  unfold PW.readN PW.logical
  simp only
  split
  · rename_i hlt
    generalize hP : w.prefix.drop w.offset = P
    have hdrop : ∀ k, w.prefix.drop (w.offset + k) = P.drop k := by
      intro k; rw [← hP, List.drop_drop]
    have key := loopN_spec (size - (P.take size).length + 1) w.file
      (size - (P.take size).length) (P.take size) (w.offset + (P.take size).length)
    simp only at key
    generalize loopN (size - (P.take size).length + 1) w.file
      (size - (P.take size).length) (P.take size) (w.offset + (P.take size).length) = L at key ⊢
    obtain ⟨got, g1, g2, g3, g4⟩ := key
    rw [g1, g4, Nat.add_assoc, hdrop]
    by_cases hfull : (P.take size).length < size
    · have hlen : P.length < size := by
        simp only [List.length_take] at hfull; omega
      have ht : P.take size = P := List.take_of_length_le (by omega)
      have hd : P.drop ((P.take size).length + got.length) = [] :=
        List.drop_eq_nil_of_le (by rw [ht]; omega)
      rw [hd, ht, List.nil_append, List.append_assoc, g2]
    · have hz : size - (P.take size).length = 0 := by
        have := List.length_take_le size P; omega
      rw [hz] at g3
      have hg : got = [] := List.eq_nil_of_length_eq_zero (by omega)
      subst hg
      simp only [List.append_nil, List.nil_append, List.length_nil, Nat.add_zero] at g2 ⊢
      rw [g2, ← List.append_assoc]
      congr 1
      have hle : size ≤ P.length := by
        simp only [List.length_take] at hfull; omega
      have : (P.take size).length = size := by simp [List.length_take, Nat.min_eq_left hle]
      rw [this, List.take_append_drop]
  · rename_i hge
    have key := loopN_spec (size + 1) w.file size [] w.offset
    simp only at key
    generalize loopN (size + 1) w.file size [] w.offset = L at key ⊢
    obtain ⟨got, g1, g2, _, g4⟩ := key
    rw [g1, g4, List.nil_append]
    have h1 : w.prefix.drop w.offset = [] := List.drop_eq_nil_of_le (by omega)
    have h2 : w.prefix.drop (w.offset + got.length) = [] := List.drop_eq_nil_of_le (by omega)
    rw [h1, h2]; simpa using g2

/-- **Every read-chunking pattern delivers the same bytes**: for every sequence of sized reads (the
SAX parser's, the validator's, `json.load`'s …) over every short-read schedule, the chunks
concatenated, followed by what is still readable, are exactly what was readable at the start. -/
theorem readSeq_preserves (sizes : List Nat) : ∀ w : PW,
    (w.readSeq sizes).1.flatten ++ (w.readSeq sizes).2.logical = w.logical := by
  induction sizes with
  | nil => intro w; simp [PW.readSeq]
  | cons n rest ih =>
    intro w
    simp only [PW.readSeq, List.flatten_cons, List.append_assoc]
    rw [ih, readN_preserves]

/-- `read()` on a fresh wrapper: prefix, then the whole file -/
theorem readAll_fresh (w : PW) (h : w.offset = 0) : (w.readAll).1 = w.logical ∧ (w.readAll).2.logical = [] := by
  unfold PW.readAll PW.logical File.readAll
  by_cases hp : 0 < w.prefix.length
  · simp [h, hp]
  · have : w.prefix = [] := List.eq_nil_of_length_eq_zero (by omega)
    simp [h, this]

/-- `read()` after the prefix has been consumed: the rest of the file -/
theorem readAll_past (w : PW) (h : w.prefix.length ≤ w.offset) : (w.readAll).1 = w.logical ∧ (w.readAll).2.logical = [] := by
  unfold PW.readAll PW.logical File.readAll
  have hn : ¬ w.offset < w.prefix.length := by omega
  have h1 : w.prefix.drop w.offset = [] := List.drop_eq_nil_of_le h
  simp only [hn, ↓reduceIte, h1, List.nil_append, true_and]
  have : w.prefix.drop (w.offset + w.file.rest.length) = [] := List.drop_eq_nil_of_le (by omega)
  simp [this]

/-- the hypothesis of the two theorems above is forced: a `read()` issued in the MIDDLE of the prefix
re-emits the whole prefix (witness; feedparser's own consumers never mix sized and unsized reads on
one wrapper — recorded by the correspondence run) -/
theorem mixed_read_counterexample :
    let w : PW := { «prefix» := [1, 2, 3], file := ⟨[4], []⟩ }
    let w1 := (w.readN 1).2
    (w1.readAll).1 = [1, 2, 3, 4] ∧ w1.logical = [2, 3, 4] := by decide

/-! ### re-reading, the probe, delivery forms -/

/-- `StreamFactory.reset` on a seekable source: a second pass reads exactly what the first read -/
theorem factory_reread (f : Seekable) (n m : Option Nat) :
    let r := RFW.mk' f
    let (a, f1) := r.file.read n
    let r1 : RFW := { r with file := (f1.read m).2 }
    (r1.reset.file.read n).1 = a := by
  simp only [RFW.mk', RFW.reset, Seekable.seek, Seekable.read]
  cases n <;> cases m <;> rfl

/-- the empty-content probe leaves the stream where it was -/
theorem probe_restores_offset (s : Seekable) : (probe s).2 = s ∧ ((probe s).1 = true ↔ s.content.drop s.pos = []) := by
  unfold probe Seekable.read Seekable.seek
  refine ⟨rfl, ?_⟩
  simp only [List.isEmpty_iff, List.take_eq_nil_iff]
  constructor
  · intro h; rcases h with h | h
    · omega
    · exact h
  · intro h; exact Or.inr h

/-- **All delivery forms hand the parsers the same bytes**: a bytes object, a seekable stream at any
offset, a non-seekable stream, a path — the payload is the content from the current position. -/
theorem delivery_form_payload (content : Bytes) (pos : Nat) :
    (openResource (.bytes (content.drop pos))).payload = content.drop pos ∧
    (openResource (.seekable content pos)).payload = content.drop pos ∧
    (openResource (.nonSeekable content pos)).payload = content.drop pos ∧
    (openResource (.path (content.drop pos))).payload = content.drop pos := by
  simp [openResource, Opened.payload]

/-- streams supplied by the caller are never closed; files feedparser opens itself always are
(`finally: if not hasattr(arg, "read"): file.close()`, api.py:235-238) -/
theorem close_iff_not_caller_owned (s : Source) :
    (openResource s).callerOwned = match s with | .seekable _ _ => true | .nonSeekable _ _ => true | _ => false := by
  cases s <;> rfl

/-- non-vacuity: a 5-byte prefix + 6-byte file read in sized chunks over a stuttering file -/
example : (({ «prefix» := [1, 2, 3, 4, 5], file := ⟨[6, 7, 8, 9, 10, 11], [1, 2, 1, 5]⟩ } : PW).readSeq [2, 4, 3, 100]).1
    = [[1, 2], [3, 4, 5, 6], [7, 8, 9], [10, 11]] := by decide

end FeedVerif.Stream
